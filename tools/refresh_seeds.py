#!/usr/bin/env python3
"""Re-run the property's quick check against every kept seed (tools/mutcheck.sh: scratch copy of
/repo's current tree + the seed's patch) and refresh detected_by_check / detecting_obligations in
each meta.json and /verif/seeded/SUMMARY.json. A patch that no longer applies is marked stale.
usage: refresh_seeds.py [-j N] [seed ...]"""
import json, os, re, subprocess, sys
from concurrent.futures import ThreadPoolExecutor
root = "/verif/seeded"
args = sys.argv[1:]
jobs = 4
if args[:1] == ["-j"]:
    jobs = int(args[1]); args = args[2:]
names = args or sorted(d for d in os.listdir(root) if os.path.isfile(os.path.join(root, d, "meta.json")))
def one(name):
    d = os.path.join(root, name)
    meta = json.load(open(os.path.join(d, "meta.json")))
    prop = meta["property"]
    r = subprocess.run(["/verif/tools/mutcheck.sh", os.path.join(d, "patch.diff"), prop], capture_output=True, text=True)
    if "PATCH-FAILED" in r.stdout:
        meta["stale"] = True
        status = "stale"
    else:
        meta.pop("stale", None)
        detected = ("DETECTED " + prop) in r.stdout
        keys = sorted(set(re.findall(r"(?:VIOLATION|UNDECIDED) (\S+)", r.stdout)))
        meta["detected_by_check"] = detected
        meta["detecting_obligations"] = keys[:8]
        meta["mutcheck_output"] = [l[:300] for l in r.stdout.strip().splitlines()[:6]]
        meta["checked_against_repo_commit"] = subprocess.run(["git", "-C", "/repo", "rev-parse", "--short", "HEAD"], capture_output=True, text=True).stdout.strip()
        status = "DETECTED" if detected else "missed"
    json.dump(meta, open(os.path.join(d, "meta.json"), "w"), indent=1)
    return name, prop, status, meta.get("detecting_obligations", [])[:2]
with ThreadPoolExecutor(jobs) as ex:
    res = list(ex.map(one, names))
for n, p, s, k in res:
    print(f"{s:9s} {n} {k}")
# summary over all seeds
summary = []
for d in sorted(os.listdir(root)):
    mp = os.path.join(root, d, "meta.json")
    if os.path.isfile(mp):
        m = json.load(open(mp))
        summary.append({"seed": d, "property": m["property"], "detected": bool(m.get("detected_by_check")) and not m.get("stale"),
                        "stale": bool(m.get("stale")), "by": m.get("detecting_obligations", [])[:3]})
json.dump(summary, open(os.path.join(root, "SUMMARY.json"), "w"), indent=1)
print(f"{sum(1 for s in summary if s['detected'])}/{len(summary)} detected, {sum(1 for s in summary if s['stale'])} stale")
