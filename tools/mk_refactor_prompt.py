#!/usr/bin/env python3
"""usage: mk_refactor_prompt.py <tag> <file> [<file>...] — prompt for a sub-agent that makes
behaviour-PRESERVING refactors (to measure false alarms of the checks). Creates worktree /tmp/wt/<tag>."""
import subprocess, sys, os
tag, files = sys.argv[1], sys.argv[2:]
wt = f"/tmp/wt/{tag}"; out = f"/tmp/wt/{tag}-out"
if not os.path.isdir(wt):
    subprocess.check_call(["git", "-C", "/repo", "worktree", "add", "-q", "--detach", wt, "HEAD"])
os.makedirs(out, exist_ok=True)
print(f"""You are a maintainer of the Go library bufbuild/protocompile (a pure-Go Protocol Buffers compiler) doing routine code-health work.

You have your own scratch git worktree of the repository at {wt} (work ONLY there; never touch /repo or /verif, and do not read anything under /verif). There is no network. Use plain `go` with `GOPROXY=off` (e.g. `cd {wt} && GOPROXY=off go build ./... && GOPROXY=off go test -vet=off -count=1 ./...`). Some tests fail already at baseline in this sandbox (protoc binary missing: parser TestBasicValidation, linker TestLinkerValidation & friends, experimental/benchmark) and internal/intern, internal/ext/syncx, parser TestPathological are load-sensitive flakes — compare against a run without your change. Never use `git stash` (it is shared between worktrees); use `git diff > file` and `git checkout -- .` to get back to the clean tree.

TASK: produce FOUR independent, behaviour-PRESERVING refactorings of non-test source in these files: {', '.join(files)}.
Each refactoring must
  1. leave the observable behaviour of the library exactly as it is for every input, schedule and history (no bug fixes, no new features, no behaviour change in error paths either),
  2. compile and keep the test suite result identical to the unchanged tree,
  3. be the kind of change that really shows up in maintenance history, and be non-trivial: e.g. extract a helper function or method, inline a small helper, rename functions/variables/struct fields, reorder independent statements or declarations, move a function to another file of the same package, turn an if/else chain into a switch (or back), replace a hand-written loop by a standard-library helper with identical semantics, change how a lock/unlock pair is written (defer vs explicit) WITHOUT changing what is protected, introduce a small local type or named constant, simplify a condition to an equivalent one,
  4. touch 10–60 lines, in DIFFERENT functions from the other three.
Each applies alone to the unchanged tree.

DELIVERABLES in {out}/ : refactor1.diff … refactor4.diff (from `git -C {wt} diff`, each against the clean tree) and notes.md with, per refactoring, one paragraph saying what was changed and why behaviour is unchanged. Leave the worktree clean afterwards. Final answer: a short summary.""")
