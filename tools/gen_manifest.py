#!/usr/bin/env python3
"""Generate MANIFEST.json from tools/manifest_src.json (claimed checks + not_applicable)."""
import json, subprocess, os
here = os.path.dirname(os.path.abspath(__file__))
src = json.load(open(os.path.join(here, "manifest_src.json")))
props = [json.loads(l)["id"] for l in open(os.path.join(here, "..", "properties.jsonl"))]
fix_commits = src.get("source_commits", [])
checks = []
for c in src["checks"]:
    pid = c["id"]
    checks.append({
        "property_id": pid,
        "quick_cmd": f"./check.sh {pid} quick",
        "thorough_cmd": f"./check.sh {pid} thorough",
        "evidence_file": f"/verif/evidence/{pid}.json",
        "replay_cmd_template": "./check.sh replay {path}",
        "engine": "verifsa",
        "level_claimed": {"category": "other", "text": c["text"], "design_ref": c.get("design_ref", "DESIGN.md section 4, " + pid)},
        "level_note": c["note"],
        "technique": c["technique"],
    })
claimed = {c["property_id"] for c in checks}
na = src["not_applicable"]
na_ids = {n["property_id"] for n in na}
assert claimed.isdisjoint(na_ids), claimed & na_ids
missing = [p for p in props if p not in claimed and p not in na_ids]
assert not missing, "properties neither claimed nor not_applicable: %s" % missing
m = {
    "version": 1,
    "setup_cmd": "./check.sh build",
    "hooks": {
        "guard": "verif",
        "enable": "none: static analysis reads /repo's source; no instrumentation is compiled in (the tag is unused)",
        "baseline_off_cmd": "cd /repo && GOPROXY=off go test -vet=off -count=1 -timeout 25m ./...",
        "source_commits": fix_commits,
        "add_only": True,
    },
    "engines": [{"name": "verifsa", "path": "/verif/sa", "serves_properties": sorted(claimed),
                 "kind_free_text": "repository-specific static analyser (go/packages + go/types + go/cfg dataflow + go/ssa + VTA call graph) with rule tables frozen from this code base"}],
    "checks": checks,
    "notes": src.get("notes", ""),
    "not_applicable": na,
}
json.dump(m, open(os.path.join(here, "..", "MANIFEST.json"), "w"), indent=1)
print("claimed", len(checks), "not_applicable", len(na))
