#!/bin/bash
# usage: tools/mutcheck.sh [-R] <patch.diff> <Cxx> [<Cxx>...]
# Copies /repo's working tree to a scratch directory outside /repo and /verif, applies the patch
# there (-R: reversed), runs the named checks (quick tier) against the copy with a private
# VERIF_DIR (so /verif/evidence is untouched), prints per-check DETECTED/missed, removes the copy.
set -u
REV=""
if [ "$1" = "-R" ]; then REV="-R"; shift; fi
PATCH="$1"; shift
S="${VERIF_SCRATCH:-/var/tmp}/mutcheck.$$"
mkdir -p "$S/repo" "$S/verif"
rsync -a --exclude .git --exclude .tmp /repo/ "$S/repo/"
cp /verif/known_findings.json "$S/verif/"
if ! (cd "$S/repo" && patch -p1 $REV --no-backup-if-mismatch -s < "$PATCH"); then echo "PATCH-FAILED $PATCH"; rm -rf "$S"; exit 3; fi
/verif/check.sh build >/dev/null
rc=0
for c in "$@"; do
  out=$(VERIF_REPO="$S/repo" VERIF_DIR="$S/verif" /verif/bin/verifsa check "$c" quick 2>&1); code=$?
  if [ $code -eq 1 ]; then
    echo "DETECTED $c: $(echo "$out" | grep -E '^  (VIOLATION|UNDECIDED)' | head -3 | cut -c1-400)"
  elif [ $code -eq 0 ]; then echo "missed   $c"; rc=1
  else echo "ERROR    $c: $out" | head -5; rc=2; fi
done
rm -rf "$S"
exit $rc
