#!/usr/bin/env python3
"""usage: mk_agent_prompt.py <Cxx> <tag>   — creates a scratch worktree /tmp/wt/<tag> of /repo HEAD and
prints the prompt for a fresh sub-agent that must seed a defect for property Cxx (the agent gets only the
property's text and its own worktree; nothing from /verif)."""
import json, subprocess, sys, os
hard = "--hard" in sys.argv
args = [a for a in sys.argv[1:] if a != "--hard"]
pid, tag = args[0], args[1]
prop = None
for l in open('/verif/properties.jsonl'):
    d = json.loads(l)
    if d['id'] == pid: prop = d
wt = f"/tmp/wt/{tag}"; out = f"/tmp/wt/{tag}-out"
if not os.path.isdir(wt):
    subprocess.check_call(["git", "-C", "/repo", "worktree", "add", "-q", "--detach", wt, "HEAD"])
os.makedirs(out, exist_ok=True)
anch = prop['anchors']
HARD = ("AVOID the obvious mechanisms — do not simply remove a lock, an unlock, a nil/length/range check, a defer, a clone or a call. Prefer semantic slips that survive a careful read: a boundary that is off in one corner case, two statements reordered that each look fine, state updated in one of two sibling places but not the other, an index taken in the wrong index space, a condition rewritten into one that is equivalent except for one input class, a cache/flag that is computed from slightly too little, a value captured too early or too late. " if hard else "")
print(f"""You are helping test a verification effort for the Go library bufbuild/protocompile (a pure-Go Protocol Buffers compiler). Your job: play the role of a developer who introduces a subtle, realistic bug.

You have your own scratch git worktree of the repository at {wt} (work ONLY there; never touch /repo or /verif, and do not read anything under /verif). The repository builds and its test suite passes offline. There is no network. Use plain `go` with `GOPROXY=off` (e.g. `cd {wt} && GOPROXY=off go build ./... && GOPROXY=off go test -vet=off -count=1 ./...`; the whole suite takes a few minutes; some tests under experimental/ fail already at baseline — compare against a run without your change, and note that internal/intern, internal/ext/syncx and parser TestPathological are load-sensitive flakes).

THE PROPERTY (a behaviour users rely on):

  {pid} — {prop.get('title','')}
  {prop.get('statement','')}
  Code it is anchored in: {', '.join(anch.get('files', []))}
  Mechanisms: {json.dumps(anch.get('mechanism', []))}

TASK: produce TWO independent changes to the library's (non-test) source, in different functions or mechanisms, each of which
  1. BREAKS the property above (for some input / schedule / history),
  2. still compiles (`go build ./...`) and still passes the existing test suite exactly as the unchanged tree does (run the suite with and without the change and compare; only pre-existing failures/flakes may differ),
  3. needs something SPECIFIC to manifest — a particular interleaving, a fault or panic at a particular point, a multi-step sequence of operations, an unusual input, or two cooperating sites that each look fine alone — NOT something that ordinary use would expose at once,
  4. looks like a plausible refactor, optimisation or "cleanup" a maintainer might really make (not sabotage, no dead code, no comments announcing the bug), and is small (typically 1–30 changed lines).
Never use `git stash` (the stash is shared between worktrees and other people are working in sibling worktrees); to go back to the clean tree use `git diff > file` and `git checkout -- .`. {HARD}Do not modify or delete existing tests, testdata or generated files' inputs. Each change must be independent (each applies alone to the unchanged tree).

For each change also write a DEMONSTRATION: a new Go test file (package-internal or external test, your choice) that FAILS (or hangs until its own timeout, or is flagged by -race if you say so) with the change applied and PASSES on the unchanged tree. Make it deterministic if at all possible (use hooks such as custom resolvers, channels and barriers rather than sleeps; if it is probabilistic, loop enough to make failure near-certain with the change and say so). Verify both directions yourself.

DELIVERABLES, written into {out}/ :
  patch.diff   — first change, produced by `git -C {wt} diff` (source change only, no test file in it)
  demo_test.go — its demonstration test file
  patch2.diff, demo2_test.go — the second change and its demonstration
  notes.md — for each change: which file path inside the repo the demo file must be copied to (e.g. linker/zz_demo_test.go), the package dir and `-run` regex to run it (and whether -race is needed), one paragraph on what the change is and why it breaks the property, what it needs in order to manifest, and what you ran to confirm (suite with the change, demo with/without).
When done, leave the worktree clean of your changes (`git -C {wt} checkout -- . && git -C {wt} clean -fd`) — the deliverables in {out}/ are what counts. Final answer: a short summary of the two changes.""")
