#!/bin/bash
# usage: seed_verify.sh <seed-name> <patch.diff> <demo_file> <dest path in repo> <test pkg dir> <-run regex> [extra go test flags]
# Verifies a seeded defect in a scratch worktree of /repo: (a) builds with the patch, (b) the
# baseline's stable_pass tests still pass with it, (c) the demo fails with it, (d) the demo passes
# without it. Prints a JSON summary line; removes the worktree afterwards.
set -u
NAME="$1"; PATCH="$2"; DEMO="$3"; DEST="$4"; PKG="$5"; RUN="$6"; shift 6
WT=/tmp/sv/$NAME
rm -rf "$WT"; mkdir -p /tmp/sv
git -C /repo worktree add -q --detach "$WT" HEAD || exit 3
cd "$WT"
res() { echo "RESULT $NAME build=$1 suite=$2 demo_with=$3 demo_without=$4"; }
if ! git apply "$PATCH"; then res patchfail - - -; git -C /repo worktree remove --force "$WT"; exit 1; fi
if GOPROXY=off go build ./... 2>/tmp/sv/$NAME.build.log; then B=ok; else B=FAIL; fi
python3 /verif/tools/baseline_check.py "$WT" > /tmp/sv/$NAME.suite.log 2>&1; SUITE=$(grep stable_pass /tmp/sv/$NAME.suite.log | tail -1)
cp "$DEMO" "$DEST"
if [ -n "${EXTRA_DEMO:-}" ]; then cp "$EXTRA_DEMO" "$(dirname "$DEST")/zz_extra_helper_test.go"; fi
timeout 600 env GOPROXY=off go test -vet=off -count=1 -run "$RUN" "$@" "$PKG" > /tmp/sv/$NAME.with.log 2>&1; W=$?
git apply -R "$PATCH"
timeout 600 env GOPROXY=off go test -vet=off -count=1 -run "$RUN" "$@" "$PKG" > /tmp/sv/$NAME.without.log 2>&1; WO=$?
res $B "$(echo $SUITE | tr ' ' ',')" "exit$W" "exit$WO"
cd /; git -C /repo worktree remove --force "$WT"
