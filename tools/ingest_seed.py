#!/usr/bin/env python3
"""Verify one sub-agent seed and, if it holds up, keep it under /verif/seeded/<name>/.
usage: ingest_seed.py <spec.json>   where spec = {name, property, src_dir, patch, demo, dest, pkg, run, flags?, extra?, what, needs}
Steps: tools/seed_verify.sh (scratch git worktree of /repo HEAD: apply, build, baseline suite, demo with/without),
then tools/mutcheck.sh of the property's quick check (and any 'also' properties) against a scratch copy with the patch."""
import json, os, re, shutil, subprocess, sys
spec = json.load(open(sys.argv[1]))
name, prop, src = spec["name"], spec["property"], spec["src_dir"]
patch, demo = os.path.join(src, spec["patch"]), os.path.join(src, spec["demo"])
env = dict(os.environ)
for k in ("GOFLAGS", "GOTOOLCHAIN", "GOSUMDB", "GOWORK"):
    env.pop(k, None)
if spec.get("extra"):
    env["EXTRA_DEMO"] = os.path.join(src, spec["extra"])
cmd = ["/verif/tools/seed_verify.sh", name, patch, demo, spec["dest"], spec["pkg"], spec["run"]] + spec.get("flags", [])
r = subprocess.run(cmd, capture_output=True, text=True, env=env)
m = re.search(r"RESULT (\S+) build=(\S+) suite=(\S+) demo_with=(\S+) demo_without=(\S+)", r.stdout)
if not m:
    print("NO RESULT", name, r.stdout[-500:], r.stderr[-500:]); sys.exit(2)
_, build, suite, dwith, dwithout = m.groups()
sm = re.search(r"stable_missing=(\d+)", suite)
verified = build == "ok" and dwith != "exit0" and dwithout == "exit0" and sm and sm.group(1) == "0"
print(f"RESULT {name} build={build} suite={suite} demo_with={dwith} demo_without={dwithout} verified={verified}")
if not verified:
    sys.exit(1)
d = f"/verif/seeded/{name}"
os.makedirs(d, exist_ok=True)
shutil.copy(patch, os.path.join(d, "patch.diff"))
shutil.copy(demo, os.path.join(d, "demo_test.go"))
if spec.get("extra"):
    shutil.copy(os.path.join(src, spec["extra"]), os.path.join(d, "demo_helper_test.go"))
props = [prop] + spec.get("also", [])
r = subprocess.run(["/verif/tools/mutcheck.sh", os.path.join(d, "patch.diff")] + props, capture_output=True, text=True)
detected = "DETECTED " + prop in r.stdout
keys = re.findall(r"(?:VIOLATION|UNDECIDED) (\S+)", r.stdout)
meta = {
    "property": prop,
    "change": spec["what"],
    "needs_to_manifest": spec["needs"],
    "demo": {"file": "demo_test.go", "place_at": spec["dest"], "helper": "demo_helper_test.go" if spec.get("extra") else None,
             "command": f"cd <tree> && GOPROXY=off go test -vet=off -count=1 {' '.join(spec.get('flags', []))} -run '{spec['run']}' {spec['pkg']}"},
    "what_i_ran": [
        "tools/seed_verify.sh in a scratch git worktree of /repo HEAD (removed afterwards): git apply patch; go build ./...; "
        "tools/baseline_check.py (BASELINE stable_pass, flaky packages retried); demo with the patch; git apply -R; demo without the patch",
        f"tools/mutcheck.sh seeded/{name}/patch.diff {' '.join(props)} (scratch copy of /repo's tree with the patch applied, private evidence dir)"],
    "results": {"build": build, "suite": suite, "demo_with_patch": dwith, "demo_without_patch": dwithout},
    "repo_commit": subprocess.run(["git", "-C", "/repo", "rev-parse", "--short", "HEAD"], capture_output=True, text=True).stdout.strip(),
    "detected_by_check": detected,
    "missed_reason": spec.get("missed_reason"),
    "detecting_obligations": sorted(set(keys))[:8],
    "mutcheck_output": r.stdout.strip().splitlines()[:6],
}
json.dump(meta, open(os.path.join(d, "meta.json"), "w"), indent=1)
print(("DETECTED " if detected else "missed   ") + name, sorted(set(keys))[:3])
