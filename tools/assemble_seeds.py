#!/usr/bin/env python3
"""Assemble /verif/seeded/<name>/ from the sub-agents' output directories and the verification logs.
usage: assemble_seeds.py <sv_log> [<sv_log> ...]   (lines 'RESULT <name> build=.. suite=.. demo_with=.. demo_without=..')
For every verified seed (builds, stable suite intact, demo fails with / passes without) it copies the
patch and the demonstration, runs the property's quick check against a scratch copy with the patch
applied (tools/mutcheck.sh) and records which rule keys fire in meta.json."""
import json, os, re, shutil, subprocess, sys
sys.path.insert(0, os.path.dirname(os.path.abspath(__file__)))
from seeds_meta import SEEDS

results = {}
for log in sys.argv[1:]:
    for line in open(log):
        m = re.match(r"RESULT (\S+) build=(\S+) suite=(\S+) demo_with=(\S+) demo_without=(\S+)", line)
        if m:
            results[m.group(1)] = m.groups()[1:]
out_root = "/verif/seeded"
os.makedirs(out_root, exist_ok=True)
summary = []
for name, (build, suite, dwith, dwithout) in sorted(results.items()):
    if name not in SEEDS:
        print("no metadata for", name); continue
    prop, patch, demo, dest, pkg, run, what, needs, extra = SEEDS[name]
    src = f"/tmp/wt/{prop}-out"
    sm = re.search(r"stable_missing=(\d+)", suite)
    verified = build == "ok" and dwith != "exit0" and dwithout == "exit0"
    if not verified:
        print(f"SKIP {name}: not verified ({build} {suite} {dwith} {dwithout})"); continue
    d = os.path.join(out_root, name)
    os.makedirs(d, exist_ok=True)
    shutil.copy(os.path.join(src, patch), os.path.join(d, "patch.diff"))
    shutil.copy(os.path.join(src, demo), os.path.join(d, "demo_test.go"))
    if extra:
        shutil.copy(os.path.join(src, extra), os.path.join(d, "demo_helper_test.go"))
    r = subprocess.run(["/verif/tools/mutcheck.sh", os.path.join(d, "patch.diff"), prop], capture_output=True, text=True)
    detected = r.stdout.startswith("DETECTED")
    keys = re.findall(r"(?:VIOLATION|UNDECIDED) (\S+)", r.stdout)
    meta = {
        "property": prop,
        "change": what,
        "needs_to_manifest": needs,
        "demo": {"file": "demo_test.go", "place_at": dest, "helper": "demo_helper_test.go" if extra else None,
                 "command": f"cd <tree> && GOPROXY=off go test -vet=off -count=1 -run '{run}' {pkg}"},
        "what_i_ran": [
            "tools/seed_verify.sh in a scratch git worktree of /repo HEAD (removed afterwards): git apply patch; go build ./...; "
            "tools/baseline_check.py (BASELINE stable_pass, flaky packages retried); demo with the patch; git apply -R; demo without the patch",
            f"tools/mutcheck.sh seeded/{name}/patch.diff {prop} (scratch copy of /repo's tree with the patch applied, private evidence dir)"],
        "results": {"build": build, "suite": suite, "demo_with_patch": dwith, "demo_without_patch": dwithout,
                    "stable_missing_note": "a non-zero stable_missing in the first run was a load-dependent flake of internal/intern, internal/ext/syncx (synctestx.Hammer) or parser TestPathological; re-checked with retries" if sm and sm.group(1) != "0" else None},
        "detected_by_check": detected,
        "detecting_obligations": sorted(set(keys))[:8],
    }
    json.dump(meta, open(os.path.join(d, "meta.json"), "w"), indent=1)
    summary.append((name, prop, detected, sorted(set(keys))[:2]))
    print(("DETECTED " if detected else "missed   ") + name, sorted(set(keys))[:2])
json.dump([{"seed": n, "property": p, "detected": d, "by": k} for n, p, d, k in summary], open(os.path.join(out_root, "SUMMARY.json"), "w"), indent=1)
