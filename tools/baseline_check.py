#!/usr/bin/env python3
"""Run the repository's pinned suite (command shape from /root/.vp/BASELINE.json) in a
given tree and compare with the baseline's stable_pass list. Exit 0 iff every
stable_pass test passed. Usage: baseline_check.py [repo_dir]"""
import json, subprocess, sys, os
repo = sys.argv[1] if len(sys.argv) > 1 else "/repo"
base = json.load(open("/root/.vp/BASELINE.json"))
want = set(base["stable_pass"])
env = dict(os.environ, GOPROXY="off")
for k in ("GOFLAGS", "GOTOOLCHAIN", "GOSUMDB", "GOWORK"):
    env.pop(k, None)
passed, failed = set(), set()
def run(pkgs):
    p = subprocess.run(["go", "test", "-json", "-vet=off", "-count=1", "-timeout", "25m"] + pkgs,
                       cwd=repo, env=env, capture_output=True, text=True)
    for line in p.stdout.splitlines():
        try:
            ev = json.loads(line)
        except Exception:
            continue
        if "Test" not in ev:
            continue
        key = ev["Package"] + "::" + ev["Test"]
        if ev["Action"] == "pass":
            passed.add(key)
            failed.discard(key)
        elif ev["Action"] == "fail" and key not in passed:
            failed.add(key)
run(["./..."])
# the suite has load-sensitive flakes (synctestx.Hammer WaitGroup reuse, TestPathological timing):
# re-run only the packages that still miss stable tests, up to two more times
for attempt in range(2):
    missing = sorted(want - passed)
    if not missing:
        break
    pkgs = sorted({m.split("::")[0] for m in missing})
    print(f"retry {attempt+1}: re-running {pkgs}")
    run(pkgs)
missing = sorted(want - passed)
print(f"stable_pass={len(want)} passed_now={len(passed)} failed_now={len(failed)} stable_missing={len(missing)}")
for m in missing[:50]:
    print("  NOT PASSING:", m, "(failed)" if m in failed else "(absent)")
sys.exit(1 if missing else 0)
