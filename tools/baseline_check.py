#!/usr/bin/env python3
"""Run the repository's pinned suite (command shape from /root/.vp/BASELINE.json) in a
given tree and compare with the baseline's stable_pass list. Exit 0 iff every
stable_pass test passed. Usage: baseline_check.py [repo_dir]"""
import json, subprocess, sys, os
repo = sys.argv[1] if len(sys.argv) > 1 else "/repo"
base = json.load(open("/root/.vp/BASELINE.json"))
want = set(base["stable_pass"])
env = dict(os.environ, GOPROXY="off")
for k in ("GOFLAGS", "GOTOOLCHAIN", "GOSUMDB", "GOWORK"):
    env.pop(k, None)
p = subprocess.run(["go", "test", "-json", "-vet=off", "-count=1", "-timeout", "25m", "./..."],
                   cwd=repo, env=env, capture_output=True, text=True)
passed, failed = set(), set()
for line in p.stdout.splitlines():
    try:
        ev = json.loads(line)
    except Exception:
        continue
    if "Test" not in ev:
        continue
    key = ev["Package"] + "::" + ev["Test"]
    if ev["Action"] == "pass":
        passed.add(key)
    elif ev["Action"] == "fail":
        failed.add(key)
missing = sorted(want - passed)
print(f"stable_pass={len(want)} passed_now={len(passed)} failed_now={len(failed)} stable_missing={len(missing)}")
for m in missing[:50]:
    print("  NOT PASSING:", m, "(failed)" if m in failed else "(absent)")
sys.exit(1 if missing else 0)
