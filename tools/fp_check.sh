#!/bin/bash
# usage: tools/fp_check.sh [dir...]   — false-alarm regression: applies every behaviour-preserving
# refactoring kept under /verif/refactors/<tag>/refactorN.diff to a scratch copy of /repo's tree and
# runs ALL registered quick checks on it; any check that exits non-zero is a false alarm.
# Prints one line per (diff, alarming check); exit 1 if there is any.
cd "$(dirname "$0")/.."
ALL=$(jq -r '.checks[].property_id' MANIFEST.json | tr '\n' ' ')
rc=0
for d in ${@:-refactors/*}; do
  for f in $d/refactor*.diff; do
    out=$(tools/mutcheck.sh "$(pwd)/$f" $ALL)
    if echo "$out" | grep -q "PATCH-FAILED"; then echo "STALE  $f"; continue; fi
    alarms=$(echo "$out" | grep -E "^(DETECTED|ERROR)" | cut -c1-260)
    if [ -n "$alarms" ]; then echo "ALARM  $f"; echo "$alarms" | sed 's/^/    /'; rc=1; else echo "quiet  $f"; fi
  done
done
exit $rc
