#!/bin/bash
# usage: tools/fp_check.sh [-j N] [dir...]   — false-alarm regression: applies every behaviour-preserving
# refactoring kept under /verif/refactors/<tag>/refactorN.diff to a scratch copy of /repo's tree and
# runs the quick rules of ALL registered properties on it (`verifsa scan`: one load of the tree per
# diff, N diffs in parallel); any property that is not quiet is a false alarm. Prints one line per
# diff (+ the alarming properties); exit 1 if there is any alarm.
cd "$(dirname "$0")/.."
V="$(pwd)"
J=4
if [ "${1:-}" = "-j" ]; then J="$2"; shift 2; fi
./check.sh build >/dev/null
ALL=$(jq -r '.checks[].property_id' MANIFEST.json | tr '\n' ' ')
ROOT="${VERIF_SCRATCH:-/var/tmp}/fpcheck.$$"
mkdir -p "$ROOT"
one() {
  f="$1"; tag=$(echo "$f" | tr '/.' '__')
  S="$ROOT/$tag"
  mkdir -p "$S/repo" "$S/verif"
  rsync -a --exclude .git --exclude .tmp /repo/ "$S/repo/"
  cp "$V/known_findings.json" "$S/verif/"
  if ! (cd "$S/repo" && patch -p1 --no-backup-if-mismatch -s < "$V/$f" >/dev/null 2>&1); then echo "STALE  $f"; rm -rf "$S"; return; fi
  out=$(VERIF_REPO="$S/repo" VERIF_DIR="$S/verif" "$V/bin/verifsa" scan $ALL 2>&1)
  if echo "$out" | grep -qE ' (ALARM|ERROR)'; then
    echo "ALARM  $f"; echo "$out" | grep -vE ' quiet$' | cut -c1-300 | sed 's/^/    /'
  else
    n=$(echo "$out" | grep -c ' quiet$'); echo "quiet  $f ($n properties)"
  fi
  rm -rf "$S"
}
export -f one; export V ROOT ALL
for d in ${@:-refactors/*}; do ls "$d"/refactor*.diff; done | xargs -P "$J" -I{} bash -c 'one {}' | tee "$ROOT.out"
rc=0; grep -q '^ALARM' "$ROOT.out" && rc=1
rm -rf "$ROOT" "$ROOT.out"
exit $rc
