#!/bin/bash
# usage: tools/fp_check.sh [dir...]   — false-alarm regression: applies every behaviour-preserving
# refactoring kept under /verif/refactors/<tag>/refactorN.diff to a scratch copy of /repo's tree and
# runs ALL registered quick checks on it (8 in parallel); any check that exits non-zero is a false
# alarm. Prints one line per diff (+ the alarming checks); exit 1 if there is any alarm.
cd "$(dirname "$0")/.."
V="$(pwd)"
./check.sh build >/dev/null
ALL=$(jq -r '.checks[].property_id' MANIFEST.json)
rc=0
for d in ${@:-refactors/*}; do
  for f in $d/refactor*.diff; do
    S="${VERIF_SCRATCH:-/var/tmp}/fpcheck.$$"
    rm -rf "$S"; mkdir -p "$S/repo" "$S/verif"
    rsync -a --exclude .git --exclude .tmp /repo/ "$S/repo/"
    cp known_findings.json "$S/verif/"
    if ! (cd "$S/repo" && patch -p1 --no-backup-if-mismatch -s < "$V/$f" >/dev/null 2>&1); then echo "STALE  $f"; rm -rf "$S"; continue; fi
    alarms=$(echo "$ALL" | xargs -P 8 -I{} sh -c "VERIF_REPO=$S/repo VERIF_DIR=$S/verif $V/bin/verifsa check {} quick > $S/{}.out 2>&1; c=\$?; if [ \$c -ne 0 ]; then echo \"{} exit=\$c: \$(grep -E '^  (VIOLATION|UNDECIDED)' $S/{}.out | head -2 | cut -c1-220 | tr '\n' ' ')\"; fi")
    if [ -n "$alarms" ]; then echo "ALARM  $f"; echo "$alarms" | sed 's/^/    /'; rc=1; else echo "quiet  $f"; fi
    rm -rf "$S"
  done
done
exit $rc
