#!/bin/bash
# usage: ./check.sh <Cxx> [quick|thorough]   |   ./check.sh replay <path>   |   ./check.sh build
# Rebuilds the analyser when its sources are newer than the binary, then analyses /repo's
# current working tree (nothing is cached between runs).
set -u
cd "$(dirname "$0")"
export GOFLAGS=-mod=mod GOPROXY=off GOSUMDB=off GOTOOLCHAIN=local GOWORK=off
export VERIF_DIR="$(pwd)"
GO=/opt/veriftools/go1.26.8/bin/go
build() {
  mkdir -p bin evidence
  if [ ! -x bin/verifsa ] || [ -n "$(find sa -newer bin/verifsa \( -name '*.go' -o -name go.mod \) -print -quit)" ]; then
    (cd sa && $GO build -o ../bin/verifsa .) || { echo "analyser build failed"; exit 2; }
  fi
}
case "${1:-}" in
  build) build; exit 0;;
  replay) build; exec bin/verifsa replay "$2";;
  "") echo "usage: $0 <Cxx> [quick|thorough] | replay <path> | build"; exit 2;;
  *) build; exec bin/verifsa check "$1" "${2:-${VERIF_TIER:-quick}}";;
esac
