package main

import (
	"fmt"
	"go/ast"
	"go/constant"
	"go/token"
	"go/types"
	"sort"
	"strings"

	"golang.org/x/tools/go/cfg"
)

// RR: grammar token conservation (C11). Productions are read from parser/proto.y (a small reader
// for the rules section); the actions that are actually compiled are read from parser/proto.y.go
// (the big `switch protont` of the generated parser). For every production whose right-hand side
// does not contain the `error` token, the compiled action must reference every right-hand-side
// value protoDollar[1..K]: no token or sub-tree the lexer produced is dropped on the floor.

type yProduction struct {
	lhs  string
	rhs  []string
	line int
}

func parseYaccRules(src string) ([]yProduction, error) {
	lines := strings.Split(src, "\n")
	start, end := -1, len(lines)
	for i, l := range lines {
		if strings.TrimSpace(l) == "%%" {
			if start < 0 {
				start = i + 1
			} else {
				end = i
				break
			}
		}
	}
	if start < 0 {
		return nil, fmt.Errorf("no %%%% section")
	}
	text := strings.Join(lines[start:end], "\n")
	var prods []yProduction
	i, line := 0, start+1
	lhs := ""
	var cur []string
	inRule := false
	flush := func() {
		if inRule {
			prods = append(prods, yProduction{lhs: lhs, rhs: cur, line: line})
		}
		cur = nil
	}
	for i < len(text) {
		c := text[i]
		switch {
		case c == '\n':
			line++
			i++
		case c == ' ' || c == '\t' || c == '\r':
			i++
		case c == '/' && i+1 < len(text) && text[i+1] == '/':
			for i < len(text) && text[i] != '\n' {
				i++
			}
		case c == '/' && i+1 < len(text) && text[i+1] == '*':
			for i+1 < len(text) && !(text[i] == '*' && text[i+1] == '/') {
				if text[i] == '\n' {
					line++
				}
				i++
			}
			i += 2
		case c == '{':
			// action block: skip with nesting, aware of Go strings, runes, comments
			depth := 0
			for i < len(text) {
				ch := text[i]
				switch {
				case ch == '\n':
					line++
					i++
				case ch == '{':
					depth++
					i++
				case ch == '}':
					depth--
					i++
				case ch == '"':
					i++
					for i < len(text) && text[i] != '"' {
						if text[i] == '\\' {
							i++
						}
						i++
					}
					i++
				case ch == '`':
					i++
					for i < len(text) && text[i] != '`' {
						if text[i] == '\n' {
							line++
						}
						i++
					}
					i++
				case ch == '\'':
					i++
					for i < len(text) && text[i] != '\'' {
						if text[i] == '\\' {
							i++
						}
						i++
					}
					i++
				case ch == '/' && i+1 < len(text) && text[i+1] == '/':
					for i < len(text) && text[i] != '\n' {
						i++
					}
				default:
					i++
				}
				if depth == 0 {
					break
				}
			}
		case c == '\'':
			j := i + 1
			for j < len(text) && text[j] != '\'' {
				if text[j] == '\\' {
					j++
				}
				j++
			}
			cur = append(cur, text[i:j+1])
			i = j + 1
		case c == ':':
			i++
		case c == '|':
			flush()
			i++
		case c == ';':
			flush()
			inRule = false
			i++
		case c == '%':
			// %prec etc.
			for i < len(text) && text[i] != ' ' && text[i] != '\n' {
				i++
			}
			// skip its argument
			for i < len(text) && (text[i] == ' ' || text[i] == '\t') {
				i++
			}
			for i < len(text) && text[i] != ' ' && text[i] != '\n' && text[i] != '{' {
				i++
			}
		default:
			j := i
			for j < len(text) && (text[j] == '_' || text[j] >= '0' && text[j] <= '9' || text[j] >= 'a' && text[j] <= 'z' || text[j] >= 'A' && text[j] <= 'Z') {
				j++
			}
			if j == i {
				return nil, fmt.Errorf("unexpected character %q at line %d", c, line)
			}
			word := text[i:j]
			// is this the start of a new rule (word followed by ':')?
			k := j
			for k < len(text) && (text[k] == ' ' || text[k] == '\t' || text[k] == '\n' || text[k] == '\r') {
				k++
			}
			if k < len(text) && text[k] == ':' {
				flush()
				lhs = word
				inRule = true
			} else {
				cur = append(cur, word)
			}
			i = j
		}
	}
	flush()
	return prods, nil
}

func rrGrammar(w *World) {
	w.rule("RR")
	p := w.pkg("parser")
	if p == nil {
		return
	}
	info := p.TypesInfo
	src, err := readRepoFile(w, "parser/proto.y")
	if err != nil {
		w.undecided("grammar|read", token.NoPos, err.Error())
		return
	}
	prods, err := parseYaccRules(src)
	if err != nil {
		w.undecided("grammar|parse", token.NoPos, "cannot read the rules of proto.y: "+err.Error())
		return
	}
	// the generated parser's action switch
	var actionSwitch *ast.SwitchStmt
	for _, f := range p.Syntax {
		if !strings.HasSuffix(w.Fset.Position(f.Pos()).Filename, "proto.y.go") {
			continue
		}
		ast.Inspect(f, func(x ast.Node) bool {
			sw, ok := x.(*ast.SwitchStmt)
			if ok && sw.Tag != nil && render(sw.Tag) == "protont" && (actionSwitch == nil || len(sw.Body.List) > len(actionSwitch.Body.List)) {
				actionSwitch = sw
			}
			return true
		})
	}
	if actionSwitch == nil {
		w.undecided("grammar|action-switch", token.NoPos, "the `switch protont` of the generated parser was not found in proto.y.go")
		return
	}
	nActions, nChecked, nErrorProds := 0, 0, 0
	var bad []string
	for _, cl := range actionSwitch.Body.List {
		cc := cl.(*ast.CaseClause)
		if len(cc.List) != 1 {
			continue
		}
		tv, ok := info.Types[cc.List[0]]
		if !ok || tv.Value == nil {
			continue
		}
		num, _ := constant.Int64Val(tv.Value)
		nActions++
		// K from protoDollar = protoS[protopt-K : protopt+1]
		k := int64(-1)
		refs := map[int64]bool{}
		ast.Inspect(cc, func(y ast.Node) bool {
			switch e := y.(type) {
			case *ast.AssignStmt:
				if len(e.Lhs) == 1 && render(e.Lhs[0]) == "protoDollar" {
					if se, ok := e.Rhs[0].(*ast.SliceExpr); ok {
						if be, ok := se.Low.(*ast.BinaryExpr); ok && be.Op == token.SUB {
							if ktv, ok := info.Types[be.Y]; ok && ktv.Value != nil {
								k, _ = constant.Int64Val(ktv.Value)
							}
						}
					}
				}
			case *ast.IndexExpr:
				if render(e.X) == "protoDollar" {
					if itv, ok := info.Types[e.Index]; ok && itv.Value != nil {
						v, _ := constant.Int64Val(itv.Value)
						refs[v] = true
					}
				}
			}
			return true
		})
		if num < 1 || int(num) > len(prods) {
			bad = append(bad, fmt.Sprintf("action %d has no production in proto.y", num))
			continue
		}
		pr := prods[num-1]
		key := fmt.Sprintf("production|%d:%s", num, pr.lhs)
		if int64(len(pr.rhs)) != k {
			w.undecided(key, cc.Pos(), fmt.Sprintf("proto.y production %d (%s : %s, line %d) has %d symbols but the compiled action pops %d: proto.y and proto.y.go are out of sync", num, pr.lhs, strings.Join(pr.rhs, " "), pr.line, len(pr.rhs), k))
			continue
		}
		isErr := false
		for _, s := range pr.rhs {
			if s == "error" {
				isErr = true
			}
		}
		if isErr {
			nErrorProds++
			continue
		}
		nChecked++
		var missing []string
		for i := int64(1); i <= k; i++ {
			if !refs[i] {
				missing = append(missing, fmt.Sprintf("$%d (%s)", i, pr.rhs[i-1]))
			}
		}
		if len(missing) > 0 {
			w.violation(key, cc.Pos(), fmt.Sprintf("the action of `%s : %s` (proto.y line %d) never uses %s: that token or sub-tree is not attached to the AST, so printing the AST no longer reproduces the source", pr.lhs, strings.Join(pr.rhs, " "), pr.line, strings.Join(missing, ", ")))
		}
	}
	for _, b := range bad {
		w.undecided("grammar|"+b, actionSwitch.Pos(), b)
	}
	w.floor("compiled grammar actions", nActions, 250)
	w.floor("non-error productions with actions", nChecked, 230)
	w.ok("conservation", actionSwitch.Pos(), fmt.Sprintf("%d productions read from proto.y; %d compiled actions; every one of the %d non-error productions references all of its right-hand-side values (%d error-recovery productions exempt)", len(prods), nActions, nChecked, nErrorProds))
}

// RR2: every exported ast.New*Node constructor stores each Node-typed parameter among the node's
// children (so ast.Walk / token iteration reaches it).
func rr2Constructors(w *World) {
	w.rule("RR2")
	p := w.pkg("ast")
	if p == nil {
		return
	}
	info := p.TypesInfo
	nodeT, _ := p.Types.Scope().Lookup("Node").(*types.TypeName)
	if nodeT == nil {
		w.undecided("anchor:ast.Node", token.NoPos, "ast.Node not found")
		return
	}
	nodeI := nodeT.Type().Underlying().(*types.Interface)
	isNodeish := func(t types.Type) bool {
		if sl, ok := t.(*types.Slice); ok {
			t = sl.Elem()
		}
		if types.Implements(t, nodeI) {
			return true
		}
		if _, ok := t.(*types.Pointer); !ok {
			return types.Implements(types.NewPointer(t), nodeI)
		}
		return false
	}
	n := 0
	var names []string
	decl := map[string]*ast.FuncDecl{}
	for _, b := range allFuncBodies(p) {
		if b.Lit != nil || b.Decl.Recv != nil || !strings.HasPrefix(strings.ToLower(b.Obj.Name()), "new") {
			continue
		}
		// returns a composite node?
		res := b.Obj.Type().(*types.Signature).Results()
		if res.Len() != 1 {
			continue
		}
		rt := res.At(0).Type()
		pt, ok := rt.(*types.Pointer)
		if !ok {
			continue
		}
		st, ok := pt.Elem().Underlying().(*types.Struct)
		if !ok {
			continue
		}
		composite := false
		for i := 0; i < st.NumFields(); i++ {
			if st.Field(i).Embedded() && st.Field(i).Name() == "compositeNode" {
				composite = true
			}
		}
		if !composite {
			continue
		}
		names = append(names, b.Obj.Name())
		decl[b.Obj.Name()] = b.Decl
	}
	sort.Strings(names)
	for _, name := range names {
		fd := decl[name]
		n++
		// delegation: a constructor that only forwards all its parameters to another constructor
		var missing []string
		for _, fl := range fd.Type.Params.List {
			for _, nm := range fl.Names {
				obj := info.Defs[nm]
				if obj == nil || !isNodeish(obj.Type()) {
					continue
				}
				// carriers: the parameter and every local that receives (part of) its value
				carriers := map[types.Object]bool{obj: true}
				mentions := func(e ast.Node) bool {
					found := false
					ast.Inspect(e, func(y ast.Node) bool {
						if id, ok := y.(*ast.Ident); ok && carriers[info.Uses[id]] {
							found = true
						}
						return true
					})
					return found
				}
				for changed := true; changed; {
					changed = false
					ast.Inspect(fd.Body, func(x ast.Node) bool {
						switch e := x.(type) {
						case *ast.AssignStmt:
							for i, l := range e.Lhs {
								id, ok := l.(*ast.Ident)
								if !ok {
									continue
								}
								var rhs ast.Expr
								if len(e.Rhs) == len(e.Lhs) {
									rhs = e.Rhs[i]
								} else if len(e.Rhs) == 1 {
									rhs = e.Rhs[0]
								}
								if rhs == nil || !mentions(rhs) {
									continue
								}
								o := info.Defs[id]
								if o == nil {
									o = info.Uses[id]
								}
								if o != nil && !carriers[o] {
									carriers[o] = true
									changed = true
								}
							}
						case *ast.RangeStmt:
							if mentions(e.X) {
								for _, kv := range []ast.Expr{e.Key, e.Value} {
									if id, ok := kv.(*ast.Ident); ok {
										if o := info.Defs[id]; o != nil && !carriers[o] && kv == e.Value {
											carriers[o] = true
											changed = true
										}
									}
								}
							}
						case *ast.TypeSwitchStmt:
							if as, ok := e.Assign.(*ast.AssignStmt); ok && mentions(as.Rhs[0]) {
								for _, cl := range e.Body.List {
									if o := info.Implicits[cl]; o != nil && !carriers[o] {
										carriers[o] = true
										changed = true
									}
								}
							}
						}
						return true
					})
				}
				stored := false
				ast.Inspect(fd.Body, func(x ast.Node) bool {
					switch e := x.(type) {
					case *ast.CallExpr:
						if isBuiltinCall(info, e, "append") && len(e.Args) >= 2 && strings.Contains(render(e.Args[0]), "children") {
							for _, a := range e.Args[1:] {
								if mentions(a) {
									stored = true
								}
							}
						}
						// forwarding to another constructor of the package (checked on its own)
						if f := callee(info, e); f != nil && f.Pkg() == p.Types && strings.HasPrefix(strings.ToLower(f.Name()), "new") {
							for _, a := range e.Args {
								if mentions(a) {
									stored = true
								}
							}
						}
					case *ast.CompositeLit:
						if tv, ok := info.Types[e]; ok {
							if sl, ok := tv.Type.(*types.Slice); ok && types.Identical(sl.Elem(), nodeT.Type()) {
								for _, el := range e.Elts {
									if mentions(el) {
										stored = true
									}
								}
							}
						}
					case *ast.AssignStmt:
						for i, l := range e.Lhs {
							if ix, ok := l.(*ast.IndexExpr); ok && strings.Contains(render(ix.X), "children") && i < len(e.Rhs) && mentions(e.Rhs[i]) {
								stored = true
							}
						}
					}
					return true
				})
				if !stored {
					missing = append(missing, nm.Name)
				}
			}
		}
		key := "constructor|ast." + name
		if len(missing) == 0 {
			w.ok(key, fd.Pos(), "every Node-typed parameter is placed among the node's children")
		} else {
			w.violation(key, fd.Pos(), "parameter(s) "+strings.Join(missing, ", ")+" of ast."+name+" are not added to the node's children: ast.Walk and token iteration skip them, so the AST does not reproduce the source")
		}
	}
	w.floor("composite-node constructors in package ast", n, 30)
}

// rr3SameBuffer (RR3): the byte buffer whose offsets the lexer records (the rune reader's data)
// is the very buffer ast.NewFileInfo is given; otherwise every recorded token offset is resolved
// against different bytes and the AST no longer reproduces the source.
func rr3SameBuffer(w *World) {
	w.rule("RR3")
	p := w.pkg("parser")
	nl := w.fn("parser", "newLexer")
	if p == nil || nl == nil {
		return
	}
	info := p.TypesInfo
	var readerData, infoData ast.Expr
	ast.Inspect(nl.Decl.Body, func(x ast.Node) bool {
		switch e := x.(type) {
		case *ast.CompositeLit:
			if tv, ok := info.Types[e]; ok && strings.HasSuffix(tv.Type.String(), ".runeReader") {
				for _, el := range e.Elts {
					if kv, ok := el.(*ast.KeyValueExpr); ok && render(kv.Key) == "data" {
						readerData = kv.Value
					}
				}
			}
		case *ast.CallExpr:
			if f := callee(info, e); f != nil && f.Name() == "NewFileInfo" && len(e.Args) == 2 {
				infoData = e.Args[1]
			}
		}
		return true
	})
	switch {
	case readerData == nil || infoData == nil:
		w.undecided("same-buffer", nl.Decl.Pos(), "cannot find both the runeReader{data: …} literal and the ast.NewFileInfo(name, contents) call in newLexer")
	case render(readerData) == render(infoData):
		if _, isIdent := ast.Unparen(readerData).(*ast.Ident); isIdent {
			w.ok("same-buffer", readerData.Pos(), "the rune reader and the FileInfo are built from the same variable "+render(readerData)+": token offsets index the bytes FileInfo holds")
		} else {
			w.undecided("same-buffer", readerData.Pos(), "both use the expression "+render(readerData)+", which is not a plain variable")
		}
	default:
		w.violation("same-buffer", readerData.Pos(), "the lexer reads "+render(readerData)+" but the FileInfo is built over "+render(infoData)+": offsets recorded by the lexer are resolved against a different buffer (e.g. one still carrying the byte-order mark), so token text, positions and trailing trivia are shifted")
	}
}

// rq5NilableGrammarValues (RQ5, C12): error-recovery actions assign nil to the semantic value of
// some nonterminals (`$$ = nil`). In every production that uses such a nonterminal, a pointer- or
// interface-typed value $i may only be dereferenced under a dominating `$i != nil` test.
func rq5NilableGrammarValues(w *World) {
	w.rule("RQ5")
	p := w.pkg("parser")
	if p == nil {
		return
	}
	info := p.TypesInfo
	src, err := readRepoFile(w, "parser/proto.y")
	if err != nil {
		w.undecided("grammar|read", token.NoPos, err.Error())
		return
	}
	prods, err := parseYaccRules(src)
	if err != nil {
		w.undecided("grammar|parse", token.NoPos, err.Error())
		return
	}
	var sw *ast.SwitchStmt
	for _, f := range p.Syntax {
		if !strings.HasSuffix(w.Fset.Position(f.Pos()).Filename, "proto.y.go") {
			continue
		}
		ast.Inspect(f, func(x ast.Node) bool {
			s, ok := x.(*ast.SwitchStmt)
			if ok && s.Tag != nil && render(s.Tag) == "protont" && (sw == nil || len(s.Body.List) > len(sw.Body.List)) {
				sw = s
			}
			return true
		})
	}
	if sw == nil {
		w.undecided("grammar|action-switch", token.NoPos, "action switch not found")
		return
	}
	actions := map[int]*ast.CaseClause{}
	for _, cl := range sw.Body.List {
		cc := cl.(*ast.CaseClause)
		if len(cc.List) != 1 {
			continue
		}
		if tv, ok := info.Types[cc.List[0]]; ok && tv.Value != nil {
			n, _ := constant.Int64Val(tv.Value)
			actions[int(n)] = cc
		}
	}
	isDollar := func(e ast.Expr) (int, string, bool) {
		// protoDollar[i].F
		s, ok := ast.Unparen(e).(*ast.SelectorExpr)
		if !ok {
			return 0, "", false
		}
		ix, ok := ast.Unparen(s.X).(*ast.IndexExpr)
		if !ok || render(ix.X) != "protoDollar" {
			return 0, "", false
		}
		tv, ok := info.Types[ix.Index]
		if !ok || tv.Value == nil {
			return 0, "", false
		}
		i, _ := constant.Int64Val(tv.Value)
		return int(i), s.Sel.Name, true
	}
	// 1+2: nilable nonterminals (fixpoint)
	nilable := map[string]string{} // nonterminal -> reason
	for changed := true; changed; {
		changed = false
		for num, cc := range actions {
			if num < 1 || num > len(prods) {
				continue
			}
			pr := prods[num-1]
			if _, done := nilable[pr.lhs]; done {
				continue
			}
			ast.Inspect(cc, func(x ast.Node) bool {
				as, ok := x.(*ast.AssignStmt)
				if !ok || len(as.Lhs) != 1 || len(as.Rhs) != 1 {
					return true
				}
				ls, ok := ast.Unparen(as.Lhs[0]).(*ast.SelectorExpr)
				if !ok || render(ls.X) != "protoVAL" {
					return true
				}
				if isNilIdent(info, as.Rhs[0]) {
					nilable[pr.lhs] = fmt.Sprintf("production %d (%s : %s) sets $$ = nil", num, pr.lhs, strings.Join(pr.rhs, " "))
					changed = true
				} else if i, _, ok := isDollar(as.Rhs[0]); ok && i >= 1 && i <= len(pr.rhs) {
					if why, isNil := nilable[pr.rhs[i-1]]; isNil {
						// propagated only if not under a nil guard of that value
						nilable[pr.lhs] = "propagates " + pr.rhs[i-1] + " (" + why + ")"
						changed = true
					}
				}
				return true
			})
		}
	}
	w.floor("nonterminals whose value may be nil", len(nilable), 5)
	// 3: guarded dereferences
	nDeref := 0
	var nums []int
	for n := range actions {
		nums = append(nums, n)
	}
	sort.Ints(nums)
	for _, num := range nums {
		cc := actions[num]
		if num < 1 || num > len(prods) {
			continue
		}
		pr := prods[num-1]
		hasNilable := false
		for _, s := range pr.rhs {
			if _, ok := nilable[s]; ok {
				hasNilable = true
			}
		}
		if !hasNilable {
			continue
		}
		body := &ast.BlockStmt{List: cc.Body, Lbrace: cc.Colon, Rbrace: cc.End()}
		g := buildCFG(info, body)
		d := &Dataflow{G: g, Must: true, Init: Facts{}, Transfer: func(n ast.Node, in Facts) Facts { return in }}
		d.Branch = func(leaf ast.Expr, truth bool, s Facts) Facts {
			if be, ok := leaf.(*ast.BinaryExpr); ok && (be.Op == token.NEQ || be.Op == token.EQL) && isNilIdent(info, be.Y) {
				if (be.Op == token.NEQ) == truth {
					return s.with("nonnil:" + types.ExprString(be.X))
				}
			}
			return s
		}
		d.Run()
		d.Walk(func(_ *cfg.Block, n ast.Node, before Facts) {
			parents := parentMap(n)
			inspectPost(n, func(x ast.Node) {
				e, ok := x.(ast.Expr)
				if !ok {
					return
				}
				i, fld, ok := isDollar(e)
				if !ok || i < 1 || i > len(pr.rhs) {
					return
				}
				why, isNil := nilable[pr.rhs[i-1]]
				if !isNil {
					return
				}
				// pointer / interface typed?
				tv, ok := info.Types[e]
				if !ok {
					return
				}
				switch tv.Type.Underlying().(type) {
				case *types.Pointer, *types.Interface:
				default:
					return
				}
				// dereferenced?
				par, ok := parents[x].(*ast.SelectorExpr)
				if !ok || par.X != e {
					return
				}
				nDeref++
				name := types.ExprString(e)
				key := fmt.Sprintf("nilable-value|%d:%s|$%d.%s.%s", num, pr.lhs, i, fld, par.Sel.Name)
				if before["nonnil:"+name] || shortCircuitGuard(info, parents, x, name) {
					w.ok(key, e.Pos(), "dereference of $"+fmt.Sprint(i)+" is under a nil test")
				} else if s := info.Selections[par]; s != nil && s.Kind() == types.MethodVal && methodHandlesNilReceiver(w, s.Obj().(*types.Func)) {
					w.ok(key, e.Pos(), "method tests its receiver for nil")
				} else {
					w.violation(key, e.Pos(), fmt.Sprintf("in the action of `%s : %s` the value $%d (%s) can be nil — %s — but is dereferenced (.%s) without a nil test: some syntactically broken input makes parser.Parse panic", pr.lhs, strings.Join(pr.rhs, " "), i, pr.rhs[i-1], why, par.Sel.Name))
				}
			})
		})
	}
	w.floor("dereferences of possibly-nil grammar values", nDeref, 1)
}
