package main

import (
	"fmt"
	"go/ast"
	"go/token"
	"go/types"
	"sort"
	"strings"
)

// RUD (C32): units discipline of the offset <-> line/column conversions in experimental/source.
//
// A byte offset and a column measured in another unit (runes, UTF-16 code units) are different
// dimensions. `location` and `inverseLocation` switch on the requested length.Unit; inside the
// clause for unit X the column is a quantity in X, offsets (range keys over a string, len, slice
// bounds, LineOffsets results) are quantities in bytes. Adding, subtracting or assigning one to
// the other is a dimension error unless X is Bytes: it treats every character as one byte long,
// so the round trip offset -> (line, column) -> offset fails as soon as a multi-byte character
// (or, at the end of the file, nothing at all) precedes the position. The rule is a small
// dimension checker:
//
//	units:   bytes | runes | utf16 | term | poly (constants) | unknown
//	sources: len(..), key of `range <string>`, slice bounds, LineOffsets/lines → bytes;
//	         utf16.RuneLen → utf16; utf8.RuneLen → bytes; x++/x-- directly inside `range <string>`
//	         → runes; the column quantity (inverseLocation's column parameter, and the variable
//	         flowing into Location.Column) → the clause's unit;
//	checks:  for x = e, x += e, x -= e and a ± b: both sides have the same unit (poly matches all).
//
// Sibling clause coverage is checked as well: both switches have a clause for every length.Unit
// constant (computed from the package).
func rudUnits(w *World) {
	w.rule("RUD")
	const rel = "experimental/source"
	p := w.pkg(rel)
	lp := w.pkg(rel + "/length")
	if p == nil || lp == nil {
		return
	}
	info := p.TypesInfo
	// the Unit constants
	unitNames := map[string]string{} // const name -> unit
	unitType := lp.Types.Scope().Lookup("Unit")
	if unitType == nil {
		w.undecided("units|anchor", token.NoPos, "length.Unit not found")
		return
	}
	var allUnits []string
	for _, n := range lp.Types.Scope().Names() {
		if c, ok := lp.Types.Scope().Lookup(n).(*types.Const); ok && types.Identical(c.Type(), unitType.Type()) {
			allUnits = append(allUnits, n)
			switch n {
			case "Bytes":
				unitNames[n] = "bytes"
			case "Runes":
				unitNames[n] = "runes"
			case "UTF16":
				unitNames[n] = "utf16"
			default:
				unitNames[n] = strings.ToLower(n)
			}
		}
	}
	sort.Strings(allUnits)
	w.floor("length.Unit constants", len(allUnits), 4)

	nChecked, nSwitch := 0, 0
	for _, fname := range []string{"location", "inverseLocation"} {
		fr := w.fn(rel, fname)
		if fr == nil {
			continue
		}
		// column quantity: parameter named by position (inverseLocation: 3rd int parameter "column")
		// or the variable used in the Location literal's Column field.
		colObjs := map[types.Object]bool{}
		ast.Inspect(fr.Decl.Body, func(x ast.Node) bool {
			if kv, ok := x.(*ast.KeyValueExpr); ok && render(kv.Key) == "Column" {
				ast.Inspect(kv.Value, func(y ast.Node) bool {
					if id, ok := y.(*ast.Ident); ok {
						if v, ok := info.Uses[id].(*types.Var); ok {
							colObjs[v] = true
						}
					}
					return true
				})
			}
			return true
		})
		if fname == "inverseLocation" {
			// signature (f *File, line, column int, units length.Unit): the int parameter right before the Unit
			var prev types.Object
			for _, fl := range fr.Decl.Type.Params.List {
				t := info.TypeOf(fl.Type)
				for _, nm := range fl.Names {
					if t != nil && types.Identical(t, unitType.Type()) && prev != nil {
						colObjs[prev] = true
					}
					prev = info.Defs[nm]
				}
			}
		}
		if len(colObjs) == 0 {
			w.undecided("units|"+fname+"|column", fr.Decl.Pos(), "cannot identify the column quantity")
			continue
		}
		// the switch over the unit parameter
		var sw *ast.SwitchStmt
		ast.Inspect(fr.Decl.Body, func(x ast.Node) bool {
			if s, ok := x.(*ast.SwitchStmt); ok && s.Tag != nil && sw == nil {
				if t := info.TypeOf(s.Tag); t != nil && types.Identical(t, unitType.Type()) {
					sw = s
				}
			}
			return true
		})
		if sw == nil {
			w.undecided("units|"+fname+"|switch", fr.Decl.Pos(), "no switch over the length.Unit parameter")
			continue
		}
		nSwitch++
		parents := parentMap(fr.Decl)
		covered := map[string]bool{}
		for _, cl := range sw.Body.List {
			cc := cl.(*ast.CaseClause)
			for _, e := range cc.List {
				name := ""
				switch x := ast.Unparen(e).(type) {
				case *ast.SelectorExpr:
					name = x.Sel.Name
				case *ast.Ident:
					name = x.Name
				}
				u, ok := unitNames[name]
				if !ok {
					continue
				}
				covered[name] = true
				// byte-valued variables of this clause (and the function): range keys over strings
				byteVars := map[types.Object]bool{}
				ast.Inspect(fr.Decl.Body, func(y ast.Node) bool {
					if rs, ok := y.(*ast.RangeStmt); ok && rs.Key != nil {
						if t := info.TypeOf(rs.X); t != nil {
							if bt, ok := t.Underlying().(*types.Basic); ok && bt.Info()&types.IsString != 0 {
								if id, ok := rs.Key.(*ast.Ident); ok && id.Name != "_" {
									o := info.Defs[id]
									if o == nil {
										o = info.Uses[id]
									}
									if o != nil {
										byteVars[o] = true
									}
								}
							}
						}
					}
					return true
				})
				var unitOf func(e ast.Expr) string
				unitOf = func(e ast.Expr) string {
					e = ast.Unparen(e)
					if tv, ok := info.Types[e]; ok && tv.Value != nil {
						return "poly"
					}
					switch x := e.(type) {
					case *ast.Ident:
						o := info.Uses[x]
						if o == nil {
							o = info.Defs[x]
						}
						if colObjs[o] {
							return u
						}
						if byteVars[o] {
							return "bytes"
						}
						return "unknown"
					case *ast.BinaryExpr:
						if x.Op == token.ADD || x.Op == token.SUB {
							a, b := unitOf(x.X), unitOf(x.Y)
							if a == "poly" {
								return b
							}
							if b == "poly" || a == b {
								return a
							}
							return "mixed(" + a + "," + b + ")"
						}
						return "unknown"
					case *ast.CallExpr:
						if isBuiltinCall(info, x, "len") {
							return "bytes"
						}
						if f := callee(info, x); f != nil && f.Pkg() != nil {
							switch {
							case f.Pkg().Path() == "unicode/utf16" && f.Name() == "RuneLen":
								return "utf16"
							case f.Pkg().Path() == "unicode/utf8" && f.Name() == "RuneLen":
								return "bytes"
							case f.Pkg().Path() == "unicode/utf8" && strings.HasPrefix(f.Name(), "RuneCount"):
								return "runes"
							}
						}
						if tv, ok := info.Types[x.Fun]; ok && tv.IsType() && len(x.Args) == 1 {
							return unitOf(x.Args[0])
						}
						return "unknown"
					case *ast.SelectorExpr:
						if x.Sel.Name == "Column" {
							return "unknown" // w.Column of the width writer: terminal columns
						}
					}
					return "unknown"
				}
				check := func(n ast.Node, lhs, rhs ast.Expr, what string) {
					a, b := unitOf(lhs), unitOf(rhs)
					if a == "unknown" || b == "unknown" || a == "poly" || b == "poly" {
						return
					}
					nChecked++
					key := fmt.Sprintf("units|%s|case %s|%s", fname, name, what)
					if a == b {
						w.ok(key, n.Pos(), "both sides are in "+a)
					} else {
						w.violation(key, n.Pos(), fmt.Sprintf("%s combines a quantity in %s with a quantity in %s inside the %s clause: every character is treated as one byte long, so offset -> line/column -> offset does not round-trip when a multi-byte character (or the end of the text) precedes the position", what, a, b, name))
					}
				}
				for _, st := range cc.Body {
					ast.Inspect(st, func(y ast.Node) bool {
						switch s := y.(type) {
						case *ast.AssignStmt:
							if len(s.Lhs) == 1 && len(s.Rhs) == 1 {
								switch s.Tok {
								case token.ASSIGN, token.ADD_ASSIGN, token.SUB_ASSIGN:
									check(s, s.Lhs[0], s.Rhs[0], types.ExprString(s.Lhs[0])+" "+s.Tok.String()+" "+types.ExprString(s.Rhs[0]))
								}
							}
						case *ast.IncDecStmt:
							// a unit step inside `range <string>` counts characters (runes); inside the
							// Bytes clause that would be a dimension error for the column as well
							inRange := false
							for cur := parents[s]; cur != nil && cur != ast.Node(cc); cur = parents[cur] {
								if rs, ok := cur.(*ast.RangeStmt); ok {
									if t := info.TypeOf(rs.X); t != nil {
										if bt, ok := t.Underlying().(*types.Basic); ok && bt.Info()&types.IsString != 0 {
											inRange = true
										}
									}
								}
							}
							if inRange {
								a := unitOf(s.X)
								if a != "unknown" && a != "poly" {
									nChecked++
									key := fmt.Sprintf("units|%s|case %s|%s%s per character", fname, name, types.ExprString(s.X), s.Tok.String())
									if a == "runes" {
										w.ok(key, s.Pos(), "one step per character for a quantity in runes")
									} else {
										w.violation(key, s.Pos(), fmt.Sprintf("%s is stepped once per character but is a quantity in %s", types.ExprString(s.X), a))
									}
								}
							}
						}
						return true
					})
				}
			}
		}
		var missing []string
		for _, un := range allUnits {
			if !covered[un] {
				missing = append(missing, un)
			}
		}
		if len(missing) == 0 {
			w.ok("units|"+fname+"|clauses", sw.Pos(), fmt.Sprintf("the switch has a clause for each of the %d length.Unit constants", len(allUnits)))
		} else {
			w.violation("units|"+fname+"|clauses", sw.Pos(), "the switch has no clause for "+strings.Join(missing, ", ")+": columns in that unit are silently computed as zero")
		}
	}
	w.floor("unit switches in experimental/source", nSwitch, 2)
	w.floor("dimension-checked statements", nChecked, 4)
}
