package main

import (
	"go/ast"
	"go/token"
	"go/types"

	"golang.org/x/tools/go/packages"
)

// selField returns the struct field object a selector expression denotes, if any.
func selField(info *types.Info, e ast.Expr) *types.Var {
	s, ok := ast.Unparen(e).(*ast.SelectorExpr)
	if !ok {
		return nil
	}
	if sel := info.Selections[s]; sel != nil && sel.Kind() == types.FieldVal {
		if v, ok := sel.Obj().(*types.Var); ok {
			return v
		}
	}
	return nil
}

// isRecvFrom reports whether n is a receive expression `<-X.f` where f is the given field and
// returns the rendered base X.
func isRecvFrom(info *types.Info, n ast.Node, f *types.Var) (string, bool) {
	u, ok := n.(*ast.UnaryExpr)
	if !ok || u.Op != token.ARROW {
		return "", false
	}
	if selField(info, u.X) == f {
		return render(ast.Unparen(u.X).(*ast.SelectorExpr).X), true
	}
	return "", false
}

// isMethodCall reports whether call invokes the given method/function object.
func isCallTo(info *types.Info, n ast.Node, f *types.Func) (*ast.CallExpr, bool) {
	c, ok := n.(*ast.CallExpr)
	if !ok || f == nil {
		return nil, false
	}
	if cf := callee(info, c); cf != nil && (cf == f || cf.Origin() == f) {
		return c, true
	}
	return nil, false
}

// recvExpr returns the receiver expression of a method call.
func recvExpr(call *ast.CallExpr) ast.Expr {
	if s, ok := ast.Unparen(call.Fun).(*ast.SelectorExpr); ok {
		return s.X
	}
	return nil
}

func isNilIdent(info *types.Info, e ast.Expr) bool {
	id, ok := ast.Unparen(e).(*ast.Ident)
	if !ok {
		return false
	}
	_, isNil := info.Uses[id].(*types.Nil)
	return isNil
}

// parentMap builds child->parent links for a subtree.
func parentMap(root ast.Node) map[ast.Node]ast.Node {
	m := map[ast.Node]ast.Node{}
	var stack []ast.Node
	ast.Inspect(root, func(n ast.Node) bool {
		if n == nil {
			stack = stack[:len(stack)-1]
			return true
		}
		if len(stack) > 0 {
			m[n] = stack[len(stack)-1]
		}
		stack = append(stack, n)
		return true
	})
	return m
}

// allFuncBodies yields every function body (declarations and literals) of a package with a label.
type bodyRef struct {
	Label string
	Decl  *ast.FuncDecl // enclosing declaration
	Obj   *types.Func
	Body  *ast.BlockStmt
	Lit   *ast.FuncLit // nil for the declaration itself
	Type  *ast.FuncType
}

func allFuncBodies(p *packages.Package) []bodyRef {
	var out []bodyRef
	for _, f := range p.Syntax {
		for _, d := range f.Decls {
			fd, ok := d.(*ast.FuncDecl)
			if !ok || fd.Body == nil {
				continue
			}
			obj, _ := p.TypesInfo.Defs[fd.Name].(*types.Func)
			name := funcName(obj)
			out = append(out, bodyRef{Label: name, Decl: fd, Obj: obj, Body: fd.Body, Type: fd.Type})
			ast.Inspect(fd.Body, func(n ast.Node) bool {
				if fl, ok := n.(*ast.FuncLit); ok {
					out = append(out, bodyRef{Label: name + "$lit", Decl: fd, Obj: obj, Body: fl.Body, Lit: fl, Type: fl.Type})
				}
				return true
			})
		}
	}
	return out
}

// isContextType reports whether t is context.Context.
func isContextType(t types.Type) bool {
	n, ok := t.(*types.Named)
	return ok && n.Obj().Pkg() != nil && n.Obj().Pkg().Path() == "context" && n.Obj().Name() == "Context"
}

// isCtxDoneRecv reports whether e is `<-X.Done()` with X a context.Context.
func isCtxDoneRecv(info *types.Info, e ast.Node) bool {
	u, ok := e.(*ast.UnaryExpr)
	if !ok || u.Op != token.ARROW {
		return false
	}
	c, ok := ast.Unparen(u.X).(*ast.CallExpr)
	if !ok {
		return false
	}
	s, ok := ast.Unparen(c.Fun).(*ast.SelectorExpr)
	if !ok || s.Sel.Name != "Done" {
		return false
	}
	tv, ok := info.Types[s.X]
	return ok && isContextType(tv.Type)
}

// commRecv returns the receive expression of a select comm clause statement (or nil).
func commRecv(comm ast.Stmt) *ast.UnaryExpr {
	var e ast.Expr
	switch s := comm.(type) {
	case *ast.ExprStmt:
		e = s.X
	case *ast.AssignStmt:
		if len(s.Rhs) == 1 {
			e = s.Rhs[0]
		}
	}
	if u, ok := ast.Unparen(e).(*ast.UnaryExpr); ok && u.Op == token.ARROW {
		return u
	}
	return nil
}

// stmtsOf returns the statement list that directly contains stmt, and its index.
func containingList(parents map[ast.Node]ast.Node, stmt ast.Node) ([]ast.Stmt, int) {
	p := parents[stmt]
	var list []ast.Stmt
	switch b := p.(type) {
	case *ast.BlockStmt:
		list = b.List
	case *ast.CaseClause:
		list = b.Body
	case *ast.CommClause:
		list = b.Body
	}
	for i, s := range list {
		if s == stmt {
			return list, i
		}
	}
	return nil, -1
}

// closureBodies returns the body of fn followed by the bodies of the functions of the same package
// that it calls statically, transitively up to the given depth (helpers extracted from fn).
func closureBodies(w *World, p *packages.Package, fn *types.Func, depth int) []*ast.BlockStmt {
	var out []*ast.BlockStmt
	seen := map[*types.Func]bool{}
	var visit func(f *types.Func, d int)
	visit = func(f *types.Func, d int) {
		f = f.Origin()
		if seen[f] {
			return
		}
		seen[f] = true
		decl := w.decls[f]
		if decl == nil || decl.Body == nil {
			return
		}
		out = append(out, decl.Body)
		if d >= depth {
			return
		}
		ast.Inspect(decl.Body, func(x ast.Node) bool {
			if c, ok := x.(*ast.CallExpr); ok {
				if cf := callee(p.TypesInfo, c); cf != nil && cf.Pkg() == p.Types {
					visit(cf, d+1)
				}
			}
			return true
		})
	}
	visit(fn, 0)
	return out
}
