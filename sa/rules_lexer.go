package main

import (
	"fmt"
	"go/ast"
	"go/constant"
	"go/token"
	"go/types"
	"strings"

	"golang.org/x/tools/go/cfg"
	"golang.org/x/tools/go/packages"
)

// ---- RQ: newline accounting in parser/lexer.go (C12, C13) --------------------------------------
//
// For every call of (*runeReader).readRune in a protoLex method, with v the rune it returned:
// assume v == '\n' and follow every path that is feasible under that assumption (branch
// conditions that mention only v, constants and strings.ContainsRune(lit, v) are evaluated; all
// others are explored both ways). Before the next readRune or the function's exit the path must
// pass l.maybeNewLine(v), or un-read the rune (unreadRune with the size returned by the same read),
// or be the err != nil path of that read. Otherwise a newline is consumed without reaching the
// line table, and every later position is reported on the wrong line.

type tri int

const (
	triUnknown tri = iota
	triTrue
	triFalse
)

func triOf(b bool) tri {
	if b {
		return triTrue
	}
	return triFalse
}

func rqNewlines(w *World) {
	w.rule("RQ")
	p := w.pkg("parser")
	readRune := w.fn("parser", "(*runeReader).readRune")
	unread := w.fn("parser", "(*runeReader).unreadRune")
	mnl := w.fn("parser", "(*protoLex).maybeNewLine")
	if p == nil || readRune == nil || unread == nil || mnl == nil {
		return
	}
	info := p.TypesInfo
	nSites := 0
	for _, b := range allFuncBodies(p) {
		if b.Lit != nil || !strings.HasSuffix(w.Fset.Position(b.Decl.Pos()).Filename, "lexer.go") || b.Obj == readRune.Obj {
			continue
		}
		hasRead := false
		ast.Inspect(b.Body, func(x ast.Node) bool {
			if _, ok := isCallTo(info, x, readRune.Obj); ok {
				hasRead = true
			}
			return true
		})
		if !hasRead {
			continue
		}
		w.FuncsSeen[b.Label] = true
		g := buildCFG(info, b.Body)
		parents := parentMap(b.Body)
		ord := 0
		for _, blk := range g.Blocks {
			if !blk.Live {
				continue
			}
			for i, n := range blk.Nodes {
				as, ok := n.(*ast.AssignStmt)
				if !ok || len(as.Rhs) != 1 || len(as.Lhs) != 3 {
					continue
				}
				if _, ok := isCallTo(info, ast.Unparen(as.Rhs[0]), readRune.Obj); !ok {
					continue
				}
				nSites++
				ord++
				v, sz, errV := render(as.Lhs[0]), render(as.Lhs[1]), render(as.Lhs[2])
				key := fmt.Sprintf("%s|read#%d:%s", b.Label, ord, v)
				ex := &nlExplorer{w: w, info: info, g: g, parents: parents, v: v, sz: sz, err: errV,
					readRune: readRune.Obj, unread: unread.Obj, mnl: mnl.Obj}
				bad := ex.explore(blk, i+1, map[*cfg.Block]int{}, nil)
				if bad == nil {
					w.ok(key, as.Pos(), fmt.Sprintf("if %s is a newline, every feasible path passes maybeNewLine(%s) or un-reads it before the next read or return (%d path steps explored)", v, v, ex.steps))
				} else {
					if strings.HasPrefix(bad.end, "twice:") {
						w.violation(key, as.Pos(), fmt.Sprintf("a newline returned by this readRune is registered twice: path %s reaches %s; the rune is handed to maybeNewLine again when it is re-read, FileInfo.AddLine receives the same offset twice (it panics) or the line table gains a line that does not exist", strings.Join(bad.trace, " → "), strings.TrimPrefix(bad.end, "twice:")), bad.trace...)
						continue
					}
					w.violation(key, as.Pos(), fmt.Sprintf("a newline returned by this readRune can be consumed without being registered: path %s reaches %s with neither l.maybeNewLine(%s) nor unreadRune(%s); the line table misses the line break and all later positions are reported on an earlier line", strings.Join(bad.trace, " → "), bad.end, v, sz), bad.trace...)
				}
			}
		}
	}
	w.floor("readRune call sites in protoLex methods", nSites, 16)
}

type nlBad struct {
	trace []string
	end   string
}

type nlExplorer struct {
	w        *World
	info     *types.Info
	g        *cfg.CFG
	parents  map[ast.Node]ast.Node
	v, sz    string
	err      string
	readRune *types.Func
	unread   *types.Func
	mnl      *types.Func
	steps    int
}

// eval evaluates e under the assumption v == '\n'.
func (ex *nlExplorer) eval(e ast.Expr) tri {
	e = ast.Unparen(e)
	switch x := e.(type) {
	case *ast.BinaryExpr:
		switch x.Op {
		case token.LAND:
			a, b := ex.eval(x.X), ex.eval(x.Y)
			if a == triFalse || b == triFalse {
				return triFalse
			}
			if a == triTrue && b == triTrue {
				return triTrue
			}
			return triUnknown
		case token.LOR:
			a, b := ex.eval(x.X), ex.eval(x.Y)
			if a == triTrue || b == triTrue {
				return triTrue
			}
			if a == triFalse && b == triFalse {
				return triFalse
			}
			return triUnknown
		}
		l, ok1 := ex.num(x.X)
		r, ok2 := ex.num(x.Y)
		if ok1 && ok2 {
			if v, ok := cmpInt(x.Op, l, r); ok {
				return triOf(v)
			}
		}
	case *ast.UnaryExpr:
		if x.Op == token.NOT {
			switch ex.eval(x.X) {
			case triTrue:
				return triFalse
			case triFalse:
				return triTrue
			}
		}
	case *ast.CallExpr:
		if f := callee(ex.info, x); f != nil && f.Pkg() != nil && f.Pkg().Path() == "strings" && f.Name() == "ContainsRune" && len(x.Args) == 2 {
			if render(x.Args[1]) == ex.v {
				if tv, ok := ex.info.Types[x.Args[0]]; ok && tv.Value != nil && tv.Value.Kind() == constant.String {
					return triOf(strings.ContainsRune(constant.StringVal(tv.Value), '\n'))
				}
			}
		}
		// a small predicate of the module on the rune itself (isHexDigit(c2), …) is inlined
		if len(x.Args) == 1 && render(x.Args[0]) == ex.v {
			if _, isIdent := ast.Unparen(x.Args[0]).(*ast.Ident); isIdent {
				return evalWithStrings(ex.info, x, ex.v, '\n')
			}
		}
	}
	return triUnknown
}

func (ex *nlExplorer) num(e ast.Expr) (int64, bool) {
	e = ast.Unparen(e)
	if render(e) == ex.v {
		if _, isIdent := e.(*ast.Ident); isIdent {
			return '\n', true
		}
	}
	if tv, ok := ex.info.Types[e]; ok && tv.Value != nil {
		if v, ok := constant.Int64Val(constant.ToInt(tv.Value)); ok {
			return v, true
		}
	}
	return 0, false
}

// errNonNil: is cond (with the given truth) the "this read failed" test?
func (ex *nlExplorer) errBranch(cond ast.Expr, truth bool) bool {
	be, ok := ast.Unparen(cond).(*ast.BinaryExpr)
	if !ok || render(be.X) != ex.err {
		return false
	}
	if be.Op == token.NEQ && isNilIdent(ex.info, be.Y) && truth {
		return true
	}
	if be.Op == token.EQL && !isNilIdent(ex.info, be.Y) && truth { // err == io.EOF
		return true
	}
	return false
}

func (ex *nlExplorer) explore(b *cfg.Block, idx int, onPath map[*cfg.Block]int, trace []string) *nlBad {
	return ex.exploreReg(b, idx, onPath, trace, false)
}

// exploreReg: reg says that maybeNewLine(v) has already been passed on this path. From then on the
// exploration continues until the rune's variables are overwritten by the next read (or the
// function returns): pushing the rune back, or registering it again, makes the reader hand the
// same line break to maybeNewLine twice — FileInfo.AddLine then sees the same offset twice.
func (ex *nlExplorer) exploreReg(b *cfg.Block, idx int, onPath map[*cfg.Block]int, trace []string, reg bool) *nlBad {
	ex.steps++
	if ex.steps > 200000 {
		return &nlBad{trace: trace, end: "exploration bound"}
	}
	if onPath[b] > 1 {
		return nil // looped without a new read: nothing more is consumed on this cycle
	}
	onPath[b]++
	defer func() { onPath[b]-- }()
	for i := idx; i < len(b.Nodes); i++ {
		n := b.Nodes[i]
		discharged, violated := false, ""
		inspectPost(n, func(x ast.Node) {
			c, ok := x.(*ast.CallExpr)
			if !ok || discharged || violated != "" {
				return
			}
			f := callee(ex.info, c)
			switch {
			case f == ex.mnl && len(c.Args) == 1 && render(c.Args[0]) == ex.v:
				if reg {
					violated = "twice:a second maybeNewLine(" + ex.v + ") at " + ex.w.pos(c.Pos())
				}
				reg = true
			case f == ex.unread && len(c.Args) == 1 && render(c.Args[0]) == ex.sz && ex.sz != "_":
				if reg {
					violated = "twice:unreadRune(" + ex.sz + ") at " + ex.w.pos(c.Pos()) + " after the rune was registered"
				}
				discharged = true
			case f == ex.readRune:
				if !reg {
					violated = "the next readRune at " + ex.w.pos(c.Pos())
				}
			}
		})
		if violated != "" {
			return &nlBad{trace: trace, end: violated}
		}
		if discharged {
			return nil
		}
		if as, ok := n.(*ast.AssignStmt); ok {
			for _, l := range as.Lhs {
				if render(l) == ex.v || (render(l) == ex.sz && ex.sz != "_") {
					if reg {
						return nil // the variables now belong to the next read
					}
					return &nlBad{trace: trace, end: "a re-assignment of " + ex.v + " at " + ex.w.pos(as.Pos())}
				}
			}
		}
		if r, ok := n.(*ast.ReturnStmt); ok {
			if reg {
				return nil
			}
			return &nlBad{trace: trace, end: "the return at " + ex.w.pos(r.Pos())}
		}
	}
	if len(b.Succs) == 0 {
		if reg {
			return nil
		}
		return &nlBad{trace: trace, end: "the end of the function"}
	}
	// conditional?
	if len(b.Succs) == 2 && len(b.Nodes) > 0 {
		if cond, ok := b.Nodes[len(b.Nodes)-1].(ast.Expr); ok {
			t := triUnknown
			isCase := false
			if cc, ok := ex.parents[cond].(*ast.CaseClause); ok {
				for _, ce := range cc.List {
					if ce == cond {
						isCase = true
					}
				}
				if isCase {
					// tag switch: (tag == cond)
					if blk, ok := ex.parents[cc].(*ast.BlockStmt); ok {
						if sw, ok := ex.parents[blk].(*ast.SwitchStmt); ok && sw.Tag != nil {
							l, ok1 := ex.num(sw.Tag)
							r, ok2 := ex.num(cond)
							if ok1 && ok2 {
								t = triOf(l == r)
							}
						} else if ok && sw.Tag == nil {
							t = ex.eval(cond)
						}
					}
				}
			}
			if !isCase {
				t = ex.eval(cond)
			}
			for i, s := range b.Succs {
				truth := i == 0
				if (t == triTrue && !truth) || (t == triFalse && truth) {
					continue
				}
				if !isCase && ex.errBranch(cond, truth) {
					continue // the read failed: no rune was consumed
				}
				step := fmt.Sprintf("%s is %v (%s)", types.ExprString(cond), truth, ex.w.pos(cond.Pos()))
				if bad := ex.exploreReg(s, 0, onPath, append(append([]string{}, trace...), step), reg); bad != nil {
					return bad
				}
			}
			return nil
		}
	}
	for _, s := range b.Succs {
		if bad := ex.exploreReg(s, 0, onPath, trace, reg); bad != nil {
			return bad
		}
	}
	return nil
}

// ---- C12 shape facts on parser.Parse ----------------------------------------------------------------

func rqParseShape(w *World) {
	w.rule("RQ2")
	p := w.pkg("parser")
	parse := w.fn("parser", "Parse")
	if p == nil || parse == nil {
		return
	}
	info := p.TypesInfo
	g := buildCFG(info, parse.Decl.Body)
	d := &Dataflow{G: g, Must: true, Init: Facts{}}
	d.Transfer = func(n ast.Node, in Facts) Facts {
		if as, ok := n.(*ast.AssignStmt); ok && len(as.Lhs) == 1 && len(as.Rhs) == 1 {
			if c, ok := ast.Unparen(as.Rhs[0]).(*ast.CallExpr); ok {
				if f := callee(info, c); f != nil && strings.HasPrefix(f.Name(), "New") {
					return in.with("nonnil:" + render(as.Lhs[0]))
				}
			}
			return in.without("nonnil:" + render(as.Lhs[0]))
		}
		return in
	}
	d.Branch = func(leaf ast.Expr, truth bool, s Facts) Facts {
		if be, ok := leaf.(*ast.BinaryExpr); ok && isNilIdent(info, be.Y) {
			if (be.Op == token.EQL && !truth) || (be.Op == token.NEQ && truth) {
				return s.with("nonnil:" + render(be.X))
			}
		}
		return s
	}
	d.Run()
	n := 0
	d.Walk(func(_ *cfg.Block, nd ast.Node, before Facts) {
		r, ok := nd.(*ast.ReturnStmt)
		if !ok || len(r.Results) != 2 {
			return
		}
		if isNilIdent(info, r.Results[0]) {
			// only the reader-failure path (newLexer error) may return a nil AST
			if render(r.Results[1]) == "err" {
				w.ok("Parse|nil-ast-only-on-reader-error", r.Pos(), "a nil AST is returned only together with the reader's error")
			} else {
				w.violation("Parse|nil-ast-only-on-reader-error", r.Pos(), "Parse returns a nil AST on a path that is not the reader-error path")
			}
			return
		}
		n++
		if before["nonnil:"+render(r.Results[0])] {
			w.ok("Parse|non-nil-ast", r.Pos(), "the returned AST is non-nil on every path (nil-check fallback dominates the return)")
		} else {
			w.violation("Parse|non-nil-ast", r.Pos(), "Parse can return a nil AST: the nil-check fallback does not dominate this return")
		}
		okErr := false
		if c, ok := ast.Unparen(r.Results[1]).(*ast.CallExpr); ok && isFunc(callee(info, c), modPath+"/reporter", "Handler", "Error") {
			okErr = true
		}
		if okErr {
			w.ok("Parse|error-is-handler-verdict", r.Pos(), "the returned error is exactly handler.Error(): an error is returned iff one was reported")
		} else {
			w.violation("Parse|error-is-handler-verdict", r.Pos(), "Parse's error result is not handler.Error()")
		}
	})
	w.floor("AST-carrying returns of parser.Parse", n, 1)
}

// ---- RQ4: nil-field discipline of the lenient AST (C12) -------------------------------------------
//
// The grammar's error-tolerant actions build AST nodes with missing parts: they pass a literal nil
// for some constructor parameters. Every struct field initialised from such a parameter is
// "nilable". The AST→descriptor conversion (parser/result.go, parser/validate.go) runs on whatever
// Parse returned, so each dereference of a nilable field there (method call on it, field of it)
// must be dominated by a nil test of that field; otherwise some syntactically broken input makes
// ResultFromAST panic.
func rq4NilableFields(w *World) {
	w.rule("RQ4")
	pp := w.pkg("parser")
	ap := w.pkg("ast")
	if pp == nil || ap == nil {
		return
	}
	// 1. constructor parameter -> fields
	type ctor struct {
		fields map[int][]*types.Var
	}
	ctors := map[*types.Func]*ctor{}
	for _, b := range allFuncBodies(ap) {
		if b.Lit != nil || b.Decl.Recv != nil || !strings.HasPrefix(b.Obj.Name(), "New") {
			continue
		}
		params := map[types.Object]int{}
		i := 0
		for _, fl := range b.Decl.Type.Params.List {
			for _, nm := range fl.Names {
				params[ap.TypesInfo.Defs[nm]] = i
				i++
			}
		}
		c := &ctor{fields: map[int][]*types.Var{}}
		ast.Inspect(b.Body, func(x ast.Node) bool {
			cl, ok := x.(*ast.CompositeLit)
			if !ok {
				return true
			}
			tv, ok := ap.TypesInfo.Types[cl]
			if !ok {
				return true
			}
			st, ok := tv.Type.Underlying().(*types.Struct)
			if !ok {
				return true
			}
			for _, el := range cl.Elts {
				kv, ok := el.(*ast.KeyValueExpr)
				if !ok {
					continue
				}
				id, ok := ast.Unparen(kv.Value).(*ast.Ident)
				if !ok {
					continue
				}
				pi, isParam := params[ap.TypesInfo.Uses[id]]
				if !isParam {
					continue
				}
				for j := 0; j < st.NumFields(); j++ {
					if st.Field(j).Name() == render(kv.Key) {
						c.fields[pi] = append(c.fields[pi], st.Field(j))
					}
				}
			}
			return true
		})
		if len(c.fields) > 0 {
			ctors[b.Obj] = c
		}
	}
	// 2. nil arguments in the compiled grammar actions
	nilable := map[*types.Var]token.Pos{}
	nCalls := 0
	for _, f := range pp.Syntax {
		if !strings.HasSuffix(w.Fset.Position(f.Pos()).Filename, "proto.y.go") && !strings.HasSuffix(w.Fset.Position(f.Pos()).Filename, "/ast.go") {
			continue
		}
		ast.Inspect(f, func(x ast.Node) bool {
			c, ok := x.(*ast.CallExpr)
			if !ok {
				return true
			}
			fn := callee(pp.TypesInfo, c)
			ct := ctors[fn]
			if ct == nil {
				return true
			}
			nCalls++
			for i, a := range c.Args {
				if isNilIdent(pp.TypesInfo, a) {
					for _, fld := range ct.fields[i] {
						if _, seen := nilable[fld]; !seen {
							nilable[fld] = a.Pos()
						}
					}
				}
			}
			return true
		})
	}
	w.floor("AST constructor calls in the grammar actions", nCalls, 100)
	w.floor("AST fields the lenient grammar may leave nil", len(nilable), 10)

	// 3. dereferences in the AST→descriptor conversion
	info := pp.TypesInfo
	nDeref, nBad := 0, 0
	for _, b := range allFuncBodies(pp) {
		fname := w.Fset.Position(b.Decl.Pos()).Filename
		if b.Lit != nil || !(strings.HasSuffix(fname, "/result.go") || strings.HasSuffix(fname, "/validate.go")) {
			continue
		}
		w.FuncsSeen[b.Label] = true
		g := buildCFG(info, b.Body)
		d := &Dataflow{G: g, Must: true, Init: Facts{}}
		d.Transfer = func(n ast.Node, in Facts) Facts {
			out := in
			if as, ok := n.(*ast.AssignStmt); ok {
				for _, l := range as.Lhs {
					r := render(l)
					for k := range out {
						if strings.HasPrefix(k, "nonnil:"+r+".") || k == "nonnil:"+r {
							out = out.without(k)
						}
					}
				}
			}
			return out
		}
		d.Branch = func(leaf ast.Expr, truth bool, s Facts) Facts {
			if be, ok := leaf.(*ast.BinaryExpr); ok && (be.Op == token.NEQ || be.Op == token.EQL) && isNilIdent(info, be.Y) {
				if (be.Op == token.NEQ) == truth {
					return s.with("nonnil:" + render(be.X))
				}
			}
			return s
		}
		d.Run()
		d.Walk(func(_ *cfg.Block, n ast.Node, before Facts) {
			parents := parentMap(n)
			inspectPost(n, func(x ast.Node) {
				sel, ok := x.(*ast.SelectorExpr)
				if !ok {
					return
				}
				fld := selField(info, sel)
				if fld == nil {
					return
				}
				if _, isNilable := nilable[fld]; !isNilable {
					return
				}
				// is the field value dereferenced? (base of another selector that is a method call or field)
				par, ok := parents[sel].(*ast.SelectorExpr)
				if !ok || par.X != ast.Expr(sel) {
					return
				}
				// nil-safe accessors of package ast (methods that test the receiver) are fine: only pointer receivers can be; be conservative and require a guard
				nDeref++
				key := fmt.Sprintf("nilable-deref|%s|%s.%s", b.Label, render(sel), par.Sel.Name)
				if before["nonnil:"+render(sel)] || shortCircuitGuard(info, parents, sel, render(sel)) {
					w.ok(key, sel.Pos(), "dominated by a nil test of "+render(sel))
					return
				}
				// a method with a pointer receiver that itself handles nil is acceptable
				if s := info.Selections[par]; s != nil && s.Kind() == types.MethodVal {
					if m, ok := s.Obj().(*types.Func); ok && methodHandlesNilReceiver(w, m) {
						w.ok(key, sel.Pos(), "method "+m.Name()+" tests its receiver for nil")
						return
					}
				}
				nBad++
				w.violation(key, sel.Pos(), fmt.Sprintf("%s can be nil for syntactically broken input (the grammar passes nil for it at %s) but is dereferenced here without a dominating nil test: converting the AST of such a file to a descriptor panics", render(sel), w.pos(nilable[fld])))
			})
		})
	}
	w.floor("dereferences of nilable AST fields in the conversion", nDeref, 5)
	_ = nBad
}

// methodHandlesNilReceiver: the method's first statement tests the receiver against nil.
func methodHandlesNilReceiver(w *World, m *types.Func) bool {
	fd := w.decls[m]
	if fd == nil || fd.Recv == nil || len(fd.Recv.List) != 1 || len(fd.Recv.List[0].Names) != 1 || fd.Body == nil || len(fd.Body.List) == 0 {
		return false
	}
	rn := fd.Recv.List[0].Names[0].Name
	if ifs, ok := fd.Body.List[0].(*ast.IfStmt); ok {
		if be, ok := ifs.Cond.(*ast.BinaryExpr); ok && render(be.X) == rn && render(be.Y) == "nil" {
			return true
		}
	}
	return false
}

// shortCircuitGuard: is e evaluated only if `key != nil` held, by && / || short-circuiting inside
// the same expression?
func shortCircuitGuard(info *types.Info, parents map[ast.Node]ast.Node, e ast.Node, key string) bool {
	var hasLeaf func(x ast.Expr, op token.Token, conj token.Token) bool
	hasLeaf = func(x ast.Expr, op token.Token, conj token.Token) bool {
		x = ast.Unparen(x)
		if be, ok := x.(*ast.BinaryExpr); ok {
			if be.Op == conj {
				return hasLeaf(be.X, op, conj) || hasLeaf(be.Y, op, conj)
			}
			if be.Op == op && isNilIdent(info, be.Y) && render(be.X) == key {
				return true
			}
		}
		return false
	}
	child := e
	for p := parents[e]; p != nil; p = parents[p] {
		if be, ok := p.(*ast.BinaryExpr); ok && ast.Node(be.Y) == child {
			if be.Op == token.LAND && hasLeaf(be.X, token.NEQ, token.LAND) {
				return true
			}
			if be.Op == token.LOR && hasLeaf(be.X, token.EQL, token.LOR) {
				return true
			}
		}
		child = p
	}
	return false
}

// ---- RQ3: byte distances come from the reader, not from re-encoded text (C12) -----------------------
//
// Positions are computed as reader offset ± distance. A distance obtained as len(s) of a string
// that was rebuilt from runes (string(r), string([]rune{…})) is the length of the *re-encoding*:
// an invalid UTF-8 byte is consumed as 1 byte but re-encodes as the 3-byte U+FFFD, so the
// computed offset can precede the start of the file (index out of range) or name a wrong column.
// Rule: the offset argument of (*protoLex).errWithCurrentPos and the argument of
// (*FileInfo).SourcePos contain no len(<non-constant string>).
func rq3ByteDistances(w *World) {
	w.rule("RQ3")
	p := w.pkg("parser")
	ewp := w.fn("parser", "(*protoLex).errWithCurrentPos")
	if p == nil || ewp == nil {
		return
	}
	info := p.TypesInfo
	n := 0
	for _, b := range allFuncBodies(p) {
		if b.Lit != nil || !strings.HasSuffix(w.Fset.Position(b.Decl.Pos()).Filename, "lexer.go") {
			continue
		}
		ast.Inspect(b.Body, func(x ast.Node) bool {
			c, ok := x.(*ast.CallExpr)
			if !ok {
				return true
			}
			f := callee(info, c)
			var arg ast.Expr
			switch {
			case f == ewp.Obj && len(c.Args) == 2:
				arg = c.Args[1]
			case f != nil && f.Name() == "SourcePos" && len(c.Args) == 1:
				arg = c.Args[0]
			default:
				return true
			}
			n++
			key := "distance|" + b.Label + "|" + types.ExprString(arg)
			bad := ""
			ast.Inspect(arg, func(y ast.Node) bool {
				if lc, ok := y.(*ast.CallExpr); ok && isBuiltinCall(info, lc, "len") && len(lc.Args) == 1 {
					if tv, ok := info.Types[lc.Args[0]]; ok && tv.Value == nil {
						if bt, ok := tv.Type.Underlying().(*types.Basic); ok && bt.Info()&types.IsString != 0 {
							bad = types.ExprString(lc)
						}
					}
				}
				return true
			})
			if bad == "" {
				w.ok(key, c.Pos(), "the position is computed from reader offsets / constants only")
			} else {
				w.violation(key, c.Pos(), "the position is computed with "+bad+", the length of text re-encoded from runes: for an invalid UTF-8 byte (1 byte consumed, 3 bytes when re-encoded as U+FFFD) the offset is wrong and can become negative, making FileInfo.SourcePos index out of range — Parse panics instead of reporting the error")
			}
			return true
		})
	}
	w.floor("position computations in parser/lexer.go", n, 2)
}

// rq6TypedNilAccessors (RQ6, C12): an accessor in package ast that returns a nilable pointer
// field through an interface-typed result must test the field first; otherwise the caller gets a
// non-nil interface holding a nil pointer and its next method call panics.
func rq6TypedNilAccessors(w *World) {
	w.rule("RQ6")
	pp := w.pkg("parser")
	ap := w.pkg("ast")
	if pp == nil || ap == nil {
		return
	}
	nilable := nilableASTFields(w, pp, ap)
	info := ap.TypesInfo
	n := 0
	for _, b := range allFuncBodies(ap) {
		if b.Lit != nil || b.Decl.Recv == nil {
			continue
		}
		res := b.Obj.Type().(*types.Signature).Results()
		if res.Len() != 1 {
			continue
		}
		if _, isIface := res.At(0).Type().Underlying().(*types.Interface); !isIface {
			continue
		}
		g := buildCFG(info, b.Body)
		d := &Dataflow{G: g, Must: true, Init: Facts{}, Transfer: func(n ast.Node, in Facts) Facts { return in }}
		d.Branch = func(leaf ast.Expr, truth bool, s Facts) Facts {
			if be, ok := leaf.(*ast.BinaryExpr); ok && (be.Op == token.NEQ || be.Op == token.EQL) && isNilIdent(info, be.Y) {
				if (be.Op == token.NEQ) == truth {
					return s.with("nonnil:" + render(be.X))
				}
			}
			return s
		}
		d.Run()
		d.Walk(func(_ *cfg.Block, nd ast.Node, before Facts) {
			r, ok := nd.(*ast.ReturnStmt)
			if !ok || len(r.Results) != 1 {
				return
			}
			fld := selField(info, r.Results[0])
			if fld == nil {
				return
			}
			if _, isPtr := fld.Type().Underlying().(*types.Pointer); !isPtr {
				return
			}
			if _, isNilable := nilable[fld]; !isNilable {
				return
			}
			n++
			key := "typed-nil|" + b.Label + "|" + render(r.Results[0])
			if before["nonnil:"+render(r.Results[0])] {
				w.ok(key, r.Pos(), "the nilable pointer field is returned as an interface only after a nil test")
			} else {
				w.violation(key, r.Pos(), fmt.Sprintf("%s returns %s, a pointer field the error-tolerant grammar may leave nil, as the interface %s without testing it: callers receive a non-nil interface wrapping a nil pointer and panic on the next method call (e.g. when reporting a position)", b.Label, render(r.Results[0]), res.At(0).Type().String()))
			}
		})
	}
	w.floor("interface-returning accessors of nilable AST pointer fields", n, 1)
}

// nilableASTFields: AST struct fields initialised from constructor parameters that receive a literal
// nil somewhere in the compiled grammar actions.
func nilableASTFields(w *World, pp, ap *packages.Package) map[*types.Var]token.Pos {
	type ctor struct{ fields map[int][]*types.Var }
	ctors := map[*types.Func]*ctor{}
	for _, b := range allFuncBodies(ap) {
		if b.Lit != nil || b.Decl.Recv != nil || !strings.HasPrefix(b.Obj.Name(), "New") {
			continue
		}
		params := map[types.Object]int{}
		i := 0
		for _, fl := range b.Decl.Type.Params.List {
			for _, nm := range fl.Names {
				params[ap.TypesInfo.Defs[nm]] = i
				i++
			}
		}
		c := &ctor{fields: map[int][]*types.Var{}}
		ast.Inspect(b.Body, func(x ast.Node) bool {
			cl, ok := x.(*ast.CompositeLit)
			if !ok {
				return true
			}
			tv, ok := ap.TypesInfo.Types[cl]
			if !ok {
				return true
			}
			st, ok := tv.Type.Underlying().(*types.Struct)
			if !ok {
				return true
			}
			for _, el := range cl.Elts {
				kv, ok := el.(*ast.KeyValueExpr)
				if !ok {
					continue
				}
				id, ok := ast.Unparen(kv.Value).(*ast.Ident)
				if !ok {
					continue
				}
				if pi, isParam := params[ap.TypesInfo.Uses[id]]; isParam {
					for j := 0; j < st.NumFields(); j++ {
						if st.Field(j).Name() == render(kv.Key) {
							c.fields[pi] = append(c.fields[pi], st.Field(j))
						}
					}
				}
			}
			return true
		})
		if len(c.fields) > 0 {
			ctors[b.Obj] = c
		}
	}
	nilable := map[*types.Var]token.Pos{}
	for _, f := range pp.Syntax {
		fn := w.Fset.Position(f.Pos()).Filename
		if !strings.HasSuffix(fn, "proto.y.go") && !strings.HasSuffix(fn, "/ast.go") {
			continue
		}
		ast.Inspect(f, func(x ast.Node) bool {
			c, ok := x.(*ast.CallExpr)
			if !ok {
				return true
			}
			ct := ctors[callee(pp.TypesInfo, c)]
			if ct == nil {
				return true
			}
			for i, a := range c.Args {
				if isNilIdent(pp.TypesInfo, a) {
					for _, fld := range ct.fields[i] {
						if _, seen := nilable[fld]; !seen {
							nilable[fld] = a.Pos()
						}
					}
				}
			}
			return true
		})
	}
	return nilable
}
