package main

import (
	"fmt"
	"go/ast"
	"go/token"
	"go/types"
	"sort"
	"strings"

	"golang.org/x/tools/go/cfg"
)

// R17 check-before-commit for (*Symbols).Import (C17): over the call tree of Import (the recursion
// into dependencies excluded), no operation that commits to the shared table may be followed, on any
// path, by an operation that can still fail with a collision: the failure would leave the earlier
// commit behind.
//
// Effects are computed, not listed: a function *commits* if it (transitively, within
// linker/symbols.go) performs a keyed write to a guarded map; it is *fallible* if it returns an
// error and (transitively) reaches reporter.Handler.HandleError*/Error. A function literal passed
// to walk.Descriptors is executed once per element: its effects are those of a loop body.
func r17Import(w *World) {
	w.rule("R17")
	p := w.pkg("linker")
	imp := w.fn("linker", "(*Symbols).Import")
	if p == nil || imp == nil {
		return
	}
	info := p.TypesInfo
	guarded := map[*types.Var]bool{}
	for _, f := range []string{"children", "files", "symbols", "exts"} {
		if v := w.field("linker", "packageSymbols", f); v != nil {
			guarded[v] = true
		}
	}
	// functions of symbols.go
	decls := map[*types.Func]*ast.FuncDecl{}
	for _, b := range allFuncBodies(p) {
		if b.Lit == nil && strings.HasSuffix(w.Fset.Position(b.Decl.Pos()).Filename, "symbols.go") {
			decls[b.Obj] = b.Decl
		}
	}
	type eff struct{ commit, fallible bool }
	direct := map[*types.Func]eff{}
	callees := map[*types.Func][]*types.Func{}
	returnsErr := func(f *types.Func) bool {
		r := f.Type().(*types.Signature).Results()
		for i := 0; i < r.Len(); i++ {
			if r.At(i).Type().String() == "error" {
				return true
			}
		}
		return false
	}
	for f, fd := range decls {
		var e eff
		ast.Inspect(fd.Body, func(x ast.Node) bool {
			switch s := x.(type) {
			case *ast.AssignStmt:
				for _, l := range s.Lhs {
					if ix, ok := ast.Unparen(l).(*ast.IndexExpr); ok {
						if v := selField(info, ix.X); v != nil && guarded[v] {
							e.commit = true
						}
					}
				}
			case *ast.CallExpr:
				c := callee(info, s)
				if c == nil {
					return true
				}
				if c.Pkg() != nil && c.Pkg().Path() == modPath+"/reporter" && (strings.HasPrefix(c.Name(), "HandleError") || c.Name() == "Error") {
					if sig := c.Type().(*types.Signature); sig.Recv() != nil {
						e.fallible = true
					}
				}
				if _, ok := decls[c]; ok {
					callees[f] = append(callees[f], c)
				}
			}
			return true
		})
		direct[f] = e
	}
	// transitive closure (recursion of Import into itself is cut: see below)
	total := map[*types.Func]eff{}
	var visit func(f *types.Func, stack map[*types.Func]bool) eff
	visit = func(f *types.Func, stack map[*types.Func]bool) eff {
		if e, ok := total[f]; ok {
			return e
		}
		if stack[f] {
			return eff{}
		}
		stack[f] = true
		e := direct[f]
		for _, c := range callees[f] {
			ce := visit(c, stack)
			e.commit = e.commit || ce.commit
			e.fallible = e.fallible || ce.fallible
		}
		delete(stack, f)
		if !returnsErr(f) {
			e.fallible = false
		}
		total[f] = e
		return e
	}
	for f := range decls {
		visit(f, map[*types.Func]bool{})
	}

	// call tree of Import
	tree := map[*types.Func]bool{}
	var collect func(f *types.Func)
	collect = func(f *types.Func) {
		if tree[f] {
			return
		}
		tree[f] = true
		for _, c := range callees[f] {
			if c == imp.Obj {
				continue
			}
			collect(c)
		}
	}
	collect(imp.Obj)
	// the linker's own entry (importResult) shares the tail of the tree
	if ir := w.fn("linker", "(*Symbols).importResult"); ir != nil {
		collect(ir.Obj)
	}
	var fns []*types.Func
	for f := range tree {
		fns = append(fns, f)
	}
	sort.Slice(fns, func(i, j int) bool { return funcName(fns[i]) < funcName(fns[j]) })

	type site struct {
		node   ast.Node
		name   string
		commit bool
		fall   bool
		inLoop bool // executed repeatedly (closure passed to walk.Descriptors)
	}
	nPairs, nBad := 0, 0
	for _, f := range fns {
		fd := decls[f]
		label := funcName(f)
		w.FuncsSeen[label] = true
		g := buildCFG(info, fd.Body)
		// sites: calls to functions with effects; closures given to walk.Descriptors are summarised
		var sites []site
		siteOf := map[ast.Node]int{}
		for _, b := range g.Blocks {
			for _, n := range b.Nodes {
				inspectPost(n, func(x ast.Node) {
					c, ok := x.(*ast.CallExpr)
					if !ok {
						return
					}
					cf := callee(info, c)
					if cf == nil {
						return
					}
					if cf == imp.Obj {
						return // recursion into dependencies: separate files
					}
					if e, ok := total[cf]; ok && (e.commit || e.fallible) {
						siteOf[c] = len(sites)
						sites = append(sites, site{node: c, name: cf.Name(), commit: e.commit, fall: e.fallible})
						return
					}
					if cf.Name() == "Descriptors" && cf.Pkg() != nil && strings.HasSuffix(cf.Pkg().Path(), "/walk") {
						for _, a := range c.Args {
							fl, ok := a.(*ast.FuncLit)
							if !ok {
								continue
							}
							var e eff
							var names []string
							ast.Inspect(fl.Body, func(y ast.Node) bool {
								if cc, ok := y.(*ast.CallExpr); ok {
									if ccf := callee(info, cc); ccf != nil {
										if te, ok := total[ccf]; ok && (te.commit || te.fallible) {
											e.commit = e.commit || te.commit
											e.fallible = e.fallible || te.fallible
											names = append(names, ccf.Name())
										}
									}
								}
								return true
							})
							if e.commit || e.fallible {
								siteOf[c] = len(sites)
								sites = append(sites, site{node: c, name: "each(" + strings.Join(names, ",") + ")", commit: e.commit, fall: e.fallible, inLoop: true})
							}
						}
					}
				})
			}
		}
		if len(sites) == 0 {
			continue
		}
		// reachability between sites over the CFG
		reach := func(from, to ast.Node) bool {
			// node-level: find (block, index) of from; search forward
			type posn struct {
				b *cfg.Block
				i int
			}
			loc := map[ast.Node]posn{}
			for _, b := range g.Blocks {
				for i, n := range b.Nodes {
					inspectPost(n, func(x ast.Node) {
						if _, ok := siteOf[x]; ok {
							loc[x] = posn{b, i}
						}
					})
				}
			}
			f0, ok1 := loc[from]
			t0, ok2 := loc[to]
			if !ok1 || !ok2 {
				return false
			}
			if f0.b == t0.b && t0.i > f0.i {
				return true
			}
			if f0.b == t0.b && t0.i == f0.i && from != to && from.Pos() < to.Pos() {
				return true
			}
			seen := map[*cfg.Block]bool{}
			work := append([]*cfg.Block{}, f0.b.Succs...)
			for len(work) > 0 {
				b := work[0]
				work = work[1:]
				if seen[b] {
					continue
				}
				seen[b] = true
				if b == t0.b {
					return true
				}
				work = append(work, b.Succs...)
			}
			return false
		}
		for i, a := range sites {
			if !a.commit {
				continue
			}
			for j, b := range sites {
				if !b.fall {
					continue
				}
				ordered := false
				if i == j {
					ordered = a.inLoop || reach(a.node, b.node) // same site again: only in a loop
				} else {
					ordered = reach(a.node, b.node)
				}
				if !ordered {
					continue
				}
				nPairs++
				key := fmt.Sprintf("%s|commit:%s-before-fallible:%s", label, a.name, b.name)
				nBad++
				w.violation(key, a.node.Pos(), fmt.Sprintf("in %s, %s commits to the shared symbol table and %s, which can still fail with a collision, can execute afterwards: if it fails, Import returns an error but the earlier commit stays — later lookups see symbols of a file whose import failed, and importing it again does not report the collision", label, a.name, b.name),
					"fallible step at "+w.pos(b.node.Pos()))
			}
		}
	}
	w.floor("functions in the call tree of Symbols.Import", len(fns), 8)
	if nBad == 0 {
		w.ok("no-commit-before-fallible", imp.Decl.Pos(), fmt.Sprintf("no commit precedes a fallible step in the call tree of Import (%d functions)", len(fns)))
	}
	_ = token.NoPos
}
