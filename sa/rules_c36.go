package main

import (
	"go/ast"
	"go/token"
	"go/types"
	"sort"
	"strings"

	"golang.org/x/tools/go/cfg"
)

// ---- RU2: Canonicalize decides what to drop only over the sorted slice -------------------
//
// Report.Canonicalize is order-insensitive only if everything it does to r.Diagnostics besides the
// sort itself happens after the sort: marking, deleting or reordering elements of the slice in
// input order (before the sort) makes the survivor of a duplicate group a function of the input
// order. Rule: on every path of Canonicalize, each mutation of r.Diagnostics — directly, inside a
// function literal, or inside a same-package callee (followed transitively) — is preceded by the
// slices.Sort*Func call over r.Diagnostics.
func ru2SortBeforeDedup(w *World) {
	w.rule("RU2")
	p := w.pkg(reportRel)
	canon := w.fn(reportRel, "(*Report).Canonicalize")
	diagFld := w.field(reportRel, "Report", "Diagnostics")
	if p == nil || canon == nil || diagFld == nil {
		return
	}
	info := p.TypesInfo
	isDiagSel := func(e ast.Expr) bool {
		for {
			switch x := ast.Unparen(e).(type) {
			case *ast.IndexExpr:
				e = x.X
				continue
			case *ast.SliceExpr:
				e = x.X
				continue
			case *ast.SelectorExpr:
				if selField(info, x) == diagFld {
					return true
				}
				e = x.X
				continue
			case *ast.StarExpr:
				e = x.X
				continue
			}
			return false
		}
	}
	slicesMut := map[string]bool{"DeleteFunc": true, "Delete": true, "Compact": true, "CompactFunc": true, "Reverse": true,
		"Insert": true, "Replace": true, "Sort": true, "SortFunc": true, "SortStableFunc": true, "Clip": false, "Grow": false}
	isSort := func(x ast.Node) bool {
		c, ok := x.(*ast.CallExpr)
		if !ok || len(c.Args) == 0 {
			return false
		}
		f := callee(info, c)
		return f != nil && f.Pkg() != nil && f.Pkg().Path() == "slices" && strings.HasPrefix(f.Name(), "Sort") && isDiagSel(c.Args[0]) && selField(info, c.Args[0]) == diagFld
	}
	// directMut: x itself (not descending into function literals — the caller does that) mutates r.Diagnostics
	var mutates func(n ast.Node, depth int, seen map[*types.Func]bool) (token.Pos, string)
	mutates = func(n ast.Node, depth int, seen map[*types.Func]bool) (pos token.Pos, what string) {
		ast.Inspect(n, func(x ast.Node) bool {
			if pos.IsValid() {
				return false
			}
			switch s := x.(type) {
			case *ast.AssignStmt:
				for _, l := range s.Lhs {
					if isDiagSel(l) {
						pos, what = s.Pos(), "assignment to "+types.ExprString(l)
						return false
					}
				}
			case *ast.IncDecStmt:
				if isDiagSel(s.X) {
					pos, what = s.Pos(), "update of "+types.ExprString(s.X)
					return false
				}
			case *ast.CallExpr:
				if isSort(s) {
					return true
				}
				f := callee(info, s)
				if f == nil {
					return true
				}
				if f.Pkg() != nil && f.Pkg().Path() == "slices" && slicesMut[f.Name()] && len(s.Args) > 0 && isDiagSel(s.Args[0]) {
					pos, what = s.Pos(), "slices."+f.Name()+" over r.Diagnostics"
					return false
				}
				if d := w.decls[f]; d != nil && d.Body != nil && f.Pkg() == p.Types && depth < 4 && !seen[f] {
					seen[f] = true
					if ps, wh := mutates(d.Body, depth+1, seen); ps.IsValid() {
						pos, what = s.Pos(), "call of "+funcName(f)+" ("+wh+")"
						return false
					}
				}
			}
			return true
		})
		return pos, what
	}
	nSort := 0
	isA := func(x ast.Node) bool {
		if isSort(x) {
			nSort++
			return true
		}
		return false
	}
	type hit struct {
		pos  token.Pos
		what string
	}
	hits := map[ast.Node]hit{}
	isB := func(x ast.Node) bool {
		switch x.(type) {
		case *ast.AssignStmt, *ast.IncDecStmt, *ast.CallExpr, *ast.FuncLit:
		default:
			return false
		}
		if isSort(x) {
			return false
		}
		// only the outermost construct counts once: test shallowly
		switch s := x.(type) {
		case *ast.AssignStmt:
			for _, l := range s.Lhs {
				if isDiagSel(l) {
					hits[x] = hit{s.Pos(), "assignment to " + types.ExprString(l)}
					return true
				}
			}
			return false
		case *ast.IncDecStmt:
			if isDiagSel(s.X) {
				hits[x] = hit{s.Pos(), "update of " + types.ExprString(s.X)}
				return true
			}
			return false
		case *ast.FuncLit:
			if ps, wh := mutates(s.Body, 0, map[*types.Func]bool{}); ps.IsValid() {
				hits[x] = hit{ps, "function literal: " + wh}
				return true
			}
			return false
		case *ast.CallExpr:
			f := callee(info, s)
			if f == nil {
				return false
			}
			if f.Pkg() != nil && f.Pkg().Path() == "slices" && slicesMut[f.Name()] && len(s.Args) > 0 && isDiagSel(s.Args[0]) {
				hits[x] = hit{s.Pos(), "slices." + f.Name() + " over r.Diagnostics"}
				return true
			}
			if d := w.decls[f]; d != nil && d.Body != nil && f.Pkg() == p.Types {
				if ps, wh := mutates(d.Body, 1, map[*types.Func]bool{f: true}); ps.IsValid() {
					hits[x] = hit{s.Pos(), "call of " + funcName(f) + " (" + wh + ")"}
					return true
				}
			}
		}
		return false
	}
	bs, bad := mustPrecede(info, canon.Decl.Body, isA, isB)
	w.floor("sorts of r.Diagnostics in Canonicalize", nSort, 1)
	w.floor("mutations of r.Diagnostics in Canonicalize besides the sort", bs, 1)
	badSet := map[ast.Node]bool{}
	for _, b := range bad {
		badSet[b] = true
	}
	n := 0
	for x, h := range hits {
		_ = x
		n++
		_ = h
	}
	// deterministic order
	var nodes []ast.Node
	for x := range hits {
		nodes = append(nodes, x)
	}
	sortNodes(nodes)
	seenKey := map[string]int{}
	for _, x := range nodes {
		h := hits[x]
		kind := strings.SplitN(h.what, " ", 2)[0]
		seenKey[kind]++
		key := "Canonicalize|after-sort|" + kind + "#" + itoa(seenKey[kind])
		if badSet[x] {
			w.violation(key, h.pos, h.what+" can run before r.Diagnostics has been sorted: which of several duplicates survives (or where elements end up) then depends on the input order")
		} else {
			w.ok(key, h.pos, h.what+": on every path the sort of r.Diagnostics has already run")
		}
	}
}

func sortNodes(ns []ast.Node) {
	for i := 1; i < len(ns); i++ {
		for j := i; j > 0 && ns[j].Pos() < ns[j-1].Pos(); j-- {
			ns[j], ns[j-1] = ns[j-1], ns[j]
		}
	}
}

func itoa(i int) string {
	if i == 0 {
		return "0"
	}
	s := ""
	for i > 0 {
		s = string(rune('0'+i%10)) + s
		i /= 10
	}
	return s
}

// ---- RU3: a task's report has one writer ------------------------------------------------
//
// The diagnostics of a run are the concatenation of task.report.Diagnostics over the tasks reached
// from the requested queries. They are schedule-independent only if each task's report is written
// by the single goroutine that executes the task's query (through the *Task handed to Execute) and
// by nobody else: any other write races with the leader or drops what it already emitted. Rule:
// inside package incremental, field task.report is (a) handed out by address only in (*Task).Report,
// (b) otherwise written only in (*task).run at points reached solely on the success edge of the
// leader election t.result.CompareAndSwap(nil, …); (c) everything else is a read. And *Task values
// bound to a task (composite literals that set field `task`) are created only at such points.
func ru3ReportSingleWriter(w *World) {
	w.rule("RU3")
	p := w.pkg(incRel)
	repFld := w.field(incRel, "task", "report")
	resultFld := w.field(incRel, "task", "result")
	taskFld := w.field(incRel, "Task", "task")
	run := w.fn(incRel, "(*task).run")
	getter := w.fn(incRel, "(*Task).Report")
	if p == nil || repFld == nil || resultFld == nil || taskFld == nil || run == nil || getter == nil {
		return
	}
	info := p.TypesInfo
	// leader points of task.run
	leader := map[ast.Node]bool{} // cfg nodes reached only as leader
	g := buildCFG(info, run.Decl.Body)
	d := &Dataflow{G: g, Must: true, Init: Facts{}, Transfer: func(n ast.Node, in Facts) Facts { return in }}
	d.Branch = func(leaf ast.Expr, truth bool, s Facts) Facts {
		if c, ok := leaf.(*ast.CallExpr); ok {
			if m, ok := methodOnField(info, c, resultFld); ok && m == "CompareAndSwap" && len(c.Args) == 2 && isNilIdent(info, c.Args[0]) && truth {
				return s.with("leader")
			}
		}
		return s
	}
	d.Run()
	d.Walk(func(_ *cfg.Block, n ast.Node, before Facts) {
		if before["leader"] {
			leader[n] = true
		}
	})
	inLeader := func(b bodyRef, pos token.Pos) bool {
		if b.Decl != run.Decl || b.Lit != nil {
			return false
		}
		for n := range leader {
			if n.Pos() <= pos && pos < n.End() {
				return true
			}
		}
		return false
	}
	nSites, nLits := 0, 0
	cnt := map[string]int{}
	for _, b := range allFuncBodies(p) {
		parents := parentMap(b.Body)
		fname := b.Label
		ast.Inspect(b.Body, func(x ast.Node) bool {
			if fl, ok := x.(*ast.FuncLit); ok && fl.Body != b.Body {
				return false // visited as its own body
			}
			switch s := x.(type) {
			case *ast.CompositeLit:
				if tv, ok := info.Types[s]; ok {
					if nm, ok := types.Unalias(tv.Type).(*types.Named); ok && nm.Obj().Name() == "Task" && nm.Obj().Pkg() == p.Types {
						for _, e := range s.Elts {
							if kv, ok := e.(*ast.KeyValueExpr); ok {
								if id, ok := kv.Key.(*ast.Ident); ok && info.Uses[id] == taskFld {
									nLits++
									key := "bind|" + fname
									if inLeader(b, s.Pos()) {
										w.ok(key, s.Pos(), "a *Task bound to a task (and so able to write its report) is created only after winning the leader election")
									} else {
										w.violation(key, s.Pos(), "a *Task bound to task "+types.ExprString(kv.Value)+" is created outside the leader section of task.run: a second writer for that task's report")
									}
								}
							}
						}
					}
				}
			case *ast.SelectorExpr:
				if selField(info, s) != repFld {
					return true
				}
				nSites++
				// climb to find the access kind
				var cur ast.Node = s
				kind := "read"
				for {
					par := parents[cur]
					if par == nil {
						break
					}
					switch pp := par.(type) {
					case *ast.SelectorExpr:
						if pp.X == cur {
							// method call with pointer receiver?
							if sel := info.Selections[pp]; sel != nil && sel.Kind() == types.MethodVal {
								if sig, ok := sel.Obj().Type().(*types.Signature); ok && sig.Recv() != nil {
									if _, ptr := sig.Recv().Type().(*types.Pointer); ptr {
										kind = "call of pointer method " + pp.Sel.Name
									}
								}
								goto done
							}
							cur = par
							continue
						}
					case *ast.IndexExpr:
						if pp.X == cur {
							cur = par
							continue
						}
					case *ast.SliceExpr:
						if pp.X == cur {
							cur = par
							continue
						}
					case *ast.ParenExpr:
						cur = par
						continue
					case *ast.UnaryExpr:
						if pp.Op == token.AND {
							kind = "address-of"
							// rep := &node.report where rep is a local that is only read through
							// (rep.F in value position): a read
							if as, ok := parents[pp].(*ast.AssignStmt); ok && len(as.Lhs) == 1 && len(as.Rhs) == 1 && as.Rhs[0] == ast.Expr(pp) {
								if id, ok := as.Lhs[0].(*ast.Ident); ok && id.Name != "_" {
									if obj := info.ObjectOf(id); obj != nil && localOnlyFieldReads(info, parents, b.Body, obj, id) {
										kind = "read"
									}
								}
							}
						}
					case *ast.AssignStmt:
						for _, l := range pp.Lhs {
							if l == cur {
								kind = "assignment"
							}
						}
					case *ast.IncDecStmt:
						kind = "assignment"
					}
					break
				}
			done:
				cnt[fname+"|"+kind]++
				key := "access|" + fname + "|" + strings.SplitN(kind, " ", 2)[0] + "#" + itoa(cnt[fname+"|"+kind])
				switch {
				case kind == "read":
					w.ok(key, s.Pos(), "read of task.report")
				case kind == "address-of" && b.Decl == getter.Decl && b.Lit == nil:
					w.ok(key, s.Pos(), "(*Task).Report hands the task's report to the query being executed (its single writer)")
				case inLeader(b, s.Pos()):
					w.ok(key, s.Pos(), kind+" of task.report on the leader-only section of task.run")
				default:
					w.violation(key, s.Pos(), kind+" of task.report in "+fname+" outside the leader section of task.run: the report of a task that may be executing on another goroutine is modified, so the diagnostics of a run depend on the schedule")
				}
			}
			return true
		})
	}
	w.floor("accesses of task.report in package incremental", nSites, 2)
	w.floor("*Task literals bound to a task", nLits, 1)
}

// RU4 (C36): sort keys are unconditional projections. Every key function handed to the comparator
// of Report.Canonicalize (cmpx.Key / cmpx.Map function literals) must consist of a single return
// of an expression over its argument. A key that returns a constant under some condition makes
// the diagnostics that satisfy the condition tie on that key; slices.SortFunc is unstable and the
// de-duplication keeps one member of each tied group, so which diagnostic survives would depend on
// the order in which the tasks' reports were merged (sync.Map iteration order, the schedule).
func ru4KeysUnconditional(w *World) {
	w.rule("RU4")
	p := w.pkg(reportRel)
	canon := w.fn(reportRel, "(*Report).Canonicalize")
	if p == nil || canon == nil {
		return
	}
	info := p.TypesInfo
	n := 0
	seen := map[*types.Func]bool{}
	var visit func(body ast.Node, depth int)
	visit = func(body ast.Node, depth int) {
		ast.Inspect(body, func(x ast.Node) bool {
			switch e := x.(type) {
			case *ast.CallExpr:
				f := callee(info, e)
				if f == nil || f.Pkg() == nil || !strings.HasSuffix(f.Pkg().Path(), "/cmpx") || (f.Name() != "Key" && f.Name() != "Map") || len(e.Args) == 0 {
					return true
				}
				fl, ok := e.Args[0].(*ast.FuncLit)
				if !ok {
					return true
				}
				n++
				key := "key-unconditional|" + types.ExprString(e.Fun) + "|" + w.pos(fl.Pos())
				if len(fl.Body.List) == 1 {
					if r, ok := fl.Body.List[0].(*ast.ReturnStmt); ok && len(r.Results) == 1 {
						key = "key-unconditional|" + types.ExprString(r.Results[0])
						// the projection must not merge several fields through a selecting call
						// (cmp.Or(d.tag, d.message), min/max, a ternary helper): two diagnostics that
						// differ only in the shadowed field then compare equal
						merged := ""
						ast.Inspect(r.Results[0], func(y ast.Node) bool {
							c, ok := y.(*ast.CallExpr)
							if !ok || len(c.Args) < 2 || merged != "" {
								return true
							}
							if tv, ok := info.Types[c.Fun]; ok && tv.IsType() {
								return true
							}
							fieldsSeen := map[string]bool{}
							for _, a := range c.Args {
								ast.Inspect(a, func(z ast.Node) bool {
									if sel, ok := z.(*ast.SelectorExpr); ok {
										if v, ok := info.Uses[sel.Sel].(*types.Var); ok && v.IsField() {
											fieldsSeen[v.Name()] = true
										}
									}
									return true
								})
							}
							if len(fieldsSeen) >= 2 {
								var fs []string
								for f := range fieldsSeen {
									fs = append(fs, f)
								}
								sort.Strings(fs)
								merged = types.ExprString(c) + " (fields " + strings.Join(fs, ", ") + ")"
							}
							return true
						})
						if merged != "" {
							w.violation(key, fl.Pos(), "the key merges several fields of the diagnostic into one value through "+merged+": a selecting combinator is not a lexicographic pair, so two diagnostics that differ only in the field that is shadowed compare equal — the stable sort keeps them in arrival order, and de-duplication keeps whichever arrived last")
							return true
						}
						w.ok(key, fl.Pos(), "the key is a plain projection of the diagnostic")
						return true
					}
				}
				w.violation(key, fl.Pos(), "a sort key of Canonicalize is computed by a function with more than a single return: under the branch that returns a constant, diagnostics tie on this key, and which member of a duplicate group survives then depends on the order the reports were merged in")
			case *ast.Ident:
				if f, ok := info.Uses[e].(*types.Func); ok && depth < 3 && !seen[f] && f.Pkg() == p.Types && f.Type().(*types.Signature).Recv() == nil {
					if d := w.decls[f]; d != nil && d.Body != nil {
						seen[f] = true
						visit(d.Body, depth+1)
					}
				}
			}
			return true
		})
	}
	visit(canon.Decl.Body, 0)
	w.floor("key functions of Canonicalize's comparator", n, 6)
}

// RU5 (C36): collecting the diagnostics of a Run does not write shared task state. Run walks the
// dependency graph of the requested queries and concatenates the tasks' reports; tasks are shared
// by every Run on the executor and Runs may overlap. The "visited" bookkeeping of that walk must be
// local to the call: inside the collection loop no field of a *task may be assigned, and no
// mutating method (Store, Swap, Add, CompareAndSwap, Delete, LoadOrStore, LoadAndDelete, Clear) may
// be called on one — a per-task visit stamp is overwritten by a concurrent Run, the subtree is
// walked again, and the report carries a schedule-dependent number of duplicated diagnostics.
func ru5CollectionReadOnly(w *World) {
	w.rule("RU5")
	p := w.pkg(incRel)
	run := w.fn(incRel, "Run")
	taskT := w.typ(incRel, "task")
	if p == nil || run == nil || taskT == nil {
		return
	}
	info := p.TypesInfo
	// the collection loop: the loop whose body appends <task>.report.Diagnostics — in Run itself or
	// in a helper of the package that Run calls (directly or through one more helper)
	var loop *ast.ForStmt
	bodies := []ast.Node{run.Decl.Body}
	seenF := map[*types.Func]bool{run.Obj: true}
	for depth, frontier := 0, []ast.Node{run.Decl.Body}; depth < 2 && len(frontier) > 0; depth++ {
		var next []ast.Node
		for _, fb := range frontier {
			ast.Inspect(fb, func(x ast.Node) bool {
				if c, ok := x.(*ast.CallExpr); ok {
					if f := callee(info, c); f != nil && f.Pkg() == p.Types && !seenF[f.Origin()] {
						seenF[f.Origin()] = true
						if d := w.decls[f.Origin()]; d != nil && d.Body != nil {
							bodies = append(bodies, d.Body)
							next = append(next, d.Body)
						}
					}
				}
				return true
			})
		}
		frontier = next
	}
	for _, fb := range bodies {
		if loop != nil {
			break
		}
		ast.Inspect(fb, func(x ast.Node) bool {
			fs, ok := x.(*ast.ForStmt)
			if !ok {
				return true
			}
			has := false
			ast.Inspect(fs.Body, func(y ast.Node) bool {
				if in, ok := y.(*ast.SelectorExpr); ok && in.Sel.Name == "report" {
					if v := selField(info, in); v != nil {
						t := info.TypeOf(in.X)
						if pt, ok := t.(*types.Pointer); ok {
							t = pt.Elem()
						}
						if n, ok := t.(*types.Named); ok && n.Origin() == taskT.Origin() {
							has = true
						}
					}
				}
				return true
			})
			if has && loop == nil {
				loop = fs
			}
			return true
		})
	}
	if loop == nil {
		w.undecided("collection-read-only|loop", run.Decl.Pos(), "cannot find the loop of Run that collects the tasks' reports")
		return
	}
	isTaskField := func(e ast.Expr) (*types.Var, bool) {
		sel, ok := ast.Unparen(e).(*ast.SelectorExpr)
		if !ok {
			return nil, false
		}
		v := selField(info, sel)
		if v == nil {
			return nil, false
		}
		t := info.TypeOf(sel.X)
		if pt, ok := t.(*types.Pointer); ok {
			t = pt.Elem()
		}
		if n, ok := t.(*types.Named); ok && n.Origin() == taskT.Origin() {
			return v, true
		}
		return nil, false
	}
	mut := map[string]bool{"Store": true, "Swap": true, "Add": true, "CompareAndSwap": true, "Delete": true, "LoadOrStore": true, "LoadAndDelete": true, "Clear": true, "CompareAndDelete": true, "And": true, "Or": true}
	nAcc, bad := 0, 0
	ast.Inspect(loop.Body, func(x ast.Node) bool {
		switch s := x.(type) {
		case *ast.AssignStmt:
			for _, l := range s.Lhs {
				if v, ok := isTaskField(l); ok {
					nAcc++
					bad++
					w.violation("collection-read-only|assign:"+v.Name(), l.Pos(), "task."+v.Name()+" is assigned inside Run's report-collection loop: tasks are shared between overlapping Runs")
				}
			}
		case *ast.CallExpr:
			sel, ok := ast.Unparen(s.Fun).(*ast.SelectorExpr)
			if !ok {
				return true
			}
			if v, ok := isTaskField(sel.X); ok {
				nAcc++
				if mut[sel.Sel.Name] {
					bad++
					w.violation("collection-read-only|"+v.Name()+"."+sel.Sel.Name, s.Pos(), "task."+v.Name()+"."+sel.Sel.Name+" mutates shared task state inside Run's report-collection loop: a concurrent Run overwrites the visit bookkeeping, subtrees are collected again, and the number of duplicated diagnostics in the report depends on the schedule")
				}
			}
		}
		return true
	})
	w.floor("task-field method calls in the collection loop of Run", nAcc, 1)
	if bad == 0 {
		w.ok("collection-read-only", loop.Pos(), "the collection loop only reads shared task state (deps.Range, report); its visited set is local to the call")
	}
}

// localOnlyFieldReads reports whether every use of the local obj in body (other than its defining
// identifier def) is the X of a field selector that is read: not assigned to, not incremented, not
// address-taken, not the receiver of a method call, not sliced.
func localOnlyFieldReads(info *types.Info, parents map[ast.Node]ast.Node, body ast.Node, obj types.Object, def *ast.Ident) bool {
	okAll := true
	ast.Inspect(body, func(x ast.Node) bool {
		id, ok := x.(*ast.Ident)
		if !ok || id == def || info.ObjectOf(id) != obj {
			return true
		}
		sel, ok := parents[id].(*ast.SelectorExpr)
		if !ok || sel.X != ast.Expr(id) || selField(info, sel) == nil {
			okAll = false
			return true
		}
		switch pp := parents[sel].(type) {
		case *ast.AssignStmt:
			for _, l := range pp.Lhs {
				if l == ast.Expr(sel) {
					okAll = false
				}
			}
		case *ast.IncDecStmt:
			okAll = false
		case *ast.UnaryExpr:
			if pp.Op == token.AND {
				okAll = false
			}
		case *ast.SelectorExpr:
			okAll = false // method call or deeper path: not followed
		case *ast.SliceExpr, *ast.IndexExpr:
			if gp, ok := parents[pp].(*ast.AssignStmt); ok {
				for _, l := range gp.Lhs {
					if l == pp.(ast.Expr) {
						okAll = false
					}
				}
			}
		}
		return true
	})
	return okAll
}
