package main

import (
	"fmt"
	"go/ast"
	"go/token"
	"go/types"
	"sort"
	"strings"

	"golang.org/x/tools/go/cfg"
	"golang.org/x/tools/go/packages"
)

// ---- RC7c: an option that stays uninterpreted leaves no trace (C21) ------------------------
//
// In lenient / unlinked mode interpretOptions keeps an option as uninterpreted when interpreting it
// raised an error (interp.lenientErrReported). "Never half-populated" then needs per-option
// atomicity: whatever interpretField did to the accumulated message before it failed (created the
// intermediate message of a multi-part name, appended the leading elements of an array literal)
// must not survive. The code can guarantee this in two ways, and the rule accepts either:
//
//	A (rollback)     on every acyclic path of interpretOptions that passes the interpretField call
//	                 and then the true edge of `interp.lenientErrReported`, the message M that was
//	                 passed to the call is re-assigned from a snapshot S = proto.Clone(M…) taken
//	                 before the call on that path, before the loop iterates or the function exits.
//	                 Paths on which `interp.lenient` was false are pruned at that edge: RH8
//	                 establishes lenientErrReported ⇒ lenienceEnabled ⇒ lenient.
//	B (mutate-last)  in interpretField and setOptionField no lenience-fallible call (a call that
//	                 can reach one of the error wrappers) may follow a mutation of the msg
//	                 parameter on any path, so a failure always precedes the first mutation.
func rc7cPerOptionAtomicity(w *World) {
	w.rule("RC7c")
	p := w.pkg("options")
	io := w.fn("options", "(*interpreter).interpretOptions")
	ifld := w.fn("options", "(*interpreter).interpretField")
	sof := w.fn("options", "(*interpreter).setOptionField")
	lenientFld := w.field("options", "interpreter", "lenient")
	repFld := w.field("options", "interpreter", "lenientErrReported")
	if p == nil || io == nil || ifld == nil || sof == nil || lenientFld == nil || repFld == nil {
		return
	}
	info := p.TypesInfo
	isProtoClone := func(c *ast.CallExpr) bool {
		f := callee(info, c)
		return f != nil && f.Pkg() != nil && f.Pkg().Path() == "google.golang.org/protobuf/proto" && f.Name() == "Clone"
	}
	mentions := func(n ast.Node, name string) bool {
		found := false
		ast.Inspect(n, func(x ast.Node) bool {
			if id, ok := x.(*ast.Ident); ok && id.Name == name {
				found = true
			}
			return !found
		})
		return found
	}
	// the interpretField call in interpretOptions and the message it works on
	var call *ast.CallExpr
	ast.Inspect(io.Decl.Body, func(x ast.Node) bool {
		if c, ok := isCallTo(info, x, ifld.Obj); ok && call == nil {
			call = c
		}
		return true
	})
	if call == nil || len(call.Args) < 3 {
		w.undecided("rollback|call", io.Decl.Pos(), "interpretOptions no longer calls interpretField(…, msg, …)")
		return
	}
	mID, ok := ast.Unparen(call.Args[2]).(*ast.Ident)
	if !ok {
		w.undecided("rollback|call", call.Pos(), "the message passed to interpretField is not a plain variable")
		return
	}
	M := mID.Name

	// --- A: rollback
	g := buildCFG(info, io.Decl.Body)
	d := &Dataflow{G: g, Must: true, Init: Facts{}}
	d.Transfer = func(n ast.Node, in Facts) Facts {
		out := in
		inspectPost(n, func(x ast.Node) {
			switch s := x.(type) {
			case *ast.AssignStmt:
				if len(s.Lhs) == 1 && len(s.Rhs) == 1 {
					if id, ok := s.Lhs[0].(*ast.Ident); ok {
						hasClone := false
						ast.Inspect(s.Rhs[0], func(y ast.Node) bool {
							if c, ok := y.(*ast.CallExpr); ok && isProtoClone(c) && len(c.Args) == 1 && mentions(c.Args[0], M) {
								hasClone = true
							}
							return true
						})
						if hasClone && id.Name != M && !out["called"] {
							out = out.with("snap:" + id.Name)
						}
						if id.Name == M {
							if r, ok := ast.Unparen(s.Rhs[0]).(*ast.Ident); ok && out["snap:"+r.Name] && out["failed"] {
								out = out.with("restored")
							}
						}
					}
				}
			case *ast.CallExpr:
				if s == call {
					out = out.with("called")
					hasSnap := false
					for k := range out {
						if strings.HasPrefix(k, "snap:") {
							hasSnap = true
						}
					}
					if hasSnap {
						out = out.with("snap-at-call")
					}
				}
			}
		})
		return out
	}
	d.Branch = func(leaf ast.Expr, truth bool, s Facts) Facts {
		switch selField(info, leaf) {
		case lenientFld:
			if truth {
				return s.with("lenient")
			}
			return s.with("notLenient")
		case repFld:
			if truth && s["called"] {
				if s["notLenient"] {
					return Facts{bottom: true}
				}
				return s.with("failed")
			}
		}
		return s
	}
	nFailed := 0
	var badA []string
	check := func(s Facts, where string) {
		if !s["failed"] {
			return
		}
		nFailed++
		switch {
		case !s["snap-at-call"]:
			badA = append(badA, where+": no snapshot of "+M+" was taken before interpretField ran")
		case !s["restored"]:
			badA = append(badA, where+": "+M+" is not restored from the snapshot after the option failed")
		}
	}
	d.OnCycle = func(to *cfg.Block, s Facts) { check(s, "loop back edge") }
	exits, complete := d.Paths(info, io.Decl.End(), 20000)
	for _, e := range exits {
		check(e.State, e.Kind+" at "+w.Fset.Position(e.Pos).String())
	}
	holdsA := complete && nFailed > 0 && len(badA) == 0

	// --- B: mutate-last in interpretField / setOptionField
	fallible := lenienceFallible(w, p)
	var badB []string
	nMut := 0
	for _, fr := range []*FuncRef{ifld, sof} {
		msgName := ""
		for _, fl := range fr.Decl.Type.Params.List {
			for _, nm := range fl.Names {
				if nm.Name == "msg" {
					msgName = nm.Name
				}
			}
		}
		if msgName == "" {
			badB = append(badB, fr.Name+": no parameter named msg")
			continue
		}
		isMutation := func(c *ast.CallExpr) bool {
			if s, ok := ast.Unparen(c.Fun).(*ast.SelectorExpr); ok {
				if id, ok := ast.Unparen(s.X).(*ast.Ident); ok && id.Name == msgName {
					switch s.Sel.Name {
					case "Set", "Mutable", "Clear", "SetUnknown":
						return true
					}
				}
			}
			if f := callee(info, c); f != nil && f.Name() == "setMapEntry" {
				return true
			}
			return false
		}
		gg := buildCFG(info, fr.Decl.Body)
		dd := &Dataflow{G: gg, Must: false, Init: Facts{}}
		dd.Transfer = func(n ast.Node, in Facts) Facts {
			out := in
			inspectPost(n, func(x ast.Node) {
				if c, ok := x.(*ast.CallExpr); ok && isMutation(c) {
					out = out.with("mutated")
				}
			})
			return out
		}
		dd.Run()
		dd.Walk(func(_ *cfg.Block, n ast.Node, before Facts) {
			mutated := before["mutated"]
			inspectPost(n, func(x ast.Node) {
				c, ok := x.(*ast.CallExpr)
				if !ok {
					return
				}
				if isMutation(c) {
					nMut++
					mutated = true
					return
				}
				if f := callee(info, c); f != nil && fallible[f] && mutated {
					badB = append(badB, fr.Name+": "+f.Name()+" at "+w.Fset.Position(c.Pos()).String()+" can fail leniently after "+msgName+" was already modified")
				}
			})
		})
	}
	holdsB := len(badB) == 0 && nMut > 0
	w.floor("paths of interpretOptions through the lenient-failure edge", nFailed, 1)
	w.floor("mutations of msg in interpretField/setOptionField", nMut, 3)
	sort.Strings(badA)
	sort.Strings(badB)
	key := "per-option|interpretOptions"
	switch {
	case holdsA:
		w.ok(key, call.Pos(), "rollback: on all "+itoa(nFailed)+" path(s) through the lenient-failure edge "+M+" is restored from a snapshot taken before interpretField ran, so an option kept as uninterpreted leaves nothing behind")
	case holdsB:
		w.ok(key, call.Pos(), "mutate-last: interpretField/setOptionField never call anything lenience-fallible after modifying msg")
	default:
		first := func(xs []string) string {
			if len(xs) == 0 {
				return "(path bound hit)"
			}
			return xs[0]
		}
		w.violation(key, call.Pos(), "an option that fails in lenient mode is kept as uninterpreted but what interpretField already wrote into "+M+" survives (half-populated options message): no rollback ["+first(badA)+"] and no mutate-last discipline ["+first(badB)+"; "+itoa(len(badB))+" site(s)]")
	}
}

// lenienceFallible returns the functions of package options from which one of the lenience-aware
// error wrappers is reachable through static calls inside the package.
func lenienceFallible(w *World, p *packages.Package) map[*types.Func]bool {
	info := p.TypesInfo
	calls := map[*types.Func][]*types.Func{}
	for _, b := range allFuncBodies(p) {
		ast.Inspect(b.Body, func(x ast.Node) bool {
			if c, ok := x.(*ast.CallExpr); ok {
				if f := callee(info, c); f != nil && f.Pkg() == p.Types {
					calls[b.Obj] = append(calls[b.Obj], f)
				}
			}
			return true
		})
	}
	out := map[*types.Func]bool{}
	for f := range calls {
		_ = f
	}
	for _, b := range allFuncBodies(p) {
		switch b.Obj.Name() {
		case "handleErrorf", "handleErrorWithPos", "handleError":
			out[b.Obj] = true
		}
	}
	for changed := true; changed; {
		changed = false
		for f, cs := range calls {
			if out[f] {
				continue
			}
			for _, c := range cs {
				if out[c] {
					out[f] = true
					changed = true
					break
				}
			}
		}
	}
	return out
}

var _ = token.NoPos

// RC7d (C21): list surgery on the caller's uninterpreted options is never left half-done.
// internal.RemoveOption is handed a slice that aliases the options message's own
// UninterpretedOption list. If it removes an element by appending into a shortened view of that
// slice (`append(uo[:i], uo[i+1:]...)`, no capacity limit), the caller's backing array is shifted
// in place while the message still holds the old slice header; every path from such a call to a
// return must then store the result back into the message, otherwise — in lenient mode a rejected
// pseudo-option reports nothing and returns early — the message is left with the rejected option
// gone and its last option duplicated ("never leaves an options message half-populated", "keeps
// every option it cannot interpret verbatim"). A RemoveOption that copies (three-index slice,
// slices.Delete on a clone, a fresh make) needs no such discipline from its callers.
func rc7dInPlaceRemoval(w *World) {
	w.rule("RC7d")
	ip := w.pkg("internal")
	op := w.pkg("options")
	rem := w.fn("internal", "RemoveOption")
	if ip == nil || op == nil || rem == nil {
		return
	}
	iinfo := ip.TypesInfo
	// (i) does RemoveOption shift its argument's storage in place?
	var param types.Object
	if rem.Decl.Type.Params.NumFields() > 0 && len(rem.Decl.Type.Params.List[0].Names) > 0 {
		param = iinfo.Defs[rem.Decl.Type.Params.List[0].Names[0]]
	}
	inPlace := ""
	ast.Inspect(rem.Decl.Body, func(x ast.Node) bool {
		c, ok := x.(*ast.CallExpr)
		if !ok || !isBuiltinCall(iinfo, c, "append") || len(c.Args) < 2 {
			return true
		}
		se, ok := ast.Unparen(c.Args[0]).(*ast.SliceExpr)
		if !ok || se.Slice3 {
			return true
		}
		if id, ok := ast.Unparen(se.X).(*ast.Ident); ok && iinfo.Uses[id] == param && se.High != nil {
			inPlace = types.ExprString(c) + " at " + w.pos(c.Pos())
		}
		return true
	})
	if inPlace == "" {
		w.ok("remove-copies|internal.RemoveOption", rem.Decl.Pos(), "RemoveOption never appends into a shortened view of its argument: the caller's list is not modified in place")
		return
	}
	// (ii) callers must commit on every path
	oinfo := op.TypesInfo
	n := 0
	for _, b := range allFuncBodies(op) {
		if b.Lit != nil {
			continue
		}
		var calls []*ast.CallExpr
		ast.Inspect(b.Body, func(x ast.Node) bool {
			if c, ok := x.(*ast.CallExpr); ok {
				if f := callee(oinfo, c); f != nil && f == rem.Obj {
					calls = append(calls, c)
				}
			}
			return true
		})
		if len(calls) == 0 {
			continue
		}
		n++
		isCall := func(x ast.Node) bool {
			c, ok := x.(*ast.CallExpr)
			if !ok {
				return false
			}
			f := callee(oinfo, c)
			return f != nil && f == rem.Obj
		}
		isStore := func(x ast.Node) bool {
			as, ok := x.(*ast.AssignStmt)
			if !ok {
				return false
			}
			for _, l := range as.Lhs {
				if s, ok := ast.Unparen(l).(*ast.SelectorExpr); ok && s.Sel.Name == "UninterpretedOption" {
					return true
				}
			}
			return false
		}
		_, bad := mustFollow(oinfo, b.Body, isCall, isStore)
		key := "in-place-removal-committed|" + b.Label
		if len(bad) == 0 {
			w.ok(key, b.Decl.Pos(), "every path from a RemoveOption call to a return stores the result back into the options message")
		} else {
			var where []string
			for _, e := range bad {
				where = append(where, w.pos(e.Pos))
			}
			w.violation(key, b.Decl.Pos(), "internal.RemoveOption shifts the caller's list in place ("+inPlace+"), and "+b.Label+" can return (at "+strings.Join(where, ", ")+") after such a call without storing the result back into the options message: the message keeps its old length over the shifted array — the removed (rejected) option is gone and the last option is listed twice")
		}
	}
	w.floor("callers of internal.RemoveOption in package options", n, 1)
}

// RC7e (C21): a pseudo-option is taken off the uninterpreted list only once it has been applied.
// In lenient / unlinked mode the error wrappers return nil, so `return interp.handleErrorf(…)`
// is an ordinary successful exit that means "this option could not be interpreted — leave it".
// The functions of package options that take options off the list (callers of
// internal.RemoveOption) therefore must not have stored the shortened list into the options
// message on any path that can still reach such an exit: otherwise the option is neither applied
// nor kept ("keeps every option it cannot interpret verbatim as uninterpreted"). May-dataflow per
// caller: fact `stored` is generated by an assignment to <msg>.UninterpretedOption; a return whose
// result is a call of a lenience-fallible function with `stored` alive is a violation.
func rc7eCommitAfterChecks(w *World) {
	w.rule("RC7e")
	op := w.pkg("options")
	rem := w.fn("internal", "RemoveOption")
	if op == nil || rem == nil {
		return
	}
	info := op.TypesInfo
	fallible := lenienceFallible(w, op)
	nFuncs, nExits := 0, 0
	for _, b := range allFuncBodies(op) {
		if b.Lit != nil {
			continue
		}
		uses := false
		ast.Inspect(b.Body, func(x ast.Node) bool {
			if c, ok := x.(*ast.CallExpr); ok {
				if f := callee(info, c); f != nil && f == rem.Obj {
					uses = true
				}
			}
			return true
		})
		if !uses {
			continue
		}
		nFuncs++
		isStore := func(x ast.Node) bool {
			as, ok := x.(*ast.AssignStmt)
			if !ok {
				return false
			}
			for _, l := range as.Lhs {
				if s, ok := ast.Unparen(l).(*ast.SelectorExpr); ok && s.Sel.Name == "UninterpretedOption" {
					return true
				}
			}
			return false
		}
		lenientExit := func(x ast.Node) bool {
			r, ok := x.(*ast.ReturnStmt)
			if !ok {
				return false
			}
			found := false
			for _, res := range r.Results {
				ast.Inspect(res, func(y ast.Node) bool {
					if c, ok := y.(*ast.CallExpr); ok {
						if f := callee(info, c); f != nil && fallible[f] {
							found = true
						}
					}
					return true
				})
			}
			return found
		}
		g := buildCFG(info, b.Body)
		d := &Dataflow{G: g, Must: false, Init: Facts{}}
		d.Transfer = func(nd ast.Node, in Facts) Facts {
			if isStore(nd) {
				return in.with("stored")
			}
			return in
		}
		d.Run()
		var bad []string
		d.Walk(func(_ *cfg.Block, nd ast.Node, before Facts) {
			if lenientExit(nd) {
				nExits++
				if before["stored"] {
					bad = append(bad, w.pos(nd.Pos()))
				}
			}
		})
		key := "removal-stored-before-lenient-exit|" + b.Label
		if len(bad) == 0 {
			w.ok(key, b.Decl.Pos(), "no exit through a lenience-aware error wrapper is reachable after the shortened list has been stored into the options message")
		} else {
			sort.Strings(bad)
			w.violation(key, b.Decl.Pos(), "the shortened uninterpreted-option list is stored into the options message before a check that can still fail (exit through a lenience-aware error wrapper at "+strings.Join(bad, ", ")+"): in lenient / unlinked mode that exit returns nil, so the rejected option is neither applied nor kept as uninterpreted")
		}
	}
	w.floor("functions that take options off the uninterpreted list", nFuncs, 1)
	w.floor("exits through a lenience-aware wrapper in those functions", nExits, 3)
}

// RH8b (C21): a silent failure is always a *reported* failure. The value builders of the
// interpreter (messageLiteralValue and friends) return "no value, no error" after a problem was
// handed to one of the lenience-aware wrappers; interpretOptions learns that an option could not
// be interpreted only from interp.lenientErrReported, which only those wrappers set. A local
// failure flag (`hadError = true`) that is set on a path with no such report therefore makes the
// option vanish in lenient / unlinked mode: it counts as interpreted, is dropped from the
// uninterpreted list, and contributes no value. Every assignment `<flag> = true` to a boolean
// local whose truth makes the function return the zero value with a nil error must be preceded,
// in its own block, by a statement that calls a lenience-fallible function.
func rh8bSilentFailureIsReported(w *World) {
	w.rule("RH8b")
	p := w.pkg("options")
	if p == nil {
		return
	}
	info := p.TypesInfo
	fallible := lenienceFallible(w, p)
	n := 0
	for _, b := range allFuncBodies(p) {
		if b.Lit != nil {
			continue
		}
		// failure flags: bool locals tested by `if flag { return <zero…>, nil }`
		flags := map[types.Object]bool{}
		ast.Inspect(b.Body, func(x ast.Node) bool {
			ifs, ok := x.(*ast.IfStmt)
			if !ok || len(ifs.Body.List) != 1 {
				return true
			}
			id, ok := ast.Unparen(ifs.Cond).(*ast.Ident)
			if !ok {
				return true
			}
			ret, ok := ifs.Body.List[0].(*ast.ReturnStmt)
			if !ok || len(ret.Results) == 0 || !isNilIdent(info, ret.Results[len(ret.Results)-1]) {
				return true
			}
			if v, ok := info.Uses[id].(*types.Var); ok {
				if bt, ok := v.Type().Underlying().(*types.Basic); ok && bt.Kind() == types.Bool {
					flags[v] = true
				}
			}
			return true
		})
		if len(flags) == 0 {
			continue
		}
		// must-dataflow per loop iteration: "reported" after a node that calls a lenience-fallible
		// function; forgotten at the first node of every loop body (a report made for an earlier
		// element says nothing about this one)
		var loopFirst []ast.Stmt
		ast.Inspect(b.Body, func(x ast.Node) bool {
			switch l := x.(type) {
			case *ast.ForStmt:
				if len(l.Body.List) > 0 {
					loopFirst = append(loopFirst, l.Body.List[0])
				}
			case *ast.RangeStmt:
				if len(l.Body.List) > 0 {
					loopFirst = append(loopFirst, l.Body.List[0])
				}
			}
			return true
		})
		g := buildCFG(info, b.Body)
		earliest := map[ast.Stmt]ast.Node{}
		for _, blk := range g.Blocks {
			for _, nd := range blk.Nodes {
				for _, st := range loopFirst {
					if nd.Pos() >= st.Pos() && nd.End() <= st.End() {
						if cur := earliest[st]; cur == nil || nd.Pos() < cur.Pos() {
							earliest[st] = nd
						}
					}
				}
			}
		}
		resetAt := map[ast.Node]bool{}
		for _, nd := range earliest {
			resetAt[nd] = true
		}
		hasFallible := func(nd ast.Node) bool {
			hit := false
			ast.Inspect(nd, func(y ast.Node) bool {
				if _, isLit := y.(*ast.FuncLit); isLit {
					return false
				}
				if c, ok := y.(*ast.CallExpr); ok {
					if f := callee(info, c); f != nil && fallible[f] {
						hit = true
					}
				}
				return !hit
			})
			return hit
		}
		d := &Dataflow{G: g, Must: true, Init: Facts{}}
		d.Transfer = func(nd ast.Node, in Facts) Facts {
			out := in
			if resetAt[nd] {
				out = out.without("reported")
			}
			if hasFallible(nd) {
				out = out.with("reported")
			}
			return out
		}
		d.Run()
		d.Walk(func(_ *cfg.Block, nd ast.Node, before Facts) {
			as, ok := nd.(*ast.AssignStmt)
			if !ok || len(as.Lhs) != 1 || len(as.Rhs) != 1 || render(as.Rhs[0]) != "true" {
				return
			}
			id, ok := as.Lhs[0].(*ast.Ident)
			if !ok || !flags[info.Uses[id]] {
				return
			}
			n++
			key := fmt.Sprintf("silent-failure-reported|%s|%s", b.Label, w.pos(as.Pos()))
			if before["reported"] {
				w.ok(key, as.Pos(), "on every path of this iteration the failure flag is set only after the problem was handed to a lenience-aware error wrapper (or to a callee that reaches one)")
			} else {
				w.violation(key, as.Pos(), id.Name+" = true makes "+b.Label+" return no value and a nil error, but on some path of this iteration nothing went through handleError / handleErrorf / handleErrorWithPos: in lenient / unlinked mode interp.lenientErrReported stays false, interpretOptions takes the option for interpreted, drops it from uninterpreted_option and stores nothing — the option vanishes")
			}
		})
	}
	w.floor("failure-flag assignments in the options interpreter", n, 8)
}
