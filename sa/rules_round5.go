package main

import (
	"go/ast"
	"go/token"
	"go/types"
	"sort"
	"strings"

	"golang.org/x/tools/go/cfg"
)

// RE release shape (C34): Task.release gives the permit back whenever the Task holds one. The
// hold accounting of RE-inc treats release as an atomic "held → free" step; this rule checks the
// body behind that step: on every normal exit of (*Task).release either the semaphore's Release
// was called and the holding flag cleared, or the path established that the flag was already
// false. An early return taken before the flag is looked at (the "context is cancelled, nothing
// to do" exit hoisted out of the !holding branch) returns with the permit still held: after
// enough cancelled Runs every permit has leaked and later Runs block forever.
func reIncReleaseShape(w *World) {
	w.rule("RE")
	rel := w.fn(incRel, "(*Task).release")
	holding := w.field(incRel, "Task", "holding")
	if rel == nil || holding == nil {
		return
	}
	info := rel.Pkg.TypesInfo
	recv := ""
	if rel.Decl.Recv != nil && len(rel.Decl.Recv.List) == 1 && len(rel.Decl.Recv.List[0].Names) == 1 {
		recv = rel.Decl.Recv.List[0].Names[0].Name
	}
	isOwnFlag := func(e ast.Expr) bool {
		s, ok := ast.Unparen(e).(*ast.SelectorExpr)
		if !ok || selField(info, s) != holding {
			return false
		}
		id, ok := ast.Unparen(s.X).(*ast.Ident)
		return ok && id.Name == recv
	}
	g := buildCFG(info, rel.Decl.Body)
	d := &Dataflow{G: g, Must: true, Init: Facts{}}
	d.Transfer = func(n ast.Node, in Facts) Facts {
		out := in
		inspectPost(n, func(x ast.Node) {
			switch s := x.(type) {
			case *ast.CallExpr:
				if f := callee(info, s); f != nil && f.Name() == "Release" && f.Pkg() != nil && strings.HasSuffix(f.Pkg().Path(), "semaphore") {
					out = out.with("released")
				}
			case *ast.AssignStmt:
				for i, l := range s.Lhs {
					if !isOwnFlag(l) || i >= len(s.Rhs) {
						continue
					}
					if id, ok := ast.Unparen(s.Rhs[i]).(*ast.Ident); ok && id.Name == "false" {
						out = out.with("cleared").without("notholding")
					} else {
						out = out.without("cleared").without("notholding").without("released").without("safe")
					}
				}
			}
		})
		// "safe" is the disjunction (released ∧ cleared) ∨ notholding, kept as one fact so that
		// it survives the join of paths that are safe for different reasons (a switch with one
		// arm per case)
		if (out["released"] && out["cleared"]) || out["notholding"] {
			out = out.with("safe")
		}
		return out
	}
	d.Branch = func(leaf ast.Expr, truth bool, s Facts) Facts {
		if isOwnFlag(leaf) && !truth {
			return s.with("notholding").with("safe")
		}
		return s
	}
	d.Run()
	var bad []string
	n := 0
	for _, e := range d.Exits(info, rel.Decl.Body.End()) {
		if e.Kind == "panic" {
			continue
		}
		if es, ok := e.Last.(*ast.ExprStmt); ok {
			if c, ok := es.X.(*ast.CallExpr); ok {
				if f := callee(info, c); f != nil && f.Name() == "abort" {
					continue
				}
			}
		}
		n++
		if e.State["safe"] {
			continue
		}
		bad = append(bad, w.pos(e.Pos))
	}
	if n == 0 {
		w.undecided("release-gives-back", rel.Decl.Pos(), "Task.release has no normal exit in its control-flow graph")
		return
	}
	if len(bad) == 0 {
		w.ok("release-gives-back", rel.Decl.Pos(), "every normal exit of Task.release has released the semaphore and cleared holding, or saw holding == false")
	} else {
		sort.Strings(bad)
		w.violation("release-gives-back", rel.Decl.Pos(), "Task.release can return (at "+strings.Join(bad, ", ")+") while the Task may still hold a permit: neither was the semaphore released and holding cleared, nor was holding seen to be false on that path; each such return leaks a permit and later Runs block once all have leaked")
	}
}

// RC3c (C34): the predecessor map of the cycle search records first visits only. checkCycle does a
// breadth-first search and then reconstructs the cycle by following pred[x] from the caller's
// task back to the start. That walk terminates because pred is a tree: an entry is written once,
// when its key is first discovered, and never overwritten by a later edge — an overwrite by an
// edge found later can point a node at a descendant of itself, and the reconstruction loop
// `for cur := pred[c]; cur != nil && cur != t; cur = pred[cur]` then never ends (a hang instead
// of the ErrCycle the property requires). Structurally: every store pred[k] = v is on the
// not-present edge of a comma-ok lookup of pred[k] (in the same callback or function body).
func rc3cPredecessorTree(w *World) {
	w.rule("RC3c")
	cc := w.fn(incRel, "(*task).checkCycle")
	if cc == nil {
		return
	}
	info := cc.Pkg.TypesInfo
	// the predecessor map: the map M of a loop whose post statement is cur = M[cur]
	var pred types.Object
	ast.Inspect(cc.Decl.Body, func(x ast.Node) bool {
		fs, ok := x.(*ast.ForStmt)
		if !ok || fs.Post == nil {
			return true
		}
		as, ok := fs.Post.(*ast.AssignStmt)
		if !ok || len(as.Lhs) != 1 || len(as.Rhs) != 1 {
			return true
		}
		ix, ok := ast.Unparen(as.Rhs[0]).(*ast.IndexExpr)
		if !ok || render(ix.Index) != render(as.Lhs[0]) {
			return true
		}
		if id, ok := ast.Unparen(ix.X).(*ast.Ident); ok {
			if _, isMap := info.TypeOf(id).Underlying().(*types.Map); isMap {
				pred = info.ObjectOf(id)
			}
		}
		return true
	})
	if pred == nil {
		w.info("predecessor-tree", cc.Decl.Pos(), "checkCycle has no reconstruction loop of the form cur = M[cur]; nothing to check")
		return
	}
	// the map may be built by a helper: M, … := t.search(…) makes the helper's returned map
	// variable (result position i) a predecessor map too
	preds := map[types.Object]bool{pred: true}
	scopes := []*ast.BlockStmt{cc.Decl.Body}
	ast.Inspect(cc.Decl.Body, func(x ast.Node) bool {
		as, ok := x.(*ast.AssignStmt)
		if !ok || len(as.Rhs) != 1 {
			return true
		}
		call, ok := ast.Unparen(as.Rhs[0]).(*ast.CallExpr)
		if !ok {
			return true
		}
		g := callee(info, call)
		if g == nil || g.Pkg() != cc.Pkg.Types {
			return true
		}
		gd := w.decls[g.Origin()]
		if gd == nil || gd.Body == nil {
			return true
		}
		for i, l := range as.Lhs {
			id, ok := l.(*ast.Ident)
			if !ok || info.ObjectOf(id) != pred {
				continue
			}
			scopes = append(scopes, gd.Body)
			ast.Inspect(gd.Body, func(y ast.Node) bool {
				if _, ok := y.(*ast.FuncLit); ok {
					return false
				}
				if rs, ok := y.(*ast.ReturnStmt); ok && i < len(rs.Results) {
					if rid, ok := ast.Unparen(rs.Results[i]).(*ast.Ident); ok {
						if o := info.ObjectOf(rid); o != nil {
							if _, isMap := o.Type().Underlying().(*types.Map); isMap {
								preds[o] = true
							}
						}
					}
				}
				return true
			})
			// named results
			if gd.Type.Results != nil {
				k := 0
				for _, fld := range gd.Type.Results.List {
					for _, nm := range fld.Names {
						if k == i {
							if o := info.ObjectOf(nm); o != nil {
								preds[o] = true
							}
						}
						k++
					}
				}
			}
		}
		return true
	})
	isPredIndex := func(e ast.Expr) (string, bool) {
		ix, ok := ast.Unparen(e).(*ast.IndexExpr)
		if !ok {
			return "", false
		}
		id, ok := ast.Unparen(ix.X).(*ast.Ident)
		if !ok || !preds[info.ObjectOf(id)] {
			return "", false
		}
		return render(ix.Index), true
	}
	nStores, bad := 0, 0
	var allBodies []*ast.BlockStmt
	for _, sc := range scopes {
		allBodies = append(allBodies, closureBodiesAndSelf(sc)...)
	}
	for _, body := range allBodies {
		has := false
		ast.Inspect(body, func(x ast.Node) bool {
			if fl, ok := x.(*ast.FuncLit); ok && fl.Body != body {
				return false
			}
			if as, ok := x.(*ast.AssignStmt); ok {
				for _, l := range as.Lhs {
					if _, ok := isPredIndex(l); ok {
						has = true
					}
				}
			}
			return true
		})
		if !has {
			continue
		}
		g := buildCFG(info, body)
		d := &Dataflow{G: g, Must: true, Init: Facts{}}
		d.Transfer = func(n ast.Node, in Facts) Facts {
			out := in
			as, ok := n.(*ast.AssignStmt)
			if !ok {
				return out
			}
			// _, ok := M[k]  (or v, ok := M[k])
			if len(as.Lhs) == 2 && len(as.Rhs) == 1 {
				if k, ok := isPredIndex(as.Rhs[0]); ok {
					if id, ok := as.Lhs[1].(*ast.Ident); ok && id.Name != "_" {
						for f := range out {
							if strings.HasPrefix(f, "okvar:"+id.Name+"=") {
								out = out.without(f)
							}
						}
						out = out.with("okvar:" + id.Name + "=" + k)
					}
					return out
				}
			}
			for _, l := range as.Lhs {
				if k, ok := isPredIndex(l); ok {
					out = out.without("absent:" + k)
					continue
				}
				// the key variable or an ok variable reassigned: forget what was known about it
				if id, ok := l.(*ast.Ident); ok {
					for f := range out {
						if strings.HasPrefix(f, "okvar:"+id.Name+"=") || strings.HasSuffix(f, "="+id.Name) || f == "absent:"+id.Name {
							out = out.without(f)
						}
					}
				}
			}
			return out
		}
		d.Branch = func(leaf ast.Expr, truth bool, s Facts) Facts {
			if id, ok := ast.Unparen(leaf).(*ast.Ident); ok && !truth {
				for f := range s {
					if strings.HasPrefix(f, "okvar:"+id.Name+"=") {
						return s.with("absent:" + strings.TrimPrefix(f, "okvar:"+id.Name+"="))
					}
				}
			}
			// M[k] == nil for a map of pointers: absent or nil, either way not yet a tree edge
			if be, ok := ast.Unparen(leaf).(*ast.BinaryExpr); ok && (be.Op == token.EQL && truth || be.Op == token.NEQ && !truth) {
				if k, ok := isPredIndex(be.X); ok && render(be.Y) == "nil" {
					return s.with("absent:" + k)
				}
			}
			return s
		}
		d.Run()
		d.Walk(func(_ *cfg.Block, n ast.Node, before Facts) {
			as, ok := n.(*ast.AssignStmt)
			if !ok {
				return
			}
			for _, l := range as.Lhs {
				k, ok := isPredIndex(l)
				if !ok {
					continue
				}
				nStores++
				if before["absent:"+k] {
					w.ok("predecessor-tree|"+render(l), l.Pos(), "the predecessor entry is stored on the not-present edge of a lookup of the same key")
				} else {
					bad++
					w.violation("predecessor-tree|"+render(l), l.Pos(), "checkCycle stores "+render(l)+" on a path where the key may already have a predecessor: a later edge overwrites the breadth-first tree, a node can end up with a descendant as its predecessor, and the reconstruction loop that follows the map never terminates — the Run hangs instead of returning ErrCycle")
				}
			}
		})
	}
	w.floor("stores into checkCycle's predecessor map", nStores, 1)
}

// closureBodiesAndSelf lists body and the bodies of the function literals inside it.
func closureBodiesAndSelf(body *ast.BlockStmt) []*ast.BlockStmt {
	out := []*ast.BlockStmt{body}
	ast.Inspect(body, func(x ast.Node) bool {
		if fl, ok := x.(*ast.FuncLit); ok {
			out = append(out, fl.Body)
		}
		return true
	})
	return out
}

// RU5b (C36): the merged report does not alias a task's report. Run concatenates the reports of
// the visited tasks and then canonicalizes the result in place (sort, mark, compact). Tasks are
// cached and shared, so the accumulator must own its array: inside Run (and the helpers it calls
// for the collection) a task's Diagnostics slice may be read — ranged over, measured, passed as
// the variadic source of append or to a copying call — but never assigned to another slice
// variable or field, re-sliced into one, clipped into one, or used as the destination (first)
// argument of append: each of these lets the later in-place sort/compaction, or the next append
// into spare capacity, rewrite the cached report of a task, and the next Run that is served from
// the cache reports different diagnostics than a fresh computation.
func ru5bMergedReportOwnsArray(w *World) {
	w.rule("RU5b")
	p := w.pkg(incRel)
	run := w.fn(incRel, "Run")
	taskT := w.typ(incRel, "task")
	if p == nil || run == nil || taskT == nil {
		return
	}
	info := p.TypesInfo
	bodies := []*ast.BlockStmt{run.Decl.Body}
	seenF := map[*types.Func]bool{run.Obj: true}
	for depth, frontier := 0, []*ast.BlockStmt{run.Decl.Body}; depth < 2 && len(frontier) > 0; depth++ {
		var next []*ast.BlockStmt
		for _, fb := range frontier {
			ast.Inspect(fb, func(x ast.Node) bool {
				if c, ok := x.(*ast.CallExpr); ok {
					if f := callee(info, c); f != nil && f.Pkg() == p.Types && !seenF[f.Origin()] {
						seenF[f.Origin()] = true
						if d := w.decls[f.Origin()]; d != nil && d.Body != nil {
							bodies = append(bodies, d.Body)
							next = append(next, d.Body)
						}
					}
				}
				return true
			})
		}
		frontier = next
	}
	// a field of a task (node.report), possibly behind & or *
	isTaskFieldExpr := func(e ast.Expr) bool {
		e = ast.Unparen(e)
		if u, ok := e.(*ast.UnaryExpr); ok && u.Op == token.AND {
			e = ast.Unparen(u.X)
		}
		if st, ok := e.(*ast.StarExpr); ok {
			e = ast.Unparen(st.X)
		}
		in, ok := e.(*ast.SelectorExpr)
		if !ok || selField(info, in) == nil {
			return false
		}
		t := info.TypeOf(in.X)
		if pt, ok := t.(*types.Pointer); ok {
			t = pt.Elem()
		}
		n, ok := t.(*types.Named)
		return ok && n.Origin() == taskT.Origin()
	}
	// locals that stand for a task's report (rep := node.report / &node.report) and locals that
	// share a task's Diagnostics array (d := node.report.Diagnostics), to a fixpoint
	repLocal := map[types.Object]bool{}
	sliceLocal := map[types.Object]bool{}
	var aliases func(e ast.Expr) bool
	// a read of <task>.report.Diagnostics (the Diagnostics field reached through a field of a task)
	isTaskDiags := func(e ast.Expr) bool {
		sel, ok := ast.Unparen(e).(*ast.SelectorExpr)
		if !ok || sel.Sel.Name != "Diagnostics" || selField(info, sel) == nil {
			return false
		}
		if isTaskFieldExpr(sel.X) {
			return true
		}
		if id, ok := ast.Unparen(sel.X).(*ast.Ident); ok && repLocal[info.ObjectOf(id)] {
			return true
		}
		return false
	}
	localOf := func(e ast.Expr) types.Object {
		id, ok := ast.Unparen(e).(*ast.Ident)
		if !ok || id.Name == "_" {
			return nil
		}
		o := info.ObjectOf(id)
		if v, ok := o.(*types.Var); ok && !v.IsField() && v.Parent() != nil && v.Parent() != p.Types.Scope() {
			return o
		}
		return nil
	}
	// does evaluating e yield a slice that shares the task's array?
	aliases = func(e ast.Expr) bool {
		e = ast.Unparen(e)
		if isTaskDiags(e) {
			return true
		}
		if id, ok := e.(*ast.Ident); ok && sliceLocal[info.ObjectOf(id)] {
			return true
		}
		switch x := e.(type) {
		case *ast.SliceExpr:
			return aliases(x.X)
		case *ast.CallExpr:
			if isBuiltinCall(info, x, "append") && len(x.Args) > 0 {
				return aliases(x.Args[0])
			}
			if f := callee(info, x); f != nil && f.Pkg() != nil && f.Pkg().Path() == "slices" && len(x.Args) > 0 {
				switch f.Name() {
				case "Clip", "Grow", "Compact", "CompactFunc", "Delete", "DeleteFunc", "Insert":
					return aliases(x.Args[0])
				}
			}
		}
		return false
	}
	for changed := true; changed; {
		changed = false
		for _, b := range bodies {
			ast.Inspect(b, func(x ast.Node) bool {
				as, ok := x.(*ast.AssignStmt)
				if !ok || len(as.Lhs) != len(as.Rhs) {
					return true
				}
				for i, r := range as.Rhs {
					o := localOf(as.Lhs[i])
					if o == nil {
						continue
					}
					if isTaskFieldExpr(r) && !repLocal[o] {
						if _, isSlice := info.TypeOf(r).Underlying().(*types.Slice); !isSlice {
							repLocal[o], changed = true, true
						}
					}
					if aliases(r) && !sliceLocal[o] {
						sliceLocal[o], changed = true, true
					}
				}
				return true
			})
		}
	}
	nReads, bad := 0, 0
	for _, b := range bodies {
		ast.Inspect(b, func(x ast.Node) bool {
			if e, ok := x.(ast.Expr); ok && isTaskDiags(e) {
				nReads++
			}
			switch s := x.(type) {
			case *ast.AssignStmt:
				for i, r := range s.Rhs {
					// a local that merely names the task's slice is tracked above; what is reported
					// is a store into a structure, or growing / re-slicing the task's slice
					if len(s.Lhs) == len(s.Rhs) && localOf(s.Lhs[i]) != nil {
						if c, ok := ast.Unparen(r).(*ast.CallExpr); !ok || !isBuiltinCall(info, c, "append") {
							continue
						}
					}
					if aliases(r) {
						bad++
						w.violation("merged-report-owns-array|"+w.enclosingFunc(p, s.Pos()), s.Pos(), "`"+render(s.Lhs[0])+" = "+render(r)+"` makes a slice of the Run share the array of a cached task's report: the in-place canonicalization (or a later append into spare capacity) rewrites that task's diagnostics, and later Runs served from the cache report something else than a fresh computation")
					}
				}
			case *ast.CallExpr:
				// in-place operations applied to the task's slice directly
				if f := callee(info, s); f != nil && f.Pkg() != nil && len(s.Args) > 0 && aliases(s.Args[0]) {
					pk, nm := f.Pkg().Path(), f.Name()
					if (pk == "slices" && (strings.HasPrefix(nm, "Sort") || nm == "Reverse")) || (pk == "sort" && (nm == "Slice" || nm == "SliceStable" || nm == "Sort" || nm == "Stable")) {
						bad++
						w.violation("merged-report-owns-array|"+w.enclosingFunc(p, s.Pos()), s.Pos(), "`"+render(s)+"` reorders a cached task's report in place")
					}
				}
			case *ast.CompositeLit:
				for _, el := range s.Elts {
					if kv, ok := el.(*ast.KeyValueExpr); ok && aliases(kv.Value) {
						bad++
						w.violation("merged-report-owns-array|"+w.enclosingFunc(p, s.Pos()), kv.Pos(), "a report is built around the array of a cached task's report ("+render(kv.Value)+")")
					}
				}
			}
			return true
		})
	}
	w.floor("reads of a task's report.Diagnostics in Run's collection", nReads, 1)
	if bad == 0 {
		w.ok("merged-report-owns-array", run.Decl.Pos(), "Run only reads the tasks' Diagnostics slices (variadic append source); its accumulator owns its array")
	}
}

// RC5b (C05): a task judges its own file by its own handler. doCompile gives every task a
// sub-handler of the compile's handler (t.h = e.h.SubHandler()); whether *this file* failed is
// t.h.Error(). The executor's shared handler e.h turns erroneous as soon as *any* file reports an
// error, at a moment that depends on the schedule — a task that consults it (t.e.h) after its own
// work fails or succeeds depending on how far an unrelated file has got, so the per-file results
// of one Compile differ between runs and with the parallelism. A method of task may report to the
// executor's handler (as the executor's own cycle check does) but may ask it for its verdict
// (Error()) only where, on every path, it has just reported to it; any other read is reported.
func rc5bTaskUsesOwnHandler(w *World) {
	w.rule("RC5b")
	p := w.pkg("")
	eh := w.field("", "executor", "h")
	th := w.field("", "task", "h")
	taskT := w.typ("", "task")
	if p == nil || eh == nil || th == nil || taskT == nil {
		return
	}
	info := p.TypesInfo
	nOwn, bad := 0, 0
	for _, f := range p.Syntax {
		for _, dcl := range f.Decls {
			fd, ok := dcl.(*ast.FuncDecl)
			if !ok || fd.Body == nil || fd.Recv == nil || len(fd.Recv.List) != 1 {
				continue
			}
			rt := info.TypeOf(fd.Recv.List[0].Type)
			if pt, ok := rt.(*types.Pointer); ok {
				rt = pt.Elem()
			}
			if n, ok := rt.(*types.Named); !ok || n.Origin() != taskT.Origin() {
				continue
			}
			parents := parentMap(fd)
			// reporting to the shared handler (passing it to a reporting function, or calling one of
			// its Handle* methods) is what the executor's own cycle check does; what a task must not
			// do is ask the shared handler for its verdict — Error() — unless, on every path to that
			// call, this function has just reported to the same handler (it returns the error it
			// reported, like checkForDependencyCycle)
			isSharedRead := func(x ast.Node) *ast.SelectorExpr {
				sel, ok := x.(*ast.SelectorExpr)
				if ok && selField(info, sel) == eh {
					return sel
				}
				return nil
			}
			isReport := func(x ast.Node) bool {
				c, ok := x.(*ast.CallExpr)
				if !ok {
					return false
				}
				for _, a := range c.Args {
					if isSharedRead(ast.Unparen(a)) != nil {
						return true
					}
				}
				if ms, ok := ast.Unparen(c.Fun).(*ast.SelectorExpr); ok && isSharedRead(ast.Unparen(ms.X)) != nil && strings.HasPrefix(ms.Sel.Name, "Handle") {
					return true
				}
				return false
			}
			isVerdict := func(x ast.Node) bool {
				c, ok := x.(*ast.CallExpr)
				if !ok {
					return false
				}
				ms, ok := ast.Unparen(c.Fun).(*ast.SelectorExpr)
				return ok && ms.Sel.Name == "Error" && isSharedRead(ast.Unparen(ms.X)) != nil
			}
			_, unreported := mustPrecede(info, fd.Body, isReport, isVerdict)
			badVerdict := map[ast.Node]bool{}
			for _, b := range unreported {
				badVerdict[b] = true
			}
			ast.Inspect(fd.Body, func(x ast.Node) bool {
				sel, ok := x.(*ast.SelectorExpr)
				if !ok {
					return true
				}
				switch selField(info, sel) {
				case th:
					nOwn++
				case eh:
					// classify the use
					var call *ast.CallExpr
					if ms, ok := parents[sel].(*ast.SelectorExpr); ok && ms.X == ast.Expr(sel) {
						call, _ = parents[ms].(*ast.CallExpr)
					} else if c, ok := parents[sel].(*ast.CallExpr); ok {
						call = c
					}
					switch {
					case call != nil && isVerdict(call) && !badVerdict[call]:
						// returns the error it has just reported to the shared handler
					case call != nil && isReport(call):
						// a report to the shared handler
					default:
						bad++
						w.violation("task-own-handler|"+fd.Name.Name, sel.Pos(), "task."+fd.Name.Name+" reads the executor's shared handler ("+render(sel)+"): whether it has seen an error depends on how far other files have got, so this file's result depends on the schedule; the task's verdict is its own sub-handler's (t.h)")
					}
				}
				return true
			})
		}
	}
	w.floor("uses of the task's own handler in task methods", nOwn, 6)
	if bad == 0 {
		w.ok("task-own-handler", taskT.Obj().Pos(), "no method of task takes its verdict from executor.h (reports to it aside); every verdict goes through the task's sub-handler")
	}
}
