package main

import (
	"fmt"
	"go/ast"
	"go/token"
	"go/types"
	"os"
	"path/filepath"
	"sort"
	"strings"
	"time"

	"golang.org/x/tools/go/packages"
)

const modPath = "github.com/bufbuild/protocompile"

// Verdicts of an obligation.
const (
	VOK        = "ok"
	VViolation = "violation"
	VUndecided = "undecided"
	VInfo      = "info"
)

// Obligation is one decided (or undecided) instance of a rule.
type Obligation struct {
	Rule       string   `json:"rule"`
	Key        string   `json:"key"`
	Pos        string   `json:"pos"`
	Verdict    string   `json:"verdict"`
	Reason     string   `json:"reason"`
	Nontrivial bool     `json:"nontrivial,omitempty"`
	Witness    []string `json:"witness,omitempty"`
	Tags       string   `json:"tags,omitempty"`
}

// World is the loaded, type-checked program plus everything rules record.
type World struct {
	RepoDir string
	Tags    string
	Fset    *token.FileSet
	Roots   []*packages.Package          // packages of the module
	ByPath  map[string]*packages.Package // all packages incl. dependencies
	decls   map[*types.Func]*ast.FuncDecl
	declPkg map[*types.Func]*packages.Package

	Obls        []Obligation
	FuncsSeen   map[string]bool
	CallSites   int
	curRule     string
	LoadSeconds float64

	ssa *ssaState // lazily built (ssa.go)
}

func repoDir() string {
	if d := os.Getenv("VERIF_REPO"); d != "" {
		return d
	}
	return "/repo"
}

// Load type-checks the whole module from source with the given build tags.
func Load(dir, tags string) (*World, error) {
	t0 := time.Now()
	fset := token.NewFileSet()
	goroot := os.Getenv("VERIF_GOROOT")
	if goroot == "" {
		goroot = "/opt/veriftools/go1.26.8"
	}
	if !strings.HasPrefix(os.Getenv("PATH"), goroot+"/bin:") {
		// go/packages looks up "go" through this process's PATH
		os.Setenv("PATH", goroot+"/bin:"+os.Getenv("PATH"))
	}
	env := append(os.Environ(), "GOWORK=off", "GOFLAGS=-mod=mod", "GOPROXY=off", "GOSUMDB=off", "GOTOOLCHAIN=local", "GOROOT="+goroot)
	cfg := &packages.Config{
		Mode:  packages.LoadAllSyntax,
		Dir:   dir,
		Fset:  fset,
		Env:   env,
		Tests: false,
	}
	if tags != "" {
		cfg.BuildFlags = []string{"-tags=" + tags}
	}
	pkgs, err := packages.Load(cfg, "./...")
	if err != nil {
		return nil, fmt.Errorf("load: %w", err)
	}
	w := &World{RepoDir: dir, Tags: tags, Fset: fset, ByPath: map[string]*packages.Package{},
		decls: map[*types.Func]*ast.FuncDecl{}, declPkg: map[*types.Func]*packages.Package{},
		FuncsSeen: map[string]bool{}}
	var errs []string
	packages.Visit(pkgs, nil, func(p *packages.Package) {
		w.ByPath[p.PkgPath] = p
		if strings.HasPrefix(p.PkgPath, modPath) {
			for _, e := range p.Errors {
				errs = append(errs, e.Error())
			}
		}
	})
	for _, p := range pkgs {
		if strings.HasPrefix(p.PkgPath, modPath) {
			w.Roots = append(w.Roots, p)
		}
	}
	sort.Slice(w.Roots, func(i, j int) bool { return w.Roots[i].PkgPath < w.Roots[j].PkgPath })
	if len(errs) > 0 {
		return nil, fmt.Errorf("type errors in module (undecidable): %s", strings.Join(errs[:min(len(errs), 5)], "; "))
	}
	if len(w.Roots) < 80 {
		return nil, fmt.Errorf("only %d module packages loaded (expected >= 80)", len(w.Roots))
	}
	for _, p := range w.Roots {
		for _, f := range p.Syntax {
			for _, d := range f.Decls {
				if fd, ok := d.(*ast.FuncDecl); ok {
					if obj, ok := p.TypesInfo.Defs[fd.Name].(*types.Func); ok {
						w.decls[obj] = fd
						gDecls[obj] = fd
						gInfos[obj] = p.TypesInfo
						w.declPkg[obj] = p
					}
				}
			}
		}
	}
	w.LoadSeconds = time.Since(t0).Seconds()
	return w, nil
}

// ---- obligations -----------------------------------------------------------

func (w *World) rule(r string) { w.curRule = r }

func (w *World) add(verdict, key string, pos token.Pos, nontrivial bool, reason string, witness ...string) {
	w.Obls = append(w.Obls, Obligation{Rule: w.curRule, Key: w.curRule + "|" + key, Pos: w.pos(pos),
		Verdict: verdict, Reason: reason, Nontrivial: nontrivial, Witness: witness, Tags: w.Tags})
}
func (w *World) ok(key string, pos token.Pos, reason string) { w.add(VOK, key, pos, true, reason) }
func (w *World) okTrivial(key string, pos token.Pos, reason string) {
	w.add(VOK, key, pos, false, reason)
}
func (w *World) violation(key string, pos token.Pos, reason string, witness ...string) {
	w.add(VViolation, key, pos, true, reason, witness...)
}
func (w *World) undecided(key string, pos token.Pos, reason string) {
	w.add(VUndecided, key, pos, true, reason)
}
func (w *World) info(key string, pos token.Pos, reason string) { w.add(VInfo, key, pos, false, reason) }

// floor guards a rule against passing vacuously: the number of instances it matched must not fall
// far below the number confirmed by hand on the tree the rule was written for. Small merges and
// extractions (two call sites folded into a helper) are routine maintenance, so the threshold is
// two thirds of the confirmed count (one for a count of 2, exact for 1); a matcher that rotted finds none
// or a fraction and still fails.
func (w *World) floor(name string, got, want int) {
	eff := want
	if want > 2 {
		eff = (2*want + 2) / 3
	} else if want == 2 {
		eff = 1 // two call sites folded into one helper is routine maintenance
	}
	if got < eff {
		w.undecided("floor:"+name, token.NoPos, fmt.Sprintf("rule matched %d instance(s) of %s, fewer than the floor %d (%d confirmed by hand): the anchored code moved or the matcher rotted; review", got, name, eff, want))
	} else {
		w.okTrivial("floor:"+name, token.NoPos, fmt.Sprintf("%d instance(s) of %s (floor %d, %d confirmed by hand)", got, name, eff, want))
	}
}

func (w *World) pos(p token.Pos) string {
	if !p.IsValid() {
		return ""
	}
	ps := w.Fset.Position(p)
	rel, err := filepath.Rel(w.RepoDir, ps.Filename)
	if err != nil || strings.HasPrefix(rel, "..") {
		rel = ps.Filename
	}
	return fmt.Sprintf("%s:%d:%d", rel, ps.Line, ps.Column)
}

// ---- anchors ---------------------------------------------------------------

// pkg returns the module package with the given path relative to the module root ("" = root).
func (w *World) pkg(rel string) *packages.Package {
	path := modPath
	if rel != "" {
		path += "/" + rel
	}
	p := w.ByPath[path]
	if p == nil {
		w.undecided("anchor:pkg:"+rel, token.NoPos, "anchor package "+path+" not found")
	}
	return p
}

// FuncRef is a resolved function anchor.
type FuncRef struct {
	Obj  *types.Func
	Decl *ast.FuncDecl
	Pkg  *packages.Package
	Name string // display name pkg.(*T).M
}

// gDecls / gInfos: declarations and type info of every module function of the loaded world (used by the
// expression evaluators to inline small predicate functions).
var (
	gDecls = map[*types.Func]*ast.FuncDecl{}
	gInfos = map[*types.Func]*types.Info{}
)

// fn resolves "Name" (package function) or "(*T).M" / "T.M" (method) in a module package.
func (w *World) fn(rel, name string) *FuncRef {
	p := w.pkg(rel)
	if p == nil {
		return nil
	}
	disp := p.Types.Name() + "." + name
	var obj *types.Func
	if strings.Contains(name, ".") {
		parts := strings.SplitN(name, ".", 2)
		tn := strings.Trim(parts[0], "(*)")
		if o, ok := p.Types.Scope().Lookup(tn).(*types.TypeName); ok {
			if named, ok := o.Type().(*types.Named); ok {
				for i := 0; i < named.NumMethods(); i++ {
					if named.Method(i).Name() == parts[1] {
						obj = named.Method(i)
					}
				}
			}
		}
	} else if o, ok := p.Types.Scope().Lookup(name).(*types.Func); ok {
		obj = o
	}
	if obj == nil || w.decls[obj] == nil {
		w.undecided("anchor:func:"+disp, token.NoPos, "anchor function "+disp+" no longer resolves; the rule cannot be decided")
		return nil
	}
	w.FuncsSeen[disp] = true
	return &FuncRef{Obj: obj, Decl: w.decls[obj], Pkg: p, Name: disp}
}

// typ resolves a named type in a module package.
func (w *World) typ(rel, name string) *types.Named {
	p := w.pkg(rel)
	if p == nil {
		return nil
	}
	if o, ok := p.Types.Scope().Lookup(name).(*types.TypeName); ok {
		if n, ok := o.Type().(*types.Named); ok {
			return n
		}
	}
	w.undecided("anchor:type:"+rel+"."+name, token.NoPos, "anchor type no longer resolves")
	return nil
}

// field resolves a struct field object.
func (w *World) field(rel, typeName, fieldName string) *types.Var {
	n := w.typ(rel, typeName)
	if n == nil {
		return nil
	}
	if st, ok := n.Underlying().(*types.Struct); ok {
		for i := 0; i < st.NumFields(); i++ {
			if st.Field(i).Name() == fieldName {
				return st.Field(i)
			}
		}
	}
	w.undecided("anchor:field:"+rel+"."+typeName+"."+fieldName, token.NoPos, "anchor field no longer resolves")
	return nil
}

// funcName gives a stable display name for a function object.
func funcName(f *types.Func) string {
	if f == nil {
		return "<nil>"
	}
	sig, _ := f.Type().(*types.Signature)
	pkg := ""
	if f.Pkg() != nil {
		pkg = f.Pkg().Name() + "."
	}
	if sig != nil && sig.Recv() != nil {
		t := sig.Recv().Type()
		ptr := ""
		if p, ok := t.(*types.Pointer); ok {
			t = p.Elem()
			ptr = "*"
		}
		tn := t.String()
		if n, ok := t.(*types.Named); ok {
			tn = n.Obj().Name()
		}
		if ptr != "" {
			return pkg + "(*" + tn + ")." + f.Name()
		}
		return pkg + tn + "." + f.Name()
	}
	return pkg + f.Name()
}

// fullFuncName includes the package path (for functions outside the module).
func fullFuncName(f *types.Func) string {
	if f == nil {
		return "<nil>"
	}
	n := funcName(f)
	if f.Pkg() != nil {
		n = f.Pkg().Path() + ":" + strings.TrimPrefix(n, f.Pkg().Name()+".")
	}
	return n
}

// callee resolves the static callee of a call (function, method, or interface method object).
func callee(info *types.Info, call *ast.CallExpr) *types.Func {
	fun := ast.Unparen(call.Fun)
	switch f := fun.(type) {
	case *ast.IndexExpr:
		fun = ast.Unparen(f.X)
	case *ast.IndexListExpr:
		fun = ast.Unparen(f.X)
	}
	switch f := fun.(type) {
	case *ast.Ident:
		if o, ok := info.Uses[f].(*types.Func); ok {
			return o
		}
	case *ast.SelectorExpr:
		if sel := info.Selections[f]; sel != nil {
			if o, ok := sel.Obj().(*types.Func); ok {
				return o
			}
			return nil
		}
		if o, ok := info.Uses[f.Sel].(*types.Func); ok {
			return o
		}
	}
	return nil
}

func isBuiltinCall(info *types.Info, call *ast.CallExpr, name string) bool {
	if id, ok := ast.Unparen(call.Fun).(*ast.Ident); ok && id.Name == name {
		_, ok := info.Uses[id].(*types.Builtin)
		return ok
	}
	return false
}

// isFunc reports whether f is the function pkgPath.name or method pkgPath.(T).name
func isFunc(f *types.Func, pkgPath, recv, name string) bool {
	if f == nil || f.Name() != name || f.Pkg() == nil || f.Pkg().Path() != pkgPath {
		return false
	}
	sig := f.Type().(*types.Signature)
	if recv == "" {
		return sig.Recv() == nil
	}
	if sig.Recv() == nil {
		return false
	}
	t := sig.Recv().Type()
	if p, ok := t.(*types.Pointer); ok {
		t = p.Elem()
	}
	if n, ok := t.(*types.Named); ok {
		return n.Obj().Name() == recv
	}
	return false
}

// render prints an expression compactly (identity of lock / receiver operands).
func render(e ast.Expr) string {
	switch x := e.(type) {
	case *ast.Ident:
		return x.Name
	case *ast.SelectorExpr:
		return render(x.X) + "." + x.Sel.Name
	case *ast.ParenExpr:
		return render(x.X)
	case *ast.StarExpr:
		return render(x.X)
	case *ast.UnaryExpr:
		if x.Op == token.AND {
			return render(x.X)
		}
		return x.Op.String() + render(x.X)
	case *ast.IndexExpr:
		return render(x.X) + "[" + render(x.Index) + "]"
	case *ast.CallExpr:
		return render(x.Fun) + "()"
	case *ast.BasicLit:
		return x.Value
	}
	return types.ExprString(e)
}

// enclosing function display name for an ast position within a package.
func (w *World) enclosingFunc(p *packages.Package, pos token.Pos) string {
	for _, f := range p.Syntax {
		if f.Pos() <= pos && pos <= f.End() {
			for _, d := range f.Decls {
				if fd, ok := d.(*ast.FuncDecl); ok && fd.Pos() <= pos && pos <= fd.End() {
					if obj, ok := p.TypesInfo.Defs[fd.Name].(*types.Func); ok {
						return funcName(obj)
					}
				}
			}
			return p.Types.Name() + ".<file-scope>"
		}
	}
	return "?"
}

// moduleFuncs iterates over every function declaration with a body in the module packages
// whose path (relative to the module) has one of the given prefixes ("" matches root only when exact).
func (w *World) funcsIn(rels ...string) []*FuncRef {
	var out []*FuncRef
	for _, p := range w.Roots {
		rel := strings.TrimPrefix(strings.TrimPrefix(p.PkgPath, modPath), "/")
		match := false
		for _, r := range rels {
			if rel == r {
				match = true
			}
		}
		if !match {
			continue
		}
		for _, f := range p.Syntax {
			for _, d := range f.Decls {
				if fd, ok := d.(*ast.FuncDecl); ok && fd.Body != nil {
					if obj, ok := p.TypesInfo.Defs[fd.Name].(*types.Func); ok {
						out = append(out, &FuncRef{Obj: obj, Decl: fd, Pkg: p, Name: funcName(obj)})
					}
				}
			}
		}
	}
	return out
}

func readFile(path string) ([]byte, error) { return os.ReadFile(path) }
