package main

import (
	"fmt"
	"go/ast"
	"go/constant"
	"go/token"
	"go/types"
	"strings"
)

// RQ12 (C12): a raw rune is handed to the generated parser as a token code only when it is one of
// the ASCII punctuation characters. goyacc's named tokens (_NAME, _MESSAGE, …) are numbered from
// 57346 (U+E002) upwards, inside the rune space: if Lex returns int(c) for a rune outside ASCII,
// a private-use character arrives in the parser as a keyword token whose semantic value was never
// set — the actions dereference a nil identifier (panic), or the file parses with no error.
// For each `return <int conversion of the rune variable>` in (*protoLex).Lex the rule computes,
// for every value of a finite model of runes (all of ASCII, the Latin-1 edge, code points whose
// low byte is a punctuation byte, the token-code range U+E000..U+E0FF, U+FFFD, U+10FFFF), whether
// the return is reachable: enclosing conditions and the earlier early-exit guards of every
// enclosing statement list are evaluated three-valued on the rune (comparisons with constants,
// strings.ContainsRune on a constant, small predicate functions inlined); an undecidable
// condition counts as passable. Reachable with a value >= 128 is a violation.
func rq12RawRuneTokens(w *World) {
	w.rule("RQ12")
	lex := w.fn("parser", "(*protoLex).Lex")
	if lex == nil {
		return
	}
	info := lex.Pkg.TypesInfo
	parents := parentMap(lex.Decl)
	model := []int64{}
	for ch := int64(0); ch < 128; ch++ {
		model = append(model, ch)
	}
	model = append(model, 128, 0xA0, 0xFF, 0x100, 0x2028, 0xFFFD, 0xFEFF, 0x10FFFF)
	for _, p := range ";,.:=-+(){}[]<>/" {
		model = append(model, 0x100+int64(p), 0xE000+int64(p), 0x10000+int64(p))
	}
	for ch := int64(0xE000); ch < 0xE100; ch++ {
		model = append(model, ch)
	}
	terminates := func(bl *ast.BlockStmt) bool {
		if len(bl.List) == 0 {
			return false
		}
		switch s := bl.List[len(bl.List)-1].(type) {
		case *ast.ReturnStmt:
			return true
		case *ast.BranchStmt:
			return s.Tok == token.CONTINUE || s.Tok == token.BREAK || s.Tok == token.GOTO
		case *ast.ExprStmt:
			if c, ok := s.X.(*ast.CallExpr); ok && isBuiltinCall(info, c, "panic") {
				return true
			}
		}
		return false
	}
	n := 0
	ast.Inspect(lex.Decl.Body, func(x ast.Node) bool {
		if _, isLit := x.(*ast.FuncLit); isLit {
			return false
		}
		ret, ok := x.(*ast.ReturnStmt)
		if !ok || len(ret.Results) == 0 {
			return true
		}
		conv, ok := ast.Unparen(ret.Results[0]).(*ast.CallExpr)
		if !ok || len(conv.Args) != 1 {
			return true
		}
		tv, ok := info.Types[conv.Fun]
		if !ok || !tv.IsType() {
			return true
		}
		if atv, ok := info.Types[conv.Args[0]]; !ok || atv.Value != nil {
			return true
		}
		at := info.TypeOf(conv.Args[0])
		if bt, ok := at.Underlying().(*types.Basic); !ok || bt.Kind() != types.Int32 {
			return true
		}
		v := render(conv.Args[0])
		n++
		// path condition: a list of three-valued predicates over the rune value
		type pred func(val int64) tri
		var conds []pred
		litp := func(e ast.Expr, truth bool) pred {
			return func(val int64) tri {
				t := evalWithStrings(info, e, v, val)
				if truth || t == triUnknown {
					return t
				}
				if t == triTrue {
					return triFalse
				}
				return triTrue
			}
		}
		// membership of the rune in a case list of `switch <rune> {…}`
		inList := func(list []ast.Expr, val int64) tri {
			res := triFalse
			for _, ce := range list {
				tv, ok := info.Types[ce]
				if !ok || tv.Value == nil {
					res = triUnknown
					continue
				}
				if cv, ok := constInt(tv); ok && cv == val {
					return triTrue
				}
			}
			return res
		}
		var child ast.Node = ret
		for cur := parents[ret]; cur != nil; child, cur = cur, parents[cur] {
			if ifs, ok := cur.(*ast.IfStmt); ok {
				if child == ast.Node(ifs.Body) {
					conds = append(conds, litp(ifs.Cond, true))
				} else if ifs.Else != nil && child == ifs.Else {
					conds = append(conds, litp(ifs.Cond, false))
				}
			}
			if cc, ok := cur.(*ast.CaseClause); ok {
				if blk, ok := parents[cc].(*ast.BlockStmt); ok {
					if sw, ok := parents[blk].(*ast.SwitchStmt); ok {
						switch {
						case sw.Tag != nil && render(sw.Tag) == v:
							if cc.List != nil {
								list := cc.List
								conds = append(conds, func(val int64) tri { return inList(list, val) })
							} else {
								for _, o := range sw.Body.List {
									if oc := o.(*ast.CaseClause); oc.List != nil {
										list := oc.List
										conds = append(conds, func(val int64) tri {
											switch inList(list, val) {
											case triTrue:
												return triFalse
											case triFalse:
												return triTrue
											}
											return triUnknown
										})
									}
								}
							}
						case sw.Tag == nil:
							for _, o := range sw.Body.List {
								oc := o.(*ast.CaseClause)
								if oc == cc {
									break
								}
								for _, ce := range oc.List {
									conds = append(conds, litp(ce, false))
								}
							}
							if len(cc.List) == 1 {
								conds = append(conds, litp(cc.List[0], true))
							}
						}
					}
				}
			}
			if list, idx := containingList(parents, child); idx > 0 {
				for j := 0; j < idx; j++ {
					if g, ok := list[j].(*ast.IfStmt); ok && g.Else == nil && terminates(g.Body) {
						conds = append(conds, litp(g.Cond, false))
					}
					// an earlier `switch <rune> {…}`: a clause that leaves excludes its values; a
					// default that leaves restricts the rune to the listed values
					if sw, ok := list[j].(*ast.SwitchStmt); ok && sw.Tag != nil && render(sw.Tag) == v {
						var all []ast.Expr
						for _, o := range sw.Body.List {
							all = append(all, o.(*ast.CaseClause).List...)
						}
						for _, o := range sw.Body.List {
							oc := o.(*ast.CaseClause)
							if !terminates(&ast.BlockStmt{List: oc.Body}) {
								continue
							}
							if oc.List != nil {
								l2 := oc.List
								conds = append(conds, func(val int64) tri {
									switch inList(l2, val) {
									case triTrue:
										return triFalse
									case triFalse:
										return triTrue
									}
									return triUnknown
								})
							} else {
								conds = append(conds, func(val int64) tri { return inList(all, val) })
							}
						}
					}
				}
			}
		}
		var reach []int64
		nAscii := 0
		for _, val := range model {
			feasible := true
			for _, c := range conds {
				if c(val) == triFalse {
					feasible = false
					break
				}
			}
			if feasible {
				if val >= 128 {
					reach = append(reach, val)
				} else {
					nAscii++
				}
			}
		}
		key := fmt.Sprintf("raw-rune-token|%s|return#%d %s", lex.Name, n, types.ExprString(ret.Results[0]))
		if len(reach) > 0 {
			var ex []string
			for i, r := range reach {
				if i == 4 {
					ex = append(ex, "…")
					break
				}
				ex = append(ex, fmt.Sprintf("U+%04X", r))
			}
			w.violation(key, ret.Pos(), fmt.Sprintf("Lex returns %s as the token code and the return is reachable for non-ASCII runes (%s; %d of the model): the generated parser numbers its named tokens from U+E002, so such a character is taken for a keyword or literal token whose value was never set (nil identifier ⇒ panic in the actions, or a file with an invalid character parses without an error)", types.ExprString(ret.Results[0]), strings.Join(ex, ", "), len(reach)))
		} else {
			w.ok(key, ret.Pos(), fmt.Sprintf("reachable only for %d ASCII values of %s (%d guards evaluated over a model of %d runes)", nAscii, v, len(conds), len(model)))
		}
		return true
	})
	w.floor("returns of a raw rune as token code in Lex", n, 4)
}

// RN7 (C22): fields are told apart by an identity that is injective over everything
// protoreflect.Message.Range can yield. The strip decides in one pass which fields of an options
// message go (or are replaced) and applies the decision in another; options messages consist
// mostly of *extensions*, and for an extension FieldDescriptor.Index() is its position inside the
// file or message that declares it, Name()/JSONName()/TextName() are relative to that scope as
// well: two custom options declared in different scopes (or a custom option and a regular field)
// share them. A set or map keyed by one of those removes or keeps the wrong option. Injective
// keys: the descriptor itself, Number() (unique inside one message, extensions included) and
// FullName(). The rule enumerates every field-identity site in the strip's files — a map index or
// a slices.Contains/Index needle derived from a protoreflect.FieldDescriptor — and classifies its
// key.
func rn7FieldIdentity(w *World) {
	w.rule("RN7")
	p := w.pkg("options")
	if p == nil {
		return
	}
	info := p.TypesInfo
	isFD := func(t types.Type) bool {
		return t != nil && strings.HasSuffix(t.String(), "protoreflect.FieldDescriptor")
	}
	// classify returns ("", false) when e is not derived from a FieldDescriptor
	var classify func(body *ast.BlockStmt, e ast.Expr, depth int) (string, bool)
	classify = func(body *ast.BlockStmt, e ast.Expr, depth int) (string, bool) {
		e = ast.Unparen(e)
		if isFD(info.TypeOf(e)) {
			return "descriptor", true
		}
		switch x := e.(type) {
		case *ast.CallExpr:
			if tv, ok := info.Types[x.Fun]; ok && tv.IsType() && len(x.Args) == 1 {
				return classify(body, x.Args[0], depth)
			}
			if sel, ok := ast.Unparen(x.Fun).(*ast.SelectorExpr); ok && len(x.Args) == 0 && isFD(info.TypeOf(sel.X)) {
				return sel.Sel.Name + "()", true
			}
		case *ast.Ident:
			if depth > 2 {
				return "", false
			}
			obj := info.Uses[x]
			if obj == nil {
				return "", false
			}
			// single definition `k := <expr>` in the same body
			var rhs ast.Expr
			nDefs := 0
			ast.Inspect(body, func(y ast.Node) bool {
				if as, ok := y.(*ast.AssignStmt); ok && len(as.Lhs) == len(as.Rhs) {
					for i, l := range as.Lhs {
						if id, ok := l.(*ast.Ident); ok && (info.Defs[id] == obj || info.Uses[id] == obj) {
							nDefs++
							rhs = as.Rhs[i]
						}
					}
				}
				return true
			})
			if nDefs == 1 {
				return classify(body, rhs, depth+1)
			}
		}
		return "", false
	}
	n := 0
	for _, b := range allFuncBodies(p) {
		if b.Lit != nil || !strings.HasSuffix(w.Fset.Position(b.Decl.Pos()).Filename, "source_retention_options.go") {
			continue
		}
		ord := map[string]int{}
		report := func(site ast.Node, what string, keyExpr ast.Expr) {
			kind, ok := classify(b.Body, keyExpr, 0)
			if !ok {
				return
			}
			n++
			ord[what]++
			key := fmt.Sprintf("field-identity|%s|%s#%d", b.Label, what, ord[what])
			switch kind {
			case "descriptor", "Number()", "FullName()":
				w.ok(key, site.Pos(), "fields are identified by "+kind+", which is distinct for every field and extension of one message")
			case "Index()", "Name()", "JSONName()", "TextName()":
				w.violation(key, site.Pos(), "fields are identified by FieldDescriptor."+kind+": for extensions (custom options) that value is relative to the declaring file or message, so two options declared in different scopes share it — the strip removes, keeps or replaces the wrong option")
			default:
				w.undecided(key, site.Pos(), "fields are identified by FieldDescriptor."+kind+"; not known to be injective over the fields and extensions of a message")
			}
		}
		ast.Inspect(b.Body, func(x ast.Node) bool {
			switch y := x.(type) {
			case *ast.IndexExpr:
				if t := info.TypeOf(y.X); t != nil {
					if _, isMap := t.Underlying().(*types.Map); isMap {
						report(y, "map "+render(y.X), y.Index)
					}
				}
			case *ast.CallExpr:
				if f := callee(info, y); f != nil && f.Pkg() != nil && f.Pkg().Path() == "slices" && len(y.Args) == 2 {
					switch f.Name() {
					case "Contains", "Index":
						report(y, "slices."+f.Name()+" "+render(y.Args[0]), y.Args[1])
					}
				}
			}
			return true
		})
	}
	w.floor("field-identity sites in the strip", n, 5)
}

func constInt(tv types.TypeAndValue) (int64, bool) {
	if tv.Value == nil {
		return 0, false
	}
	return constant.Int64Val(constant.ToInt(tv.Value))
}

// RL5 (C24): clones share no mutable package-level state. Every function of parser/clone.go may
// refer to package-level *variables* only when they are immutable in practice: error values, or
// maps/slices that the package never writes after initialisation. A pointer, struct, channel or
// function variable is an object every Clone call shares — e.g. a reporter.Handler hoisted out of
// Clone remembers its first error, so after one failed clone every later, unrelated clone fails
// with the stale error.
func rl5CloneNoSharedState(w *World) {
	w.rule("RL5")
	p := w.pkg("parser")
	if p == nil {
		return
	}
	info := p.TypesInfo
	// package-level maps/slices written somewhere in the package (index assignment or append-assign)
	written := map[types.Object]bool{}
	for _, b := range allFuncBodies(p) {
		ast.Inspect(b.Body, func(x ast.Node) bool {
			if as, ok := x.(*ast.AssignStmt); ok {
				for _, l := range as.Lhs {
					e := ast.Unparen(l)
					if ix, ok := e.(*ast.IndexExpr); ok {
						e = ast.Unparen(ix.X)
					}
					if id, ok := e.(*ast.Ident); ok {
						if o := info.Uses[id]; o != nil && o.Parent() == o.Pkg().Scope() {
							written[o] = true
						}
					}
				}
			}
			return true
		})
	}
	errT := types.Universe.Lookup("error").Type()
	n := 0
	for _, b := range allFuncBodies(p) {
		if !strings.HasSuffix(w.Fset.Position(b.Decl.Pos()).Filename, "clone.go") || b.Lit != nil {
			continue
		}
		n++
		var bad []string
		seen := map[types.Object]bool{}
		ast.Inspect(b.Body, func(x ast.Node) bool {
			id, ok := x.(*ast.Ident)
			if !ok {
				return true
			}
			v, ok := info.Uses[id].(*types.Var)
			if !ok || v.Pkg() == nil || v.Parent() != v.Pkg().Scope() || seen[v] {
				return true
			}
			seen[v] = true
			t := v.Type()
			if types.Identical(t, errT) || types.Implements(t, errT.Underlying().(*types.Interface)) {
				return true
			}
			switch u := t.Underlying().(type) {
			case *types.Map, *types.Slice:
				if !written[v] {
					return true
				}
			case *types.Basic:
				_ = u
				if !written[v] {
					return true
				}
			}
			bad = append(bad, v.Pkg().Name()+"."+v.Name()+" ("+types.TypeString(t, func(*types.Package) string { return "" })+") at "+w.pos(id.Pos()))
			return true
		})
		key := "clone-no-shared-state|" + b.Label
		if len(bad) == 0 {
			w.ok(key, b.Decl.Pos(), "refers to no mutable package-level variable")
		} else {
			w.violation(key, b.Decl.Pos(), "refers to package-level state shared by all Clone calls: "+strings.Join(bad, "; ")+" — whatever one clone leaves in it (a handler's first error, a cache entry) is seen by every later clone of an unrelated result")
		}
	}
	w.floor("functions of parser/clone.go", n, 7)
}

// RK4 (C19, C18): the index lists of a file descriptor are consumed as sets. public_dependency and
// weak_dependency hold indexes into `dependency`; descriptor.proto promises no order, and a
// FileDescriptorProto handed in through SearchResult.Proto may list them in any order. Every read
// of FileDescriptorProto.PublicDependency / WeakDependency outside the code that builds the proto
// must therefore be elementwise and order-independent: the operand of `range`, of len(), or an
// argument of slices.Contains/Index. Indexing with anything, re-slicing, or doing so through a
// local alias (`public := fd.PublicDependency; public[0] …; public = public[1:]`) is a merge walk
// that silently assumes ascending order: a public import listed out of order is then taken for a
// regular one and reported as unused.
func rk4IndexListsAsSets(w *World) {
	w.rule("RK4")
	n := 0
	for _, rel := range []string{"linker", "", "options", "sourceinfo", "internal", "protoutil"} {
		path := modPath
		if rel != "" {
			path += "/" + rel
		}
		p := w.ByPath[path]
		if p == nil {
			continue
		}
		info := p.TypesInfo
		for _, b := range allFuncBodies(p) {
			if b.Lit != nil {
				continue
			}
			parents := parentMap(b.Body)
			isList := func(e ast.Expr) (string, bool) {
				sel, ok := ast.Unparen(e).(*ast.SelectorExpr)
				if !ok || (sel.Sel.Name != "PublicDependency" && sel.Sel.Name != "WeakDependency") {
					return "", false
				}
				f, ok := info.Uses[sel.Sel].(*types.Var)
				if !ok || !f.IsField() || f.Pkg() == nil || f.Pkg().Path() != descpbPath {
					return "", false
				}
				return sel.Sel.Name, true
			}
			// aliases: local variables assigned the list
			alias := map[types.Object]string{}
			ast.Inspect(b.Body, func(x ast.Node) bool {
				if as, ok := x.(*ast.AssignStmt); ok && len(as.Lhs) == len(as.Rhs) {
					for i, r := range as.Rhs {
						if name, ok := isList(r); ok {
							if id, ok := as.Lhs[i].(*ast.Ident); ok {
								o := info.Defs[id]
								if o == nil {
									o = info.Uses[id]
								}
								if o != nil {
									alias[o] = name
								}
							}
						}
					}
				}
				return true
			})
			ord := 0
			check := func(e ast.Expr, name string) {
				par := parents[e]
				for {
					if pe, ok := par.(*ast.ParenExpr); ok {
						par = parents[pe]
						continue
					}
					break
				}
				verdict, why := "", ""
				switch pp := par.(type) {
				case *ast.RangeStmt:
					if pp.X == e || ast.Unparen(pp.X) == ast.Unparen(e) {
						verdict = "ok"
						why = "ranged over elementwise"
					}
				case *ast.CallExpr:
					if isBuiltinCall(info, pp, "len") {
						verdict, why = "ok", "only its length is taken"
					} else if isBuiltinCall(info, pp, "append") && len(pp.Args) > 0 && ast.Unparen(pp.Args[0]) == ast.Unparen(e) {
						verdict, why = "skip", ""
					} else if f := callee(info, pp); f != nil && f.Pkg() != nil && f.Pkg().Path() == "slices" && (f.Name() == "Contains" || f.Name() == "Index" || f.Name() == "ContainsFunc" || f.Name() == "IndexFunc") {
						verdict, why = "ok", "membership test over all elements"
					}
				case *ast.IndexExpr:
					if ast.Unparen(pp.X) == ast.Unparen(e) {
						verdict, why = "bad", "indexed ("+types.ExprString(pp)+")"
					}
				case *ast.SliceExpr:
					verdict, why = "bad", "re-sliced ("+types.ExprString(pp)+")"
				case *ast.AssignStmt:
					verdict = "skip" // the alias definition itself / the builder's store
				case *ast.BinaryExpr:
					if isNilIdent(info, pp.X) || isNilIdent(info, pp.Y) {
						verdict, why = "ok", "nil test"
					}
				}
				if verdict == "skip" {
					return
				}
				ord++
				n++
				key := fmt.Sprintf("index-list-as-set|%s|%s#%d", b.Label, name, ord)
				switch verdict {
				case "ok":
					w.ok(key, e.Pos(), name+" is "+why)
				case "bad":
					w.violation(key, e.Pos(), name+" is "+why+": an order-dependent walk over a list of indexes that descriptor.proto does not promise to be sorted — a descriptor proto supplied by the resolver with public_dependency [2, 0] has its public imports taken for regular ones (reported as unused) or the other way round")
				default:
					w.undecided(key, e.Pos(), name+" is used in a way the rule does not recognise as elementwise ("+fmt.Sprintf("%T", par)+")")
				}
			}
			ast.Inspect(b.Body, func(x ast.Node) bool {
				switch e := x.(type) {
				case *ast.SelectorExpr:
					if name, ok := isList(e); ok {
						check(e, name)
						return false
					}
				case *ast.Ident:
					if o := info.Uses[e]; o != nil {
						if name, ok := alias[o]; ok {
							check(e, name+" (alias "+e.Name+")")
						}
					}
				}
				return true
			})
		}
	}
	w.floor("reads of PublicDependency/WeakDependency outside the builder", n, 3)
}
