package main

import (
	"fmt"
	"go/ast"
	"go/constant"
	"go/token"
	"go/types"
	"sort"
	"strings"

	"golang.org/x/tools/go/cfg"
)

// RQ12 (C12): a raw rune is handed to the generated parser as a token code only when it is one of
// the ASCII punctuation characters. goyacc's named tokens (_NAME, _MESSAGE, …) are numbered from
// 57346 (U+E002) upwards, inside the rune space: if Lex returns int(c) for a rune outside ASCII,
// a private-use character arrives in the parser as a keyword token whose semantic value was never
// set — the actions dereference a nil identifier (panic), or the file parses with no error.
// For each `return <int conversion of the rune variable>` in (*protoLex).Lex the rule computes,
// for every value of a finite model of runes (all of ASCII, the Latin-1 edge, code points whose
// low byte is a punctuation byte, the token-code range U+E000..U+E0FF, U+FFFD, U+10FFFF), whether
// the return is reachable: enclosing conditions and the earlier early-exit guards of every
// enclosing statement list are evaluated three-valued on the rune (comparisons with constants,
// strings.ContainsRune on a constant, small predicate functions inlined); an undecidable
// condition counts as passable. Reachable with a value >= 128 is a violation.
func rq12RawRuneTokens(w *World) {
	w.rule("RQ12")
	lex := w.fn("parser", "(*protoLex).Lex")
	if lex == nil {
		return
	}
	info := lex.Pkg.TypesInfo
	parents := parentMap(lex.Decl)
	model := []int64{}
	for ch := int64(0); ch < 128; ch++ {
		model = append(model, ch)
	}
	model = append(model, 128, 0xA0, 0xFF, 0x100, 0x2028, 0xFFFD, 0xFEFF, 0x10FFFF)
	for _, p := range ";,.:=-+(){}[]<>/" {
		model = append(model, 0x100+int64(p), 0xE000+int64(p), 0x10000+int64(p))
	}
	for ch := int64(0xE000); ch < 0xE100; ch++ {
		model = append(model, ch)
	}
	terminates := func(bl *ast.BlockStmt) bool {
		if len(bl.List) == 0 {
			return false
		}
		switch s := bl.List[len(bl.List)-1].(type) {
		case *ast.ReturnStmt:
			return true
		case *ast.BranchStmt:
			return s.Tok == token.CONTINUE || s.Tok == token.BREAK || s.Tok == token.GOTO
		case *ast.ExprStmt:
			if c, ok := s.X.(*ast.CallExpr); ok && isBuiltinCall(info, c, "panic") {
				return true
			}
		}
		return false
	}
	n := 0
	ast.Inspect(lex.Decl.Body, func(x ast.Node) bool {
		if _, isLit := x.(*ast.FuncLit); isLit {
			return false
		}
		ret, ok := x.(*ast.ReturnStmt)
		if !ok || len(ret.Results) == 0 {
			return true
		}
		conv, ok := ast.Unparen(ret.Results[0]).(*ast.CallExpr)
		if !ok || len(conv.Args) != 1 {
			return true
		}
		tv, ok := info.Types[conv.Fun]
		if !ok || !tv.IsType() {
			return true
		}
		if atv, ok := info.Types[conv.Args[0]]; !ok || atv.Value != nil {
			return true
		}
		at := info.TypeOf(conv.Args[0])
		if bt, ok := at.Underlying().(*types.Basic); !ok || bt.Kind() != types.Int32 {
			return true
		}
		v := render(conv.Args[0])
		n++
		// path condition: a list of three-valued predicates over the rune value
		type pred func(val int64) tri
		var conds []pred
		litp := func(e ast.Expr, truth bool) pred {
			return func(val int64) tri {
				t := evalWithStrings(info, e, v, val)
				if truth || t == triUnknown {
					return t
				}
				if t == triTrue {
					return triFalse
				}
				return triTrue
			}
		}
		// membership of the rune in a case list of `switch <rune> {…}`
		inList := func(list []ast.Expr, val int64) tri {
			res := triFalse
			for _, ce := range list {
				tv, ok := info.Types[ce]
				if !ok || tv.Value == nil {
					res = triUnknown
					continue
				}
				if cv, ok := constInt(tv); ok && cv == val {
					return triTrue
				}
			}
			return res
		}
		var child ast.Node = ret
		for cur := parents[ret]; cur != nil; child, cur = cur, parents[cur] {
			if ifs, ok := cur.(*ast.IfStmt); ok {
				if child == ast.Node(ifs.Body) {
					conds = append(conds, litp(ifs.Cond, true))
				} else if ifs.Else != nil && child == ifs.Else {
					conds = append(conds, litp(ifs.Cond, false))
				}
			}
			if cc, ok := cur.(*ast.CaseClause); ok {
				if blk, ok := parents[cc].(*ast.BlockStmt); ok {
					if sw, ok := parents[blk].(*ast.SwitchStmt); ok {
						switch {
						case sw.Tag != nil && render(sw.Tag) == v:
							if cc.List != nil {
								list := cc.List
								conds = append(conds, func(val int64) tri { return inList(list, val) })
							} else {
								for _, o := range sw.Body.List {
									if oc := o.(*ast.CaseClause); oc.List != nil {
										list := oc.List
										conds = append(conds, func(val int64) tri {
											switch inList(list, val) {
											case triTrue:
												return triFalse
											case triFalse:
												return triTrue
											}
											return triUnknown
										})
									}
								}
							}
						case sw.Tag == nil:
							for _, o := range sw.Body.List {
								oc := o.(*ast.CaseClause)
								if oc == cc {
									break
								}
								for _, ce := range oc.List {
									conds = append(conds, litp(ce, false))
								}
							}
							if len(cc.List) == 1 {
								conds = append(conds, litp(cc.List[0], true))
							}
						}
					}
				}
			}
			if list, idx := containingList(parents, child); idx > 0 {
				for j := 0; j < idx; j++ {
					if g, ok := list[j].(*ast.IfStmt); ok && g.Else == nil && terminates(g.Body) {
						conds = append(conds, litp(g.Cond, false))
					}
					// an earlier `switch <rune> {…}`: a clause that leaves excludes its values; a
					// default that leaves restricts the rune to the listed values
					if sw, ok := list[j].(*ast.SwitchStmt); ok && sw.Tag != nil && render(sw.Tag) == v {
						var all []ast.Expr
						for _, o := range sw.Body.List {
							all = append(all, o.(*ast.CaseClause).List...)
						}
						for _, o := range sw.Body.List {
							oc := o.(*ast.CaseClause)
							if !terminates(&ast.BlockStmt{List: oc.Body}) {
								continue
							}
							if oc.List != nil {
								l2 := oc.List
								conds = append(conds, func(val int64) tri {
									switch inList(l2, val) {
									case triTrue:
										return triFalse
									case triFalse:
										return triTrue
									}
									return triUnknown
								})
							} else {
								conds = append(conds, func(val int64) tri { return inList(all, val) })
							}
						}
					}
				}
			}
		}
		var reach []int64
		nAscii := 0
		for _, val := range model {
			feasible := true
			for _, c := range conds {
				if c(val) == triFalse {
					feasible = false
					break
				}
			}
			if feasible {
				if val >= 128 {
					reach = append(reach, val)
				} else {
					nAscii++
				}
			}
		}
		key := fmt.Sprintf("raw-rune-token|%s|return#%d %s", lex.Name, n, types.ExprString(ret.Results[0]))
		if len(reach) > 0 {
			var ex []string
			for i, r := range reach {
				if i == 4 {
					ex = append(ex, "…")
					break
				}
				ex = append(ex, fmt.Sprintf("U+%04X", r))
			}
			w.violation(key, ret.Pos(), fmt.Sprintf("Lex returns %s as the token code and the return is reachable for non-ASCII runes (%s; %d of the model): the generated parser numbers its named tokens from U+E002, so such a character is taken for a keyword or literal token whose value was never set (nil identifier ⇒ panic in the actions, or a file with an invalid character parses without an error)", types.ExprString(ret.Results[0]), strings.Join(ex, ", "), len(reach)))
		} else {
			w.ok(key, ret.Pos(), fmt.Sprintf("reachable only for %d ASCII values of %s (%d guards evaluated over a model of %d runes)", nAscii, v, len(conds), len(model)))
		}
		return true
	})
	w.floor("returns of a raw rune as token code in Lex", n, 4)
}

// RN7 (C22): fields are told apart by an identity that is injective over everything
// protoreflect.Message.Range can yield. The strip decides in one pass which fields of an options
// message go (or are replaced) and applies the decision in another; options messages consist
// mostly of *extensions*, and for an extension FieldDescriptor.Index() is its position inside the
// file or message that declares it, Name()/JSONName()/TextName() are relative to that scope as
// well: two custom options declared in different scopes (or a custom option and a regular field)
// share them. A set or map keyed by one of those removes or keeps the wrong option. Injective
// keys: the descriptor itself, Number() (unique inside one message, extensions included) and
// FullName(). The rule enumerates every field-identity site in the strip's files — a map index or
// a slices.Contains/Index needle derived from a protoreflect.FieldDescriptor — and classifies its
// key.
func rn7FieldIdentity(w *World) {
	w.rule("RN7")
	p := w.pkg("options")
	if p == nil {
		return
	}
	info := p.TypesInfo
	isFD := func(t types.Type) bool {
		return t != nil && strings.HasSuffix(t.String(), "protoreflect.FieldDescriptor")
	}
	// classify returns ("", false) when e is not derived from a FieldDescriptor
	var classify func(body *ast.BlockStmt, e ast.Expr, depth int) (string, bool)
	classify = func(body *ast.BlockStmt, e ast.Expr, depth int) (string, bool) {
		e = ast.Unparen(e)
		if isFD(info.TypeOf(e)) {
			return "descriptor", true
		}
		switch x := e.(type) {
		case *ast.CallExpr:
			if tv, ok := info.Types[x.Fun]; ok && tv.IsType() && len(x.Args) == 1 {
				return classify(body, x.Args[0], depth)
			}
			if sel, ok := ast.Unparen(x.Fun).(*ast.SelectorExpr); ok && len(x.Args) == 0 && isFD(info.TypeOf(sel.X)) {
				return sel.Sel.Name + "()", true
			}
		case *ast.Ident:
			if depth > 2 {
				return "", false
			}
			obj := info.Uses[x]
			if obj == nil {
				return "", false
			}
			// single definition `k := <expr>` in the same body
			var rhs ast.Expr
			nDefs := 0
			ast.Inspect(body, func(y ast.Node) bool {
				if as, ok := y.(*ast.AssignStmt); ok && len(as.Lhs) == len(as.Rhs) {
					for i, l := range as.Lhs {
						if id, ok := l.(*ast.Ident); ok && (info.Defs[id] == obj || info.Uses[id] == obj) {
							nDefs++
							rhs = as.Rhs[i]
						}
					}
				}
				return true
			})
			if nDefs == 1 {
				return classify(body, rhs, depth+1)
			}
		}
		return "", false
	}
	n := 0
	for _, b := range allFuncBodies(p) {
		if b.Lit != nil || !strings.HasSuffix(w.Fset.Position(b.Decl.Pos()).Filename, "source_retention_options.go") {
			continue
		}
		ord := map[string]int{}
		report := func(site ast.Node, what string, keyExpr ast.Expr) {
			kind, ok := classify(b.Body, keyExpr, 0)
			if !ok {
				return
			}
			n++
			ord[what]++
			key := fmt.Sprintf("field-identity|%s|%s#%d", b.Label, what, ord[what])
			switch kind {
			case "descriptor", "Number()", "FullName()":
				w.ok(key, site.Pos(), "fields are identified by "+kind+", which is distinct for every field and extension of one message")
			case "Index()", "Name()", "JSONName()", "TextName()":
				w.violation(key, site.Pos(), "fields are identified by FieldDescriptor."+kind+": for extensions (custom options) that value is relative to the declaring file or message, so two options declared in different scopes share it — the strip removes, keeps or replaces the wrong option")
			default:
				w.undecided(key, site.Pos(), "fields are identified by FieldDescriptor."+kind+"; not known to be injective over the fields and extensions of a message")
			}
		}
		ast.Inspect(b.Body, func(x ast.Node) bool {
			switch y := x.(type) {
			case *ast.IndexExpr:
				if t := info.TypeOf(y.X); t != nil {
					if _, isMap := t.Underlying().(*types.Map); isMap {
						report(y, "map "+render(y.X), y.Index)
					}
				}
			case *ast.CallExpr:
				if f := callee(info, y); f != nil && f.Pkg() != nil && f.Pkg().Path() == "slices" && len(y.Args) == 2 {
					switch f.Name() {
					case "Contains", "Index":
						report(y, "slices."+f.Name()+" "+render(y.Args[0]), y.Args[1])
					}
				}
			}
			return true
		})
	}
	w.floor("field-identity sites in the strip", n, 5)
}

func constInt(tv types.TypeAndValue) (int64, bool) {
	if tv.Value == nil {
		return 0, false
	}
	return constant.Int64Val(constant.ToInt(tv.Value))
}

// RL5 (C24): clones share no mutable package-level state. Every function of parser/clone.go may
// refer to package-level *variables* only when they are immutable in practice: error values, or
// maps/slices that the package never writes after initialisation. A pointer, struct, channel or
// function variable is an object every Clone call shares — e.g. a reporter.Handler hoisted out of
// Clone remembers its first error, so after one failed clone every later, unrelated clone fails
// with the stale error.
func rl5CloneNoSharedState(w *World) {
	w.rule("RL5")
	p := w.pkg("parser")
	if p == nil {
		return
	}
	info := p.TypesInfo
	// package-level maps/slices written somewhere in the package (index assignment or append-assign)
	written := map[types.Object]bool{}
	for _, b := range allFuncBodies(p) {
		ast.Inspect(b.Body, func(x ast.Node) bool {
			if as, ok := x.(*ast.AssignStmt); ok {
				for _, l := range as.Lhs {
					e := ast.Unparen(l)
					if ix, ok := e.(*ast.IndexExpr); ok {
						e = ast.Unparen(ix.X)
					}
					if id, ok := e.(*ast.Ident); ok {
						if o := info.Uses[id]; o != nil && o.Parent() == o.Pkg().Scope() {
							written[o] = true
						}
					}
				}
			}
			return true
		})
	}
	errT := types.Universe.Lookup("error").Type()
	n := 0
	for _, b := range allFuncBodies(p) {
		if !strings.HasSuffix(w.Fset.Position(b.Decl.Pos()).Filename, "clone.go") || b.Lit != nil {
			continue
		}
		n++
		var bad []string
		seen := map[types.Object]bool{}
		ast.Inspect(b.Body, func(x ast.Node) bool {
			id, ok := x.(*ast.Ident)
			if !ok {
				return true
			}
			v, ok := info.Uses[id].(*types.Var)
			if !ok || v.Pkg() == nil || v.Parent() != v.Pkg().Scope() || seen[v] {
				return true
			}
			seen[v] = true
			t := v.Type()
			if types.Identical(t, errT) || types.Implements(t, errT.Underlying().(*types.Interface)) {
				return true
			}
			switch u := t.Underlying().(type) {
			case *types.Map, *types.Slice:
				if !written[v] {
					return true
				}
			case *types.Basic:
				_ = u
				if !written[v] {
					return true
				}
			}
			bad = append(bad, v.Pkg().Name()+"."+v.Name()+" ("+types.TypeString(t, func(*types.Package) string { return "" })+") at "+w.pos(id.Pos()))
			return true
		})
		key := "clone-no-shared-state|" + b.Label
		if len(bad) == 0 {
			w.ok(key, b.Decl.Pos(), "refers to no mutable package-level variable")
		} else {
			w.violation(key, b.Decl.Pos(), "refers to package-level state shared by all Clone calls: "+strings.Join(bad, "; ")+" — whatever one clone leaves in it (a handler's first error, a cache entry) is seen by every later clone of an unrelated result")
		}
	}
	w.floor("functions of parser/clone.go", n, 7)
}

// RK4 (C19, C18): the index lists of a file descriptor are consumed as sets. public_dependency and
// weak_dependency hold indexes into `dependency`; descriptor.proto promises no order, and a
// FileDescriptorProto handed in through SearchResult.Proto may list them in any order. Every read
// of FileDescriptorProto.PublicDependency / WeakDependency outside the code that builds the proto
// must therefore be elementwise and order-independent: the operand of `range`, of len(), or an
// argument of slices.Contains/Index. Indexing with anything, re-slicing, or doing so through a
// local alias (`public := fd.PublicDependency; public[0] …; public = public[1:]`) is a merge walk
// that silently assumes ascending order: a public import listed out of order is then taken for a
// regular one and reported as unused.
func rk4IndexListsAsSets(w *World) {
	w.rule("RK4")
	n := 0
	for _, rel := range []string{"linker", "", "options", "sourceinfo", "internal", "protoutil"} {
		path := modPath
		if rel != "" {
			path += "/" + rel
		}
		p := w.ByPath[path]
		if p == nil {
			continue
		}
		info := p.TypesInfo
		for _, b := range allFuncBodies(p) {
			if b.Lit != nil {
				continue
			}
			parents := parentMap(b.Body)
			isList := func(e ast.Expr) (string, bool) {
				sel, ok := ast.Unparen(e).(*ast.SelectorExpr)
				if !ok || (sel.Sel.Name != "PublicDependency" && sel.Sel.Name != "WeakDependency") {
					return "", false
				}
				f, ok := info.Uses[sel.Sel].(*types.Var)
				if !ok || !f.IsField() || f.Pkg() == nil || f.Pkg().Path() != descpbPath {
					return "", false
				}
				return sel.Sel.Name, true
			}
			// aliases: local variables assigned the list
			alias := map[types.Object]string{}
			ast.Inspect(b.Body, func(x ast.Node) bool {
				if as, ok := x.(*ast.AssignStmt); ok && len(as.Lhs) == len(as.Rhs) {
					for i, r := range as.Rhs {
						if name, ok := isList(r); ok {
							if id, ok := as.Lhs[i].(*ast.Ident); ok {
								o := info.Defs[id]
								if o == nil {
									o = info.Uses[id]
								}
								if o != nil {
									alias[o] = name
								}
							}
						}
					}
				}
				return true
			})
			ord := 0
			check := func(e ast.Expr, name string) {
				par := parents[e]
				for {
					if pe, ok := par.(*ast.ParenExpr); ok {
						par = parents[pe]
						continue
					}
					break
				}
				verdict, why := "", ""
				switch pp := par.(type) {
				case *ast.RangeStmt:
					if pp.X == e || ast.Unparen(pp.X) == ast.Unparen(e) {
						verdict = "ok"
						why = "ranged over elementwise"
					}
				case *ast.CallExpr:
					if isBuiltinCall(info, pp, "len") {
						verdict, why = "ok", "only its length is taken"
					} else if isBuiltinCall(info, pp, "append") && len(pp.Args) > 0 && ast.Unparen(pp.Args[0]) == ast.Unparen(e) {
						verdict, why = "skip", ""
					} else if f := callee(info, pp); f != nil && f.Pkg() != nil && f.Pkg().Path() == "slices" && (f.Name() == "Contains" || f.Name() == "Index" || f.Name() == "ContainsFunc" || f.Name() == "IndexFunc") {
						verdict, why = "ok", "membership test over all elements"
					}
				case *ast.IndexExpr:
					if ast.Unparen(pp.X) == ast.Unparen(e) {
						verdict, why = "bad", "indexed ("+types.ExprString(pp)+")"
					}
				case *ast.SliceExpr:
					verdict, why = "bad", "re-sliced ("+types.ExprString(pp)+")"
				case *ast.AssignStmt:
					verdict = "skip" // the alias definition itself / the builder's store
				case *ast.BinaryExpr:
					if isNilIdent(info, pp.X) || isNilIdent(info, pp.Y) {
						verdict, why = "ok", "nil test"
					}
				}
				if verdict == "skip" {
					return
				}
				ord++
				n++
				key := fmt.Sprintf("index-list-as-set|%s|%s#%d", b.Label, name, ord)
				switch verdict {
				case "ok":
					w.ok(key, e.Pos(), name+" is "+why)
				case "bad":
					w.violation(key, e.Pos(), name+" is "+why+": an order-dependent walk over a list of indexes that descriptor.proto does not promise to be sorted — a descriptor proto supplied by the resolver with public_dependency [2, 0] has its public imports taken for regular ones (reported as unused) or the other way round")
				default:
					w.undecided(key, e.Pos(), name+" is used in a way the rule does not recognise as elementwise ("+fmt.Sprintf("%T", par)+")")
				}
			}
			ast.Inspect(b.Body, func(x ast.Node) bool {
				switch e := x.(type) {
				case *ast.SelectorExpr:
					if name, ok := isList(e); ok {
						check(e, name)
						return false
					}
				case *ast.Ident:
					if o := info.Uses[e]; o != nil {
						if name, ok := alias[o]; ok {
							check(e, name+" (alias "+e.Name+")")
						}
					}
				}
				return true
			})
		}
	}
	w.floor("reads of PublicDependency/WeakDependency outside the builder", n, 3)
}

// RD3 (C07): the outcome fields of a compile result are written only as part of publishing it.
// The goroutine's recover handler decides "was anything delivered yet?" from `r.err == nil`, and
// waiters read r.res / r.err after <-r.ready. Both are sound only if every write of result.res or
// result.err is followed at once — no call, no function exit, deferred calls included — by
// close(r.ready) on every path. A write that is separated from the close by a call that may panic
// (a deferred Source.Close()) leaves a result that the handler takes for delivered while nobody
// ever closes ready: the compile hangs and the panic value is lost.
func rd3OutcomeWrittenWithClose(w *World) {
	w.rule("RD3")
	p := w.pkg("")
	resF := w.field("", "result", "res")
	errF := w.field("", "result", "err")
	readyF := w.field("", "result", "ready")
	if p == nil || resF == nil || errF == nil || readyF == nil {
		return
	}
	info := p.TypesInfo
	isWrite := func(n ast.Node) bool {
		as, ok := n.(*ast.AssignStmt)
		if !ok {
			return false
		}
		for _, l := range as.Lhs {
			if f := selField(info, l); f == resF || f == errF {
				return true
			}
		}
		return false
	}
	isClose := func(c *ast.CallExpr) bool {
		return isBuiltinCall(info, c, "close") && len(c.Args) == 1 && selField(info, c.Args[0]) == readyF
	}
	n := 0
	var scan func(label string, body *ast.BlockStmt, hasDefer bool)
	scan = func(label string, body *ast.BlockStmt, _ bool) {
		// nested literals are functions of their own
		for _, fl := range funcLits(body) {
			scan(label+"$lit", fl.Body, false)
		}
		has := false
		defers := false
		ast.Inspect(body, func(x ast.Node) bool {
			if _, ok := x.(*ast.FuncLit); ok {
				return false
			}
			if isWrite(x) {
				has = true
			}
			if _, ok := x.(*ast.DeferStmt); ok {
				defers = true
			}
			return true
		})
		if !has {
			return
		}
		g := buildCFG(info, body)
		// may-analysis: fact "pending" = an outcome field has been written and ready not yet closed
		d := &Dataflow{G: g, Must: false, Init: Facts{}}
		var bad []string
		record := func(pos token.Pos, what string) {
			bad = append(bad, what+" at "+w.pos(pos))
		}
		d.Transfer = func(nd ast.Node, in Facts) Facts {
			out := in
			if _, isDefer := nd.(*ast.DeferStmt); isDefer {
				return out
			}
			// calls inside this node, in evaluation order; the assignment takes effect last
			inspectPost(nd, func(x ast.Node) {
				if _, ok := x.(*ast.FuncLit); ok {
					return
				}
				if c, ok := x.(*ast.CallExpr); ok {
					if isClose(c) {
						out = out.without("pending")
					}
				}
			})
			if isWrite(nd) {
				out = out.with("pending")
			}
			return out
		}
		d.Run()
		d.Walk(func(_ *cfg.Block, nd ast.Node, before Facts) {
			if !before["pending"] {
				return
			}
			if _, isDefer := nd.(*ast.DeferStmt); isDefer {
				return
			}
			if isWrite(nd) {
				// a second field of the same outcome: its right-hand side must not call
				as := nd.(*ast.AssignStmt)
				for _, r := range as.Rhs {
					if len(callsIn(r)) > 0 {
						record(nd.Pos(), "a call in "+types.ExprString(r))
					}
				}
				return
			}
			for _, c := range callsIn(nd) {
				if isClose(c) {
					return
				}
				if tv, ok := info.Types[c.Fun]; ok && tv.IsType() {
					continue
				}
				record(c.Pos(), "the call "+types.ExprString(c.Fun)+"(…)")
				return
			}
		})
		for _, e := range d.Exits(info, body.End()) {
			if e.State["pending"] {
				what := "the end of the function"
				if defers {
					what += " (its deferred calls run next)"
				}
				record(e.Pos, what)
			}
		}
		n++
		key := "outcome-with-close|" + label
		if len(bad) == 0 {
			w.ok(key, body.Pos(), "every write of result.res / result.err is followed immediately by close(result.ready)")
		} else {
			sort.Strings(bad)
			w.violation(key, body.Pos(), "result.res / result.err is written and ready is not closed at once: "+strings.Join(bad, "; ")+" comes first — a panic there finds `r.err != nil` (or a result already stored) in the recover handler, which then delivers nothing: ready is never closed, Compile and every importer of the file hang, and the panic value is lost")
		}
	}
	for _, b := range allFuncBodies(p) {
		if b.Lit != nil {
			continue
		}
		scan(b.Label, b.Body, false)
	}
	w.floor("functions that write result.res / result.err", n, 2)
}

// R35b (C35): a query key is an injective image of what Execute reads. R35 checks that every
// receiver field Execute reads *flows* into Key(); R35b checks how: in a Key() body, data derived
// from the receiver may be copied, selected, put into a struct, converted, joined with a separator
// or formatted, but must not pass through a function that forgets something — sorting or
// compacting (order, multiplicity: Link's result lists files in workspace order and reports the
// *first* of two clashing extensions), len, case folding, trimming, base names, hashing. Two
// queries that differ in what was forgotten would share one cache entry, so a long-lived executor
// answers the second with the first one's result.
func r35bKeyInjective(w *World) {
	w.rule("R35b")
	p := w.pkg(queriesRel)
	if p == nil {
		return
	}
	info := p.TypesInfo
	lossy := map[string]string{
		"slices.Sort": "order", "slices.SortFunc": "order", "slices.SortStableFunc": "order", "slices.Sorted": "order", "slices.SortedFunc": "order",
		"slices.Compact": "multiplicity", "slices.CompactFunc": "multiplicity", "sort.Strings": "order", "sort.Slice": "order", "sort.Sort": "order", "sort.Stable": "order",
		"maps.Keys": "order", "maps.Values": "order",
		"strings.ToLower": "case", "strings.ToUpper": "case", "strings.TrimSpace": "surrounding space", "strings.Trim": "trimmed characters", "strings.TrimSuffix": "a suffix", "strings.TrimPrefix": "a prefix", "strings.Fields": "spacing",
		"path.Base": "the directory", "path/filepath.Base": "the directory", "path.Clean": "path spelling", "path/filepath.Clean": "path spelling", "path.Dir": "the file name", "path/filepath.Dir": "the file name",
		"len": "everything but the length", "cap": "everything",
	}
	injective := map[string]bool{
		"strings.Join": true, "fmt.Sprintf": true, "fmt.Sprint": true, "slices.Values": true, "slices.Collect": true, "slices.Clone": true, "strconv.Itoa": true, "strconv.Quote": true,
	}
	n := 0
	for _, f := range p.Syntax {
		for _, d := range f.Decls {
			fd, ok := d.(*ast.FuncDecl)
			if !ok || fd.Recv == nil || fd.Body == nil || fd.Name.Name != "Key" || len(fd.Recv.List) != 1 {
				continue
			}
			tname := types.ExprString(fd.Recv.List[0].Type)
			n++
			var bad, unknown []string
			ast.Inspect(fd.Body, func(x ast.Node) bool {
				c, ok := x.(*ast.CallExpr)
				if !ok {
					return true
				}
				if tv, ok := info.Types[c.Fun]; ok && tv.IsType() {
					return true // conversion
				}
				name := ""
				if id, ok := ast.Unparen(c.Fun).(*ast.Ident); ok {
					if _, isB := info.Uses[id].(*types.Builtin); isB {
						name = id.Name
					}
				}
				if name == "" {
					if fn := callee(info, c); fn != nil && fn.Pkg() != nil {
						name = fn.Pkg().Path() + "." + fn.Name()
						if sig, ok := fn.Type().(*types.Signature); ok && sig.Recv() != nil {
							// a method: accessors of the receiver's own fields (Paths(), String(), Name()) return content
							name = "method " + fn.Name()
						}
					}
				}
				switch {
				case lossy[name] != "":
					bad = append(bad, fmt.Sprintf("%s (forgets %s) at %s", name, lossy[name], w.pos(c.Pos())))
				case injective[name], strings.HasPrefix(name, "method "), name == "append", name == "make", name == "new":
				case name == "":
					unknown = append(unknown, types.ExprString(c.Fun)+" at "+w.pos(c.Pos()))
				default:
					unknown = append(unknown, name+" at "+w.pos(c.Pos()))
				}
				return true
			})
			key := "key-injective|" + tname
			switch {
			case len(bad) > 0:
				w.violation(key, fd.Pos(), tname+".Key() passes the query through "+strings.Join(bad, "; ")+": two queries that differ only in what is forgotten share one cache entry, although "+tname+".Execute's result depends on it — a long-lived executor then returns the first query's result for the second, a fresh one does not")
			case len(unknown) > 0:
				w.undecided(key, fd.Pos(), tname+".Key() computes the key through "+strings.Join(unknown, "; ")+", which the rule cannot classify as content-preserving")
			default:
				w.ok(key, fd.Pos(), "the key is built from the query by copying, selecting and composing only")
			}
		}
	}
	w.floor("Key() methods in experimental/incremental/queries", n, 6)
}

// R35c (C35): what a query computes does not depend on the executor's cache state.
// incremental.Result.Changed says whether a dependency was (re)computed during the current Run —
// a fact about the cache, not about the inputs. A query may use it to skip work whose outcome is
// unchanged, but a branch on it that decides whether a dependency is resolved (incremental.Resolve
// under the branch), whether a diagnostic is reported, or what is returned makes the dependency
// set and the output differ between a long-lived executor (dependency already cached: Changed
// false) and a fresh one (Changed true).
func r35cNoCacheStateDependence(w *World) {
	w.rule("R35c")
	p := w.pkg(queriesRel)
	ip := w.pkg(incRel)
	if p == nil || ip == nil {
		return
	}
	info := p.TypesInfo
	isChanged := func(e ast.Expr) bool {
		sel, ok := ast.Unparen(e).(*ast.SelectorExpr)
		if !ok || sel.Sel.Name != "Changed" {
			return false
		}
		f, ok := info.Uses[sel.Sel].(*types.Var)
		return ok && f.IsField() && f.Pkg() == ip.Types
	}
	nExec, nReads := 0, 0
	for _, b := range allFuncBodies(p) {
		if b.Lit != nil {
			continue
		}
		if b.Obj.Name() == "Execute" {
			nExec++
		}
		ast.Inspect(b.Body, func(x ast.Node) bool {
			var cond ast.Expr
			var body ast.Node
			switch s := x.(type) {
			case *ast.IfStmt:
				cond, body = s.Cond, s
			case *ast.SwitchStmt:
				if s.Tag != nil {
					cond, body = s.Tag, s
				}
			case *ast.CaseClause:
				for _, ce := range s.List {
					hit := false
					ast.Inspect(ce, func(y ast.Node) bool {
						if e, ok := y.(ast.Expr); ok && isChanged(e) {
							hit = true
						}
						return !hit
					})
					if hit {
						cond, body = ce, s
					}
				}
			}
			if cond == nil {
				return true
			}
			reads := false
			ast.Inspect(cond, func(y ast.Node) bool {
				if e, ok := y.(ast.Expr); ok && isChanged(e) {
					reads = true
				}
				return !reads
			})
			if !reads {
				return true
			}
			nReads++
			var effects []string
			ast.Inspect(body, func(y ast.Node) bool {
				switch z := y.(type) {
				case *ast.CallExpr:
					if f := callee(info, z); f != nil && f.Pkg() == ip.Types && (f.Name() == "Resolve" || f.Name() == "Report") {
						effects = append(effects, "incremental."+f.Name()+" at "+w.pos(z.Pos()))
					}
				case *ast.ReturnStmt:
					effects = append(effects, "a return at "+w.pos(z.Pos()))
				}
				return true
			})
			key := "cache-state-branch|" + b.Label + "|" + types.ExprString(cond)
			if len(effects) > 0 {
				w.violation(key, cond.Pos(), "a branch on Result.Changed controls "+strings.Join(effects, "; ")+": Changed is true on a fresh executor and false when the dependency is already cached, so the dependencies this query registers, the diagnostics it reports or the value it returns differ between a long-lived executor and a brand-new one on the same files")
			} else {
				w.ok(key, cond.Pos(), "the branch on Result.Changed neither resolves dependencies, nor reports, nor returns")
			}
			return true
		})
	}
	w.info("cache-state-branch|reads", token.NoPos, fmt.Sprintf("%d branches on Result.Changed in %d Execute methods", nReads, nExec))
	w.floor("Execute methods in experimental/incremental/queries", nExec, 6)
}

// RA4f (C17): a roll-back list contains only what this call inserted. When an import backs out
// its own registrations after a failure, the list it deletes by must hold exactly the keys whose
// insertion succeeded. Found by shape: a function that deletes from a guarded table of
// packageSymbols while ranging over a slice parameter is a roll-back; at every call the slice
// argument is traced to its appends, and each append must be preceded, on every path inside the
// function (or function literal) that contains it, by a successful call of an inserter of that
// table — recording the key *before* trying to insert it puts the colliding key, which belongs to
// another file, on the list, and the roll-back then deletes that file's registration.
func ra4fRollbackOwnsKeys(w *World) {
	w.rule("RA4f")
	p := w.pkg("linker")
	ps := w.typ("linker", "packageSymbols")
	if p == nil || ps == nil {
		return
	}
	info := p.TypesInfo
	st, _ := ps.Underlying().(*types.Struct)
	tableFields := map[*types.Var]bool{}
	for i := 0; st != nil && i < st.NumFields(); i++ {
		if _, isMap := st.Field(i).Type().Underlying().(*types.Map); isMap {
			tableFields[st.Field(i)] = true
		}
	}
	// inserters per table field: functions that assign table[k] = v, plus their direct callers
	inserters := map[*types.Var]map[*types.Func]bool{}
	for _, b := range allFuncBodies(p) {
		if b.Lit != nil {
			continue
		}
		ast.Inspect(b.Body, func(x ast.Node) bool {
			as, ok := x.(*ast.AssignStmt)
			if !ok {
				return true
			}
			for _, l := range as.Lhs {
				if ix, ok := ast.Unparen(l).(*ast.IndexExpr); ok {
					if f := selField(info, ix.X); f != nil && tableFields[f] {
						if inserters[f] == nil {
							inserters[f] = map[*types.Func]bool{}
						}
						inserters[f][b.Obj] = true
					}
				}
			}
			return true
		})
	}
	for _, set := range inserters {
		for _, b := range allFuncBodies(p) {
			if b.Lit != nil {
				continue
			}
			ast.Inspect(b.Body, func(x ast.Node) bool {
				if c, ok := x.(*ast.CallExpr); ok {
					if f := callee(info, c); f != nil && set[f] && f != b.Obj {
						set[b.Obj] = true
					}
				}
				return true
			})
		}
	}
	nRollbacks := 0
	for _, b := range allFuncBodies(p) {
		if b.Lit != nil {
			continue
		}
		// delete(X.table, k) inside `for _, k := range <slice parameter>`
		parents := parentMap(b.Decl)
		ast.Inspect(b.Body, func(x ast.Node) bool {
			c, ok := x.(*ast.CallExpr)
			if !ok || !isBuiltinCall(info, c, "delete") || len(c.Args) != 2 {
				return true
			}
			tf := selField(info, c.Args[0])
			if tf == nil || !tableFields[tf] {
				return true
			}
			// enclosing range over a parameter
			var param *types.Var
			for cur := parents[c]; cur != nil; cur = parents[cur] {
				if rs, ok := cur.(*ast.RangeStmt); ok {
					if id, ok := ast.Unparen(rs.X).(*ast.Ident); ok {
						if v, ok := info.Uses[id].(*types.Var); ok {
							sig := b.Obj.Type().(*types.Signature)
							for i := 0; i < sig.Params().Len(); i++ {
								if sig.Params().At(i) == v {
									param = v
								}
							}
						}
					}
				}
			}
			if param == nil {
				return true
			}
			nRollbacks++
			sig := b.Obj.Type().(*types.Signature)
			pidx := -1
			for i := 0; i < sig.Params().Len(); i++ {
				if sig.Params().At(i) == param {
					pidx = i
				}
			}
			// call sites of the roll-back
			for _, cb := range allFuncBodies(p) {
				if cb.Lit != nil {
					continue
				}
				ast.Inspect(cb.Body, func(y ast.Node) bool {
					call, ok := y.(*ast.CallExpr)
					if !ok || callee(info, call) != b.Obj || pidx >= len(call.Args) {
						return true
					}
					lid, ok := ast.Unparen(call.Args[pidx]).(*ast.Ident)
					if !ok {
						w.undecided("rollback-owns-keys|"+cb.Label+"|"+b.Obj.Name(), call.Pos(), "the roll-back list is not a plain variable")
						return true
					}
					lobj := info.Uses[lid]
					// appends to the list anywhere in the caller (function literals included)
					var check func(body *ast.BlockStmt, label string)
					check = func(body *ast.BlockStmt, label string) {
						for _, fl := range funcLits(body) {
							check(fl.Body, label+"$lit")
						}
						isAppend := func(n ast.Node) bool {
							as, ok := n.(*ast.AssignStmt)
							if !ok || len(as.Lhs) != 1 || len(as.Rhs) != 1 {
								return false
							}
							id, ok := as.Lhs[0].(*ast.Ident)
							if !ok || info.Uses[id] != lobj {
								return false
							}
							ac, ok := ast.Unparen(as.Rhs[0]).(*ast.CallExpr)
							return ok && isBuiltinCall(info, ac, "append")
						}
						has := false
						ast.Inspect(body, func(z ast.Node) bool {
							if _, ok := z.(*ast.FuncLit); ok {
								return false
							}
							if isAppend(z) {
								has = true
							}
							return true
						})
						if !has {
							return
						}
						// must-dataflow: "inserted" after a successful inserter call
						g := buildCFG(info, body)
						d := &Dataflow{G: g, Must: true, Init: Facts{}}
						d.Transfer = func(n ast.Node, in Facts) Facts {
							out := in
							if as, ok := n.(*ast.AssignStmt); ok && len(as.Rhs) == 1 {
								if ic, ok := ast.Unparen(as.Rhs[0]).(*ast.CallExpr); ok {
									if f := callee(info, ic); f != nil && inserters[tf][f] && len(as.Lhs) >= 1 {
										return out.with("ins:" + render(as.Lhs[len(as.Lhs)-1]))
									}
								}
							}
							return out
						}
						d.Branch = func(leaf ast.Expr, truth bool, s Facts) Facts {
							if be, ok := ast.Unparen(leaf).(*ast.BinaryExpr); ok && isNilIdent(info, be.Y) && s["ins:"+render(be.X)] {
								if (be.Op == token.EQL) == truth {
									return s.with("inserted")
								}
							}
							return s
						}
						d.Run()
						d.Walk(func(_ *cfg.Block, n ast.Node, before Facts) {
							if !isAppend(n) {
								return
							}
							key := "rollback-owns-keys|" + label + "|" + lid.Name
							if before["inserted"] {
								w.ok(key, n.Pos(), "the key is recorded for roll-back only after its insertion succeeded")
							} else {
								w.violation(key, n.Pos(), "a key is appended to the roll-back list "+lid.Name+" before (or regardless of whether) its insertion into "+tf.Name()+" succeeded: when the insertion fails because another file already owns the key, "+b.Obj.Name()+" deletes that other file's registration — the failed import does not leave the table as it was, the collision is not reported again and the number can be handed out twice")
							}
						})
					}
					check(cb.Body, cb.Label)
					return true
				})
			}
			return true
		})
	}
	w.info("rollback-owns-keys|rollbacks", token.NoPos, fmt.Sprintf("%d roll-back functions (delete from a packageSymbols table by a slice parameter)", nRollbacks))
}
