package main

import (
	"fmt"
	"go/ast"
	"go/constant"
	"go/token"
	"go/types"
	"sort"
	"strings"
	"unicode"

	"golang.org/x/tools/go/cfg"
	"golang.org/x/tools/go/packages"
)

// RQ12 (C12): a raw rune is handed to the generated parser as a token code only when it is one of
// the ASCII punctuation characters. goyacc's named tokens (_NAME, _MESSAGE, …) are numbered from
// 57346 (U+E002) upwards, inside the rune space: if Lex returns int(c) for a rune outside ASCII,
// a private-use character arrives in the parser as a keyword token whose semantic value was never
// set — the actions dereference a nil identifier (panic), or the file parses with no error.
// For each `return <int conversion of the rune variable>` in (*protoLex).Lex the rule computes,
// for every value of a finite model of runes (all of ASCII, the Latin-1 edge, code points whose
// low byte is a punctuation byte, the token-code range U+E000..U+E0FF, U+FFFD, U+10FFFF), whether
// the return is reachable: enclosing conditions and the earlier early-exit guards of every
// enclosing statement list are evaluated three-valued on the rune (comparisons with constants,
// strings.ContainsRune on a constant, small predicate functions inlined); an undecidable
// condition counts as passable. Reachable with a value >= 128 is a violation.
func rq12RawRuneTokens(w *World) {
	w.rule("RQ12")
	lex := w.fn("parser", "(*protoLex).Lex")
	if lex == nil {
		return
	}
	info := lex.Pkg.TypesInfo
	parents := parentMap(lex.Decl)
	model := []int64{}
	for ch := int64(0); ch < 128; ch++ {
		model = append(model, ch)
	}
	model = append(model, 128, 0xA0, 0xFF, 0x100, 0x2028, 0xFFFD, 0xFEFF, 0x10FFFF)
	for _, p := range ";,.:=-+(){}[]<>/" {
		model = append(model, 0x100+int64(p), 0xE000+int64(p), 0x10000+int64(p))
	}
	for ch := int64(0xE000); ch < 0xE100; ch++ {
		model = append(model, ch)
	}
	terminates := func(bl *ast.BlockStmt) bool {
		if len(bl.List) == 0 {
			return false
		}
		switch s := bl.List[len(bl.List)-1].(type) {
		case *ast.ReturnStmt:
			return true
		case *ast.BranchStmt:
			return s.Tok == token.CONTINUE || s.Tok == token.BREAK || s.Tok == token.GOTO
		case *ast.ExprStmt:
			if c, ok := s.X.(*ast.CallExpr); ok && isBuiltinCall(info, c, "panic") {
				return true
			}
		}
		return false
	}
	n := 0
	ast.Inspect(lex.Decl.Body, func(x ast.Node) bool {
		if _, isLit := x.(*ast.FuncLit); isLit {
			return false
		}
		ret, ok := x.(*ast.ReturnStmt)
		if !ok || len(ret.Results) == 0 {
			return true
		}
		conv, ok := ast.Unparen(ret.Results[0]).(*ast.CallExpr)
		if !ok || len(conv.Args) != 1 {
			return true
		}
		tv, ok := info.Types[conv.Fun]
		if !ok || !tv.IsType() {
			return true
		}
		if atv, ok := info.Types[conv.Args[0]]; !ok || atv.Value != nil {
			return true
		}
		at := info.TypeOf(conv.Args[0])
		if bt, ok := at.Underlying().(*types.Basic); !ok || bt.Kind() != types.Int32 {
			return true
		}
		v := render(conv.Args[0])
		n++
		// path condition: a list of three-valued predicates over the rune value
		type pred func(val int64) tri
		var conds []pred
		litp := func(e ast.Expr, truth bool) pred {
			return func(val int64) tri {
				t := evalWithStrings(info, e, v, val)
				if truth || t == triUnknown {
					return t
				}
				if t == triTrue {
					return triFalse
				}
				return triTrue
			}
		}
		// membership of the rune in a case list of `switch <rune> {…}`
		inList := func(list []ast.Expr, val int64) tri {
			res := triFalse
			for _, ce := range list {
				tv, ok := info.Types[ce]
				if !ok || tv.Value == nil {
					res = triUnknown
					continue
				}
				if cv, ok := constInt(tv); ok && cv == val {
					return triTrue
				}
			}
			return res
		}
		var child ast.Node = ret
		for cur := parents[ret]; cur != nil; child, cur = cur, parents[cur] {
			if ifs, ok := cur.(*ast.IfStmt); ok {
				if child == ast.Node(ifs.Body) {
					conds = append(conds, litp(ifs.Cond, true))
				} else if ifs.Else != nil && child == ifs.Else {
					conds = append(conds, litp(ifs.Cond, false))
				}
			}
			if cc, ok := cur.(*ast.CaseClause); ok {
				if blk, ok := parents[cc].(*ast.BlockStmt); ok {
					if sw, ok := parents[blk].(*ast.SwitchStmt); ok {
						switch {
						case sw.Tag != nil && render(sw.Tag) == v:
							if cc.List != nil {
								list := cc.List
								conds = append(conds, func(val int64) tri { return inList(list, val) })
							} else {
								for _, o := range sw.Body.List {
									if oc := o.(*ast.CaseClause); oc.List != nil {
										list := oc.List
										conds = append(conds, func(val int64) tri {
											switch inList(list, val) {
											case triTrue:
												return triFalse
											case triFalse:
												return triTrue
											}
											return triUnknown
										})
									}
								}
							}
						case sw.Tag == nil:
							for _, o := range sw.Body.List {
								oc := o.(*ast.CaseClause)
								if oc == cc {
									break
								}
								for _, ce := range oc.List {
									conds = append(conds, litp(ce, false))
								}
							}
							if len(cc.List) == 1 {
								conds = append(conds, litp(cc.List[0], true))
							}
						}
					}
				}
			}
			if list, idx := containingList(parents, child); idx > 0 {
				for j := 0; j < idx; j++ {
					if g, ok := list[j].(*ast.IfStmt); ok && g.Else == nil && terminates(g.Body) {
						conds = append(conds, litp(g.Cond, false))
					}
					// an earlier `switch <rune> {…}`: a clause that leaves excludes its values; a
					// default that leaves restricts the rune to the listed values
					if sw, ok := list[j].(*ast.SwitchStmt); ok && sw.Tag != nil && render(sw.Tag) == v {
						var all []ast.Expr
						for _, o := range sw.Body.List {
							all = append(all, o.(*ast.CaseClause).List...)
						}
						for _, o := range sw.Body.List {
							oc := o.(*ast.CaseClause)
							if !terminates(&ast.BlockStmt{List: oc.Body}) {
								continue
							}
							if oc.List != nil {
								l2 := oc.List
								conds = append(conds, func(val int64) tri {
									switch inList(l2, val) {
									case triTrue:
										return triFalse
									case triFalse:
										return triTrue
									}
									return triUnknown
								})
							} else {
								conds = append(conds, func(val int64) tri { return inList(all, val) })
							}
						}
					}
				}
			}
		}
		var reach []int64
		nAscii := 0
		for _, val := range model {
			feasible := true
			for _, c := range conds {
				if c(val) == triFalse {
					feasible = false
					break
				}
			}
			if feasible {
				if val >= 128 {
					reach = append(reach, val)
				} else {
					nAscii++
				}
			}
		}
		key := fmt.Sprintf("raw-rune-token|%s|return#%d %s", lex.Name, n, types.ExprString(ret.Results[0]))
		if len(reach) > 0 {
			var ex []string
			for i, r := range reach {
				if i == 4 {
					ex = append(ex, "…")
					break
				}
				ex = append(ex, fmt.Sprintf("U+%04X", r))
			}
			w.violation(key, ret.Pos(), fmt.Sprintf("Lex returns %s as the token code and the return is reachable for non-ASCII runes (%s; %d of the model): the generated parser numbers its named tokens from U+E002, so such a character is taken for a keyword or literal token whose value was never set (nil identifier ⇒ panic in the actions, or a file with an invalid character parses without an error)", types.ExprString(ret.Results[0]), strings.Join(ex, ", "), len(reach)))
		} else {
			w.ok(key, ret.Pos(), fmt.Sprintf("reachable only for %d ASCII values of %s (%d guards evaluated over a model of %d runes)", nAscii, v, len(conds), len(model)))
		}
		return true
	})
	w.floor("returns of a raw rune as token code in Lex", n, 4)
}

// RN7 (C22): fields are told apart by an identity that is injective over everything
// protoreflect.Message.Range can yield. The strip decides in one pass which fields of an options
// message go (or are replaced) and applies the decision in another; options messages consist
// mostly of *extensions*, and for an extension FieldDescriptor.Index() is its position inside the
// file or message that declares it, Name()/JSONName()/TextName() are relative to that scope as
// well: two custom options declared in different scopes (or a custom option and a regular field)
// share them. A set or map keyed by one of those removes or keeps the wrong option. Injective
// keys: the descriptor itself, Number() (unique inside one message, extensions included) and
// FullName(). The rule enumerates every field-identity site in the strip's files — a map index or
// a slices.Contains/Index needle derived from a protoreflect.FieldDescriptor — and classifies its
// key.
func rn7FieldIdentity(w *World) {
	w.rule("RN7")
	p := w.pkg("options")
	if p == nil {
		return
	}
	info := p.TypesInfo
	isFD := func(t types.Type) bool {
		return t != nil && strings.HasSuffix(t.String(), "protoreflect.FieldDescriptor")
	}
	// classify returns ("", false) when e is not derived from a FieldDescriptor
	var classify func(body *ast.BlockStmt, e ast.Expr, depth int) (string, bool)
	classify = func(body *ast.BlockStmt, e ast.Expr, depth int) (string, bool) {
		e = ast.Unparen(e)
		if isFD(info.TypeOf(e)) {
			return "descriptor", true
		}
		switch x := e.(type) {
		case *ast.CallExpr:
			if tv, ok := info.Types[x.Fun]; ok && tv.IsType() && len(x.Args) == 1 {
				return classify(body, x.Args[0], depth)
			}
			if sel, ok := ast.Unparen(x.Fun).(*ast.SelectorExpr); ok && len(x.Args) == 0 && isFD(info.TypeOf(sel.X)) {
				return sel.Sel.Name + "()", true
			}
		case *ast.Ident:
			if depth > 2 {
				return "", false
			}
			obj := info.Uses[x]
			if obj == nil {
				return "", false
			}
			// single definition `k := <expr>` in the same body
			var rhs ast.Expr
			nDefs := 0
			ast.Inspect(body, func(y ast.Node) bool {
				if as, ok := y.(*ast.AssignStmt); ok && len(as.Lhs) == len(as.Rhs) {
					for i, l := range as.Lhs {
						if id, ok := l.(*ast.Ident); ok && (info.Defs[id] == obj || info.Uses[id] == obj) {
							nDefs++
							rhs = as.Rhs[i]
						}
					}
				}
				return true
			})
			if nDefs == 1 {
				return classify(body, rhs, depth+1)
			}
		}
		return "", false
	}
	n := 0
	for _, b := range allFuncBodies(p) {
		if b.Lit != nil || !strings.HasSuffix(w.Fset.Position(b.Decl.Pos()).Filename, "source_retention_options.go") {
			continue
		}
		ord := map[string]int{}
		report := func(site ast.Node, what string, keyExpr ast.Expr) {
			kind, ok := classify(b.Body, keyExpr, 0)
			if !ok {
				return
			}
			n++
			ord[what]++
			key := fmt.Sprintf("field-identity|%s|%s#%d", b.Label, what, ord[what])
			switch kind {
			case "descriptor", "Number()", "FullName()":
				w.ok(key, site.Pos(), "fields are identified by "+kind+", which is distinct for every field and extension of one message")
			case "Index()", "Name()", "JSONName()", "TextName()":
				w.violation(key, site.Pos(), "fields are identified by FieldDescriptor."+kind+": for extensions (custom options) that value is relative to the declaring file or message, so two options declared in different scopes share it — the strip removes, keeps or replaces the wrong option")
			default:
				w.undecided(key, site.Pos(), "fields are identified by FieldDescriptor."+kind+"; not known to be injective over the fields and extensions of a message")
			}
		}
		ast.Inspect(b.Body, func(x ast.Node) bool {
			switch y := x.(type) {
			case *ast.IndexExpr:
				if t := info.TypeOf(y.X); t != nil {
					if _, isMap := t.Underlying().(*types.Map); isMap {
						report(y, "map "+render(y.X), y.Index)
					}
				}
			case *ast.CallExpr:
				if f := callee(info, y); f != nil && f.Pkg() != nil && f.Pkg().Path() == "slices" && len(y.Args) == 2 {
					switch f.Name() {
					case "Contains", "Index":
						report(y, "slices."+f.Name()+" "+render(y.Args[0]), y.Args[1])
					}
				}
			}
			return true
		})
	}
	w.floor("field-identity sites in the strip", n, 5)
}

func constInt(tv types.TypeAndValue) (int64, bool) {
	if tv.Value == nil {
		return 0, false
	}
	return constant.Int64Val(constant.ToInt(tv.Value))
}

// RL5 (C24): clones share no mutable package-level state. Every function of parser/clone.go may
// refer to package-level *variables* only when they are immutable in practice: error values, or
// maps/slices that the package never writes after initialisation. A pointer, struct, channel or
// function variable is an object every Clone call shares — e.g. a reporter.Handler hoisted out of
// Clone remembers its first error, so after one failed clone every later, unrelated clone fails
// with the stale error.
func rl5CloneNoSharedState(w *World) {
	w.rule("RL5")
	p := w.pkg("parser")
	if p == nil {
		return
	}
	info := p.TypesInfo
	// package-level maps/slices written somewhere in the package (index assignment or append-assign)
	written := map[types.Object]bool{}
	for _, b := range allFuncBodies(p) {
		ast.Inspect(b.Body, func(x ast.Node) bool {
			if as, ok := x.(*ast.AssignStmt); ok {
				for _, l := range as.Lhs {
					e := ast.Unparen(l)
					if ix, ok := e.(*ast.IndexExpr); ok {
						e = ast.Unparen(ix.X)
					}
					if id, ok := e.(*ast.Ident); ok {
						if o := info.Uses[id]; o != nil && o.Parent() == o.Pkg().Scope() {
							written[o] = true
						}
					}
				}
			}
			return true
		})
	}
	errT := types.Universe.Lookup("error").Type()
	n := 0
	for _, b := range allFuncBodies(p) {
		if !strings.HasSuffix(w.Fset.Position(b.Decl.Pos()).Filename, "clone.go") || b.Lit != nil {
			continue
		}
		n++
		var bad []string
		seen := map[types.Object]bool{}
		ast.Inspect(b.Body, func(x ast.Node) bool {
			id, ok := x.(*ast.Ident)
			if !ok {
				return true
			}
			v, ok := info.Uses[id].(*types.Var)
			if !ok || v.Pkg() == nil || v.Parent() != v.Pkg().Scope() || seen[v] {
				return true
			}
			seen[v] = true
			t := v.Type()
			if types.Identical(t, errT) || types.Implements(t, errT.Underlying().(*types.Interface)) {
				return true
			}
			switch u := t.Underlying().(type) {
			case *types.Map, *types.Slice:
				if !written[v] {
					return true
				}
			case *types.Basic:
				_ = u
				if !written[v] {
					return true
				}
			}
			bad = append(bad, v.Pkg().Name()+"."+v.Name()+" ("+types.TypeString(t, func(*types.Package) string { return "" })+") at "+w.pos(id.Pos()))
			return true
		})
		key := "clone-no-shared-state|" + b.Label
		if len(bad) == 0 {
			w.ok(key, b.Decl.Pos(), "refers to no mutable package-level variable")
		} else {
			w.violation(key, b.Decl.Pos(), "refers to package-level state shared by all Clone calls: "+strings.Join(bad, "; ")+" — whatever one clone leaves in it (a handler's first error, a cache entry) is seen by every later clone of an unrelated result")
		}
	}
	w.floor("functions of parser/clone.go", n, 7)
}

// RK4 (C19, C18): the index lists of a file descriptor are consumed as sets. public_dependency and
// weak_dependency hold indexes into `dependency`; descriptor.proto promises no order, and a
// FileDescriptorProto handed in through SearchResult.Proto may list them in any order. Every read
// of FileDescriptorProto.PublicDependency / WeakDependency outside the code that builds the proto
// must therefore be elementwise and order-independent: the operand of `range`, of len(), or an
// argument of slices.Contains/Index. Indexing with anything, re-slicing, or doing so through a
// local alias (`public := fd.PublicDependency; public[0] …; public = public[1:]`) is a merge walk
// that silently assumes ascending order: a public import listed out of order is then taken for a
// regular one and reported as unused.
func rk4IndexListsAsSets(w *World) {
	w.rule("RK4")
	n := 0
	for _, rel := range []string{"linker", "", "options", "sourceinfo", "internal", "protoutil"} {
		path := modPath
		if rel != "" {
			path += "/" + rel
		}
		p := w.ByPath[path]
		if p == nil {
			continue
		}
		info := p.TypesInfo
		for _, b := range allFuncBodies(p) {
			if b.Lit != nil {
				continue
			}
			parents := parentMap(b.Body)
			isList := func(e ast.Expr) (string, bool) {
				sel, ok := ast.Unparen(e).(*ast.SelectorExpr)
				if !ok || (sel.Sel.Name != "PublicDependency" && sel.Sel.Name != "WeakDependency") {
					return "", false
				}
				f, ok := info.Uses[sel.Sel].(*types.Var)
				if !ok || !f.IsField() || f.Pkg() == nil || f.Pkg().Path() != descpbPath {
					return "", false
				}
				return sel.Sel.Name, true
			}
			// aliases: local variables assigned the list
			alias := map[types.Object]string{}
			ast.Inspect(b.Body, func(x ast.Node) bool {
				if as, ok := x.(*ast.AssignStmt); ok && len(as.Lhs) == len(as.Rhs) {
					for i, r := range as.Rhs {
						if name, ok := isList(r); ok {
							if id, ok := as.Lhs[i].(*ast.Ident); ok {
								o := info.Defs[id]
								if o == nil {
									o = info.Uses[id]
								}
								if o != nil {
									alias[o] = name
								}
							}
						}
					}
				}
				return true
			})
			ord := 0
			check := func(e ast.Expr, name string) {
				par := parents[e]
				for {
					if pe, ok := par.(*ast.ParenExpr); ok {
						par = parents[pe]
						continue
					}
					break
				}
				verdict, why := "", ""
				switch pp := par.(type) {
				case *ast.RangeStmt:
					if pp.X == e || ast.Unparen(pp.X) == ast.Unparen(e) {
						verdict = "ok"
						why = "ranged over elementwise"
					}
				case *ast.CallExpr:
					if isBuiltinCall(info, pp, "len") {
						verdict, why = "ok", "only its length is taken"
					} else if isBuiltinCall(info, pp, "append") && len(pp.Args) > 0 && ast.Unparen(pp.Args[0]) == ast.Unparen(e) {
						verdict, why = "skip", ""
					} else if f := callee(info, pp); f != nil && f.Pkg() != nil && f.Pkg().Path() == "slices" && (f.Name() == "Contains" || f.Name() == "Index" || f.Name() == "ContainsFunc" || f.Name() == "IndexFunc") {
						verdict, why = "ok", "membership test over all elements"
					}
				case *ast.IndexExpr:
					if ast.Unparen(pp.X) == ast.Unparen(e) {
						verdict, why = "bad", "indexed ("+types.ExprString(pp)+")"
					}
				case *ast.SliceExpr:
					verdict, why = "bad", "re-sliced ("+types.ExprString(pp)+")"
				case *ast.AssignStmt:
					verdict = "skip" // the alias definition itself / the builder's store
				case *ast.BinaryExpr:
					if isNilIdent(info, pp.X) || isNilIdent(info, pp.Y) {
						verdict, why = "ok", "nil test"
					}
				}
				if verdict == "skip" {
					return
				}
				ord++
				n++
				key := fmt.Sprintf("index-list-as-set|%s|%s#%d", b.Label, name, ord)
				switch verdict {
				case "ok":
					w.ok(key, e.Pos(), name+" is "+why)
				case "bad":
					w.violation(key, e.Pos(), name+" is "+why+": an order-dependent walk over a list of indexes that descriptor.proto does not promise to be sorted — a descriptor proto supplied by the resolver with public_dependency [2, 0] has its public imports taken for regular ones (reported as unused) or the other way round")
				default:
					w.undecided(key, e.Pos(), name+" is used in a way the rule does not recognise as elementwise ("+fmt.Sprintf("%T", par)+")")
				}
			}
			ast.Inspect(b.Body, func(x ast.Node) bool {
				switch e := x.(type) {
				case *ast.SelectorExpr:
					if name, ok := isList(e); ok {
						check(e, name)
						return false
					}
				case *ast.Ident:
					if o := info.Uses[e]; o != nil {
						if name, ok := alias[o]; ok {
							check(e, name+" (alias "+e.Name+")")
						}
					}
				}
				return true
			})
		}
	}
	w.floor("reads of PublicDependency/WeakDependency outside the builder", n, 3)
}

// RD3 (C07): the outcome fields of a compile result are written only as part of publishing it.
// The goroutine's recover handler decides "was anything delivered yet?" from `r.err == nil`, and
// waiters read r.res / r.err after <-r.ready. Both are sound only if every write of result.res or
// result.err is followed at once — no call, no function exit, deferred calls included — by
// close(r.ready) on every path. A write that is separated from the close by a call that may panic
// (a deferred Source.Close()) leaves a result that the handler takes for delivered while nobody
// ever closes ready: the compile hangs and the panic value is lost.
func rd3OutcomeWrittenWithClose(w *World) {
	w.rule("RD3")
	p := w.pkg("")
	resF := w.field("", "result", "res")
	errF := w.field("", "result", "err")
	readyF := w.field("", "result", "ready")
	if p == nil || resF == nil || errF == nil || readyF == nil {
		return
	}
	info := p.TypesInfo
	isWrite := func(n ast.Node) bool {
		as, ok := n.(*ast.AssignStmt)
		if !ok {
			return false
		}
		for _, l := range as.Lhs {
			if f := selField(info, l); f == resF || f == errF {
				return true
			}
		}
		return false
	}
	isClose := func(c *ast.CallExpr) bool {
		return isBuiltinCall(info, c, "close") && len(c.Args) == 1 && selField(info, c.Args[0]) == readyF
	}
	n := 0
	var scan func(label string, body *ast.BlockStmt, hasDefer bool)
	scan = func(label string, body *ast.BlockStmt, _ bool) {
		// nested literals are functions of their own
		for _, fl := range funcLits(body) {
			scan(label+"$lit", fl.Body, false)
		}
		has := false
		defers := false
		ast.Inspect(body, func(x ast.Node) bool {
			if _, ok := x.(*ast.FuncLit); ok {
				return false
			}
			if isWrite(x) {
				has = true
			}
			if _, ok := x.(*ast.DeferStmt); ok {
				defers = true
			}
			return true
		})
		if !has {
			return
		}
		g := buildCFG(info, body)
		// may-analysis: fact "pending" = an outcome field has been written and ready not yet closed
		d := &Dataflow{G: g, Must: false, Init: Facts{}}
		var bad []string
		record := func(pos token.Pos, what string) {
			bad = append(bad, what+" at "+w.pos(pos))
		}
		d.Transfer = func(nd ast.Node, in Facts) Facts {
			out := in
			if _, isDefer := nd.(*ast.DeferStmt); isDefer {
				return out
			}
			// calls inside this node, in evaluation order; the assignment takes effect last
			inspectPost(nd, func(x ast.Node) {
				if _, ok := x.(*ast.FuncLit); ok {
					return
				}
				if c, ok := x.(*ast.CallExpr); ok {
					if isClose(c) {
						out = out.without("pending")
					}
				}
			})
			if isWrite(nd) {
				out = out.with("pending")
			}
			return out
		}
		d.Run()
		d.Walk(func(_ *cfg.Block, nd ast.Node, before Facts) {
			if !before["pending"] {
				return
			}
			if _, isDefer := nd.(*ast.DeferStmt); isDefer {
				return
			}
			if isWrite(nd) {
				// a second field of the same outcome: its right-hand side must not call
				as := nd.(*ast.AssignStmt)
				for _, r := range as.Rhs {
					if len(callsIn(r)) > 0 {
						record(nd.Pos(), "a call in "+types.ExprString(r))
					}
				}
				return
			}
			for _, c := range callsIn(nd) {
				if isClose(c) {
					return
				}
				if tv, ok := info.Types[c.Fun]; ok && tv.IsType() {
					continue
				}
				record(c.Pos(), "the call "+types.ExprString(c.Fun)+"(…)")
				return
			}
		})
		for _, e := range d.Exits(info, body.End()) {
			if e.State["pending"] {
				what := "the end of the function"
				if defers {
					what += " (its deferred calls run next)"
				}
				record(e.Pos, what)
			}
		}
		n++
		key := "outcome-with-close|" + label
		if len(bad) == 0 {
			w.ok(key, body.Pos(), "every write of result.res / result.err is followed immediately by close(result.ready)")
		} else {
			sort.Strings(bad)
			w.violation(key, body.Pos(), "result.res / result.err is written and ready is not closed at once: "+strings.Join(bad, "; ")+" comes first — a panic there finds `r.err != nil` (or a result already stored) in the recover handler, which then delivers nothing: ready is never closed, Compile and every importer of the file hang, and the panic value is lost")
		}
	}
	for _, b := range allFuncBodies(p) {
		if b.Lit != nil {
			continue
		}
		scan(b.Label, b.Body, false)
	}
	w.floor("functions that write result.res / result.err", n, 2)
}

// R35b (C35): a query key is an injective image of what Execute reads. R35 checks that every
// receiver field Execute reads *flows* into Key(); R35b checks how: in a Key() body, data derived
// from the receiver may be copied, selected, put into a struct, converted, joined with a separator
// or formatted, but must not pass through a function that forgets something — sorting or
// compacting (order, multiplicity: Link's result lists files in workspace order and reports the
// *first* of two clashing extensions), len, case folding, trimming, base names, hashing. Two
// queries that differ in what was forgotten would share one cache entry, so a long-lived executor
// answers the second with the first one's result.
func r35bKeyInjective(w *World) {
	w.rule("R35b")
	p := w.pkg(queriesRel)
	if p == nil {
		return
	}
	info := p.TypesInfo
	lossy := map[string]string{
		"slices.Sort": "order", "slices.SortFunc": "order", "slices.SortStableFunc": "order", "slices.Sorted": "order", "slices.SortedFunc": "order",
		"slices.Compact": "multiplicity", "slices.CompactFunc": "multiplicity", "sort.Strings": "order", "sort.Slice": "order", "sort.Sort": "order", "sort.Stable": "order",
		"maps.Keys": "order", "maps.Values": "order",
		"strings.ToLower": "case", "strings.ToUpper": "case", "strings.TrimSpace": "surrounding space", "strings.Trim": "trimmed characters", "strings.TrimSuffix": "a suffix", "strings.TrimPrefix": "a prefix", "strings.Fields": "spacing",
		"path.Base": "the directory", "path/filepath.Base": "the directory", "path.Clean": "path spelling", "path/filepath.Clean": "path spelling", "path.Dir": "the file name", "path/filepath.Dir": "the file name",
		"len": "everything but the length", "cap": "everything",
	}
	injective := map[string]bool{
		"strings.Join": true, "strings.Clone": true, "bytes.Clone": true, "fmt.Sprintf": true, "fmt.Sprint": true, "slices.Values": true, "slices.Collect": true, "slices.Clone": true, "strconv.Itoa": true, "strconv.Quote": true,
	}
	n := 0
	for _, f := range p.Syntax {
		for _, d := range f.Decls {
			fd, ok := d.(*ast.FuncDecl)
			if !ok || fd.Recv == nil || fd.Body == nil || fd.Name.Name != "Key" || len(fd.Recv.List) != 1 {
				continue
			}
			tname := types.ExprString(fd.Recv.List[0].Type)
			n++
			var bad, unknown []string
			ast.Inspect(fd.Body, func(x ast.Node) bool {
				c, ok := x.(*ast.CallExpr)
				if !ok {
					return true
				}
				if tv, ok := info.Types[c.Fun]; ok && tv.IsType() {
					return true // conversion
				}
				name := ""
				if id, ok := ast.Unparen(c.Fun).(*ast.Ident); ok {
					if _, isB := info.Uses[id].(*types.Builtin); isB {
						name = id.Name
					}
				}
				if name == "" {
					if fn := callee(info, c); fn != nil && fn.Pkg() != nil {
						name = fn.Pkg().Path() + "." + fn.Name()
						if sig, ok := fn.Type().(*types.Signature); ok && sig.Recv() != nil {
							// a method: accessors of the receiver's own fields (Paths(), String(), Name()) return content
							name = "method " + fn.Name()
						}
					}
				}
				switch {
				case lossy[name] != "":
					bad = append(bad, fmt.Sprintf("%s (forgets %s) at %s", name, lossy[name], w.pos(c.Pos())))
				case injective[name], strings.HasPrefix(name, "method "), name == "append", name == "make", name == "new":
				case name == "":
					unknown = append(unknown, types.ExprString(c.Fun)+" at "+w.pos(c.Pos()))
				default:
					unknown = append(unknown, name+" at "+w.pos(c.Pos()))
				}
				return true
			})
			key := "key-injective|" + tname
			switch {
			case len(bad) > 0:
				w.violation(key, fd.Pos(), tname+".Key() passes the query through "+strings.Join(bad, "; ")+": two queries that differ only in what is forgotten share one cache entry, although "+tname+".Execute's result depends on it — a long-lived executor then returns the first query's result for the second, a fresh one does not")
			case len(unknown) > 0:
				w.undecided(key, fd.Pos(), tname+".Key() computes the key through "+strings.Join(unknown, "; ")+", which the rule cannot classify as content-preserving")
			default:
				w.ok(key, fd.Pos(), "the key is built from the query by copying, selecting and composing only")
			}
		}
	}
	w.floor("Key() methods in experimental/incremental/queries", n, 6)
}

// R35c (C35): what a query computes does not depend on the executor's cache state.
// incremental.Result.Changed says whether a dependency was (re)computed during the current Run —
// a fact about the cache, not about the inputs. A query may use it to skip work whose outcome is
// unchanged, but a branch on it that decides whether a dependency is resolved (incremental.Resolve
// under the branch), whether a diagnostic is reported, or what is returned makes the dependency
// set and the output differ between a long-lived executor (dependency already cached: Changed
// false) and a fresh one (Changed true).
func r35cNoCacheStateDependence(w *World) {
	w.rule("R35c")
	p := w.pkg(queriesRel)
	ip := w.pkg(incRel)
	if p == nil || ip == nil {
		return
	}
	info := p.TypesInfo
	isChanged := func(e ast.Expr) bool {
		sel, ok := ast.Unparen(e).(*ast.SelectorExpr)
		if !ok || sel.Sel.Name != "Changed" {
			return false
		}
		f, ok := info.Uses[sel.Sel].(*types.Var)
		return ok && f.IsField() && f.Pkg() == ip.Types
	}
	nExec, nReads := 0, 0
	for _, b := range allFuncBodies(p) {
		if b.Lit != nil {
			continue
		}
		if b.Obj.Name() == "Execute" {
			nExec++
		}
		ast.Inspect(b.Body, func(x ast.Node) bool {
			var cond ast.Expr
			var body ast.Node
			switch s := x.(type) {
			case *ast.IfStmt:
				cond, body = s.Cond, s
			case *ast.SwitchStmt:
				if s.Tag != nil {
					cond, body = s.Tag, s
				}
			case *ast.CaseClause:
				for _, ce := range s.List {
					hit := false
					ast.Inspect(ce, func(y ast.Node) bool {
						if e, ok := y.(ast.Expr); ok && isChanged(e) {
							hit = true
						}
						return !hit
					})
					if hit {
						cond, body = ce, s
					}
				}
			}
			if cond == nil {
				return true
			}
			reads := false
			ast.Inspect(cond, func(y ast.Node) bool {
				if e, ok := y.(ast.Expr); ok && isChanged(e) {
					reads = true
				}
				return !reads
			})
			if !reads {
				return true
			}
			nReads++
			var effects []string
			ast.Inspect(body, func(y ast.Node) bool {
				switch z := y.(type) {
				case *ast.CallExpr:
					if f := callee(info, z); f != nil && f.Pkg() == ip.Types && (f.Name() == "Resolve" || f.Name() == "Report") {
						effects = append(effects, "incremental."+f.Name()+" at "+w.pos(z.Pos()))
					}
				case *ast.ReturnStmt:
					effects = append(effects, "a return at "+w.pos(z.Pos()))
				}
				return true
			})
			key := "cache-state-branch|" + b.Label + "|" + types.ExprString(cond)
			if len(effects) > 0 {
				w.violation(key, cond.Pos(), "a branch on Result.Changed controls "+strings.Join(effects, "; ")+": Changed is true on a fresh executor and false when the dependency is already cached, so the dependencies this query registers, the diagnostics it reports or the value it returns differ between a long-lived executor and a brand-new one on the same files")
			} else {
				w.ok(key, cond.Pos(), "the branch on Result.Changed neither resolves dependencies, nor reports, nor returns")
			}
			return true
		})
	}
	w.info("cache-state-branch|reads", token.NoPos, fmt.Sprintf("%d branches on Result.Changed in %d Execute methods", nReads, nExec))
	w.floor("Execute methods in experimental/incremental/queries", nExec, 6)
}

// RA4f (C17): a roll-back list contains only what this call inserted. When an import backs out
// its own registrations after a failure, the list it deletes by must hold exactly the keys whose
// insertion succeeded. Found by shape: a function that deletes from a guarded table of
// packageSymbols while ranging over a slice parameter is a roll-back; at every call the slice
// argument is traced to its appends, and each append must be preceded, on every path inside the
// function (or function literal) that contains it, by a successful call of an inserter of that
// table — recording the key *before* trying to insert it puts the colliding key, which belongs to
// another file, on the list, and the roll-back then deletes that file's registration.
func ra4fRollbackOwnsKeys(w *World) {
	w.rule("RA4f")
	p := w.pkg("linker")
	ps := w.typ("linker", "packageSymbols")
	if p == nil || ps == nil {
		return
	}
	info := p.TypesInfo
	st, _ := ps.Underlying().(*types.Struct)
	tableFields := map[*types.Var]bool{}
	for i := 0; st != nil && i < st.NumFields(); i++ {
		if _, isMap := st.Field(i).Type().Underlying().(*types.Map); isMap {
			tableFields[st.Field(i)] = true
		}
	}
	// inserters per table field: functions that assign table[k] = v, plus their direct callers
	inserters := map[*types.Var]map[*types.Func]bool{}
	for _, b := range allFuncBodies(p) {
		if b.Lit != nil {
			continue
		}
		ast.Inspect(b.Body, func(x ast.Node) bool {
			as, ok := x.(*ast.AssignStmt)
			if !ok {
				return true
			}
			for _, l := range as.Lhs {
				if ix, ok := ast.Unparen(l).(*ast.IndexExpr); ok {
					if f := selField(info, ix.X); f != nil && tableFields[f] {
						if inserters[f] == nil {
							inserters[f] = map[*types.Func]bool{}
						}
						inserters[f][b.Obj] = true
					}
				}
			}
			return true
		})
	}
	for _, set := range inserters {
		for _, b := range allFuncBodies(p) {
			if b.Lit != nil {
				continue
			}
			ast.Inspect(b.Body, func(x ast.Node) bool {
				if c, ok := x.(*ast.CallExpr); ok {
					if f := callee(info, c); f != nil && set[f] && f != b.Obj {
						set[b.Obj] = true
					}
				}
				return true
			})
		}
	}
	nRollbacks := 0
	for _, b := range allFuncBodies(p) {
		if b.Lit != nil {
			continue
		}
		// delete(X.table, k) inside `for _, k := range <slice parameter>`
		parents := parentMap(b.Decl)
		ast.Inspect(b.Body, func(x ast.Node) bool {
			c, ok := x.(*ast.CallExpr)
			if !ok || !isBuiltinCall(info, c, "delete") || len(c.Args) != 2 {
				return true
			}
			tf := selField(info, c.Args[0])
			if tf == nil || !tableFields[tf] {
				return true
			}
			// enclosing range over a parameter
			var param *types.Var
			for cur := parents[c]; cur != nil; cur = parents[cur] {
				if rs, ok := cur.(*ast.RangeStmt); ok {
					if id, ok := ast.Unparen(rs.X).(*ast.Ident); ok {
						if v, ok := info.Uses[id].(*types.Var); ok {
							sig := b.Obj.Type().(*types.Signature)
							for i := 0; i < sig.Params().Len(); i++ {
								if sig.Params().At(i) == v {
									param = v
								}
							}
						}
					}
				}
			}
			if param == nil {
				return true
			}
			nRollbacks++
			sig := b.Obj.Type().(*types.Signature)
			pidx := -1
			for i := 0; i < sig.Params().Len(); i++ {
				if sig.Params().At(i) == param {
					pidx = i
				}
			}
			// call sites of the roll-back
			for _, cb := range allFuncBodies(p) {
				if cb.Lit != nil {
					continue
				}
				ast.Inspect(cb.Body, func(y ast.Node) bool {
					call, ok := y.(*ast.CallExpr)
					if !ok || callee(info, call) != b.Obj || pidx >= len(call.Args) {
						return true
					}
					lid, ok := ast.Unparen(call.Args[pidx]).(*ast.Ident)
					if !ok {
						w.undecided("rollback-owns-keys|"+cb.Label+"|"+b.Obj.Name(), call.Pos(), "the roll-back list is not a plain variable")
						return true
					}
					lobj := info.Uses[lid]
					// appends to the list anywhere in the caller (function literals included)
					var check func(body *ast.BlockStmt, label string)
					check = func(body *ast.BlockStmt, label string) {
						for _, fl := range funcLits(body) {
							check(fl.Body, label+"$lit")
						}
						isAppend := func(n ast.Node) bool {
							as, ok := n.(*ast.AssignStmt)
							if !ok || len(as.Lhs) != 1 || len(as.Rhs) != 1 {
								return false
							}
							id, ok := as.Lhs[0].(*ast.Ident)
							if !ok || info.Uses[id] != lobj {
								return false
							}
							ac, ok := ast.Unparen(as.Rhs[0]).(*ast.CallExpr)
							return ok && isBuiltinCall(info, ac, "append")
						}
						has := false
						ast.Inspect(body, func(z ast.Node) bool {
							if _, ok := z.(*ast.FuncLit); ok {
								return false
							}
							if isAppend(z) {
								has = true
							}
							return true
						})
						if !has {
							return
						}
						// must-dataflow: "inserted" after a successful inserter call
						g := buildCFG(info, body)
						d := &Dataflow{G: g, Must: true, Init: Facts{}}
						d.Transfer = func(n ast.Node, in Facts) Facts {
							out := in
							if as, ok := n.(*ast.AssignStmt); ok && len(as.Rhs) == 1 {
								if ic, ok := ast.Unparen(as.Rhs[0]).(*ast.CallExpr); ok {
									if f := callee(info, ic); f != nil && inserters[tf][f] && len(as.Lhs) >= 1 {
										return out.with("ins:" + render(as.Lhs[len(as.Lhs)-1]))
									}
								}
							}
							return out
						}
						d.Branch = func(leaf ast.Expr, truth bool, s Facts) Facts {
							if be, ok := ast.Unparen(leaf).(*ast.BinaryExpr); ok && isNilIdent(info, be.Y) && s["ins:"+render(be.X)] {
								if (be.Op == token.EQL) == truth {
									return s.with("inserted")
								}
							}
							return s
						}
						d.Run()
						d.Walk(func(_ *cfg.Block, n ast.Node, before Facts) {
							if !isAppend(n) {
								return
							}
							key := "rollback-owns-keys|" + label + "|" + lid.Name
							if before["inserted"] {
								w.ok(key, n.Pos(), "the key is recorded for roll-back only after its insertion succeeded")
							} else {
								w.violation(key, n.Pos(), "a key is appended to the roll-back list "+lid.Name+" before (or regardless of whether) its insertion into "+tf.Name()+" succeeded: when the insertion fails because another file already owns the key, "+b.Obj.Name()+" deletes that other file's registration — the failed import does not leave the table as it was, the collision is not reported again and the number can be handed out twice")
							}
						})
					}
					check(cb.Body, cb.Label)
					return true
				})
			}
			return true
		})
	}
	w.info("rollback-owns-keys|rollbacks", token.NoPos, fmt.Sprintf("%d roll-back functions (delete from a packageSymbols table by a slice parameter)", nRollbacks))
}

// RG2 (C34): a panic that unwinds task.run is swallowed on every path of its deferred handler
// except the deliberate one. The handler may leave a panic un-recovered only when the Run was
// *aborted* (an internal invariant violation: the root goroutine is meant to re-panic) — the
// branch established by `caller.aborted() != nil`. A merely cancelled context (an earlier
// ErrPanic of a sibling query, a user cancel) is not that: a second query panicking after the
// first cancelled the run, or a nested dependency panicking while its parent waits on the root
// goroutine, would escape incremental.Run instead of becoming an error. Must-dataflow over the
// deferred function literal that contains recover(): fact "recovered" after a recover() call,
// fact "aborted" on the edge where `<x>.aborted() != nil` is implied; every exit needs one.
func rg2PanicAlwaysRecovered(w *World) {
	w.rule("RG2")
	run := w.fn(incRel, "(*task).run")
	aborted := w.fn(incRel, "(*Task).aborted")
	if run == nil || aborted == nil {
		return
	}
	info := run.Pkg.TypesInfo
	var handler *ast.FuncLit
	ast.Inspect(run.Decl.Body, func(x ast.Node) bool {
		ds, ok := x.(*ast.DeferStmt)
		if !ok || handler != nil {
			return true
		}
		if fl, ok := ds.Call.Fun.(*ast.FuncLit); ok {
			has := false
			ast.Inspect(fl.Body, func(y ast.Node) bool {
				if c, ok := y.(*ast.CallExpr); ok && isBuiltinCall(info, c, "recover") {
					has = true
				}
				return true
			})
			if has {
				handler = fl
			}
		}
		return true
	})
	if handler == nil {
		w.undecided("panic-always-recovered|handler", run.Decl.Pos(), "task.run has no deferred function literal that calls recover()")
		return
	}
	g := buildCFG(info, handler.Body)
	d := &Dataflow{G: g, Must: true, Init: Facts{}}
	d.Transfer = func(n ast.Node, in Facts) Facts {
		out := in
		inspectPost(n, func(x ast.Node) {
			if c, ok := x.(*ast.CallExpr); ok && isBuiltinCall(info, c, "recover") {
				out = out.with("settled")
			}
		})
		// `v := <task>.aborted()`: v stands for the abort state
		if as, ok := n.(*ast.AssignStmt); ok && len(as.Lhs) == 1 && len(as.Rhs) == 1 {
			if c, ok := ast.Unparen(as.Rhs[0]).(*ast.CallExpr); ok && callee(info, c) == aborted.Obj {
				out = out.with("ab:" + render(as.Lhs[0]))
			} else {
				out = out.without("ab:" + render(as.Lhs[0]))
			}
		}
		return out
	}
	d.Branch = func(leaf ast.Expr, truth bool, s Facts) Facts {
		be, ok := ast.Unparen(leaf).(*ast.BinaryExpr)
		if !ok || !isNilIdent(info, be.Y) {
			return s
		}
		isAbortState := false
		if c, ok := ast.Unparen(be.X).(*ast.CallExpr); ok && callee(info, c) == aborted.Obj {
			isAbortState = true
		} else if s["ab:"+render(be.X)] {
			isAbortState = true
		}
		if !isAbortState {
			return s
		}
		if (be.Op == token.NEQ) == truth {
			return s.with("settled") // aborted: the root goroutine re-panics on purpose
		}
		return s
	}
	d.Run()
	var bad []string
	nExit := 0
	for _, e := range d.Exits(info, handler.Body.End()) {
		nExit++
		if !e.State["settled"] {
			bad = append(bad, w.pos(e.Pos))
		}
	}
	// runtime.Goexit() is an exit as well
	d.Walk(func(_ *cfg.Block, n ast.Node, before Facts) {
		for _, c := range callsIn(n) {
			if f := callee(info, c); f != nil && f.Pkg() != nil && f.Pkg().Path() == "runtime" && f.Name() == "Goexit" {
				nExit++
				if !before["settled"] {
					bad = append(bad, w.pos(c.Pos()))
				}
			}
		}
	})
	if len(bad) == 0 {
		w.ok("panic-always-recovered", handler.Pos(), fmt.Sprintf("on each of the %d exits of task.run's deferred handler the panic has been recovered, or the Run is known to be aborted (the deliberate re-panic)", nExit))
	} else {
		sort.Strings(bad)
		w.violation("panic-always-recovered", handler.Pos(), "task.run's deferred handler can finish (at "+strings.Join(bad, ", ")+") without calling recover() on a path where the Run is not known to be aborted: with a context that is merely cancelled (an earlier ErrPanic, a user cancel) a panicking query unwinds through incremental.Run on the root goroutine instead of being turned into an error")
	}
}

// RE-inc transfer shape (C34): Task.transferFrom is the hand-over of the semaphore permit between
// caller and callee; RE-inc models it as an unconditional swap of the two `holding` flags. Its
// body must be that: every normal exit is preceded by the swap assignment. An early return (for
// instance "the context is cancelled anyway") leaves the permit recorded on a Task that is about
// to be dropped — release() then finds holding == false and returns silently, and the permit is
// never given back: after as many such runs as there are permits every later Run blocks.
func reIncTransferShape(w *World) {
	w.rule("RE")
	tf := w.fn(incRel, "(*Task).transferFrom")
	holding := w.field(incRel, "Task", "holding")
	if tf == nil || holding == nil {
		return
	}
	info := tf.Pkg.TypesInfo
	// symbolic values of the two flags along each path: facts "val:<expr>=<symbol>"; the initial
	// symbol of a flag expression e is "e@0". A tuple assignment, or the same swap written with a
	// temporary, ends with each flag holding the other's initial symbol.
	flagExprs := map[string]bool{}
	ast.Inspect(tf.Decl.Body, func(x ast.Node) bool {
		if e, ok := x.(ast.Expr); ok && selField(info, e) == holding {
			flagExprs[render(e)] = true
		}
		return true
	})
	symOf := func(st Facts, e ast.Expr) string {
		k := render(e)
		for f := range st {
			if strings.HasPrefix(f, "val:"+k+"=") {
				return strings.TrimPrefix(f, "val:"+k+"=")
			}
		}
		if flagExprs[k] {
			return k + "@0"
		}
		return ""
	}
	setSym := func(st Facts, k, v string) Facts {
		for f := range st {
			if strings.HasPrefix(f, "val:"+k+"=") {
				st = st.without(f)
			}
		}
		if v != "" {
			st = st.with("val:" + k + "=" + v)
		}
		return st
	}
	g := buildCFG(info, tf.Decl.Body)
	d := &Dataflow{G: g, Must: true, Init: Facts{}}
	d.Transfer = func(n ast.Node, in Facts) Facts {
		as, ok := n.(*ast.AssignStmt)
		if !ok || len(as.Lhs) != len(as.Rhs) {
			return in
		}
		vals := make([]string, len(as.Rhs))
		for i, r := range as.Rhs {
			vals[i] = symOf(in, r)
		}
		out := in
		for i, l := range as.Lhs {
			out = setSym(out, render(l), vals[i])
		}
		var flags []string
		for k := range flagExprs {
			flags = append(flags, k)
		}
		if len(flags) == 2 {
			a, b := flags[0], flags[1]
			va, vb := "", ""
			for f := range out {
				if strings.HasPrefix(f, "val:"+a+"=") {
					va = strings.TrimPrefix(f, "val:"+a+"=")
				}
				if strings.HasPrefix(f, "val:"+b+"=") {
					vb = strings.TrimPrefix(f, "val:"+b+"=")
				}
			}
			if va == b+"@0" && vb == a+"@0" {
				out = out.with("swapped")
			} else {
				out = out.without("swapped")
			}
		}
		return out
	}
	d.Run()
	var bad []string
	for _, e := range d.Exits(info, tf.Decl.Body.End()) {
		if e.Kind == "panic" {
			continue
		}
		if !e.State["swapped"] {
			bad = append(bad, w.pos(e.Pos))
		}
	}
	// t.abort(...) panics; exits through it are not normal exits
	if len(bad) > 0 {
		var real []string
		for _, e := range d.Exits(info, tf.Decl.Body.End()) {
			if e.State["swapped"] || e.Kind == "panic" {
				continue
			}
			if es, ok := e.Last.(*ast.ExprStmt); ok {
				if c, ok := es.X.(*ast.CallExpr); ok {
					if f := callee(info, c); f != nil && f.Name() == "abort" {
						continue
					}
				}
			}
			real = append(real, w.pos(e.Pos))
		}
		bad = real
	}
	if len(bad) == 0 {
		w.ok("transfer-is-a-swap", tf.Decl.Pos(), "every normal exit of Task.transferFrom has swapped the holding flags of the two tasks")
	} else {
		sort.Strings(bad)
		w.violation("transfer-is-a-swap", tf.Decl.Pos(), "Task.transferFrom can return (at "+strings.Join(bad, ", ")+") without swapping the holding flags: the permit stays recorded on the other Task, whose release() never runs (or returns silently because the context is cancelled), so the permit is never given back and later Runs block once all permits have leaked")
	}
}

// RA4g (C16, C17): the check pass covers everything the commit pass writes. Importing a file is
// check-then-commit under one lock: checkFileLocked / checkResultLocked walk the file's
// descriptors and look each name up in the package's symbol table, commitFileLocked walks them
// again and stores each name unconditionally. The check callback must therefore perform the
// lookup on every path that ends in "no problem" (return nil): a path that skips it — nested
// elements, say, on the grounds that their parent's name was checked — leaves names unchecked
// that the commit then overwrites (the values of a top-level enum live in the package scope,
// next to the enum).
func ra4gCheckCoversCommit(w *World) {
	w.rule("RA4g")
	p := w.pkg("linker")
	symF := w.field("linker", "packageSymbols", "symbols")
	if p == nil || symF == nil {
		return
	}
	info := p.TypesInfo
	n := 0
	for _, name := range []string{"(*packageSymbols).checkFileLocked", "(*packageSymbols).checkResultLocked"} {
		fr := w.fn("linker", name)
		if fr == nil {
			continue
		}
		// the callback handed to walk.Descriptors
		var cb *ast.FuncLit
		ast.Inspect(fr.Decl.Body, func(x ast.Node) bool {
			c, ok := x.(*ast.CallExpr)
			if !ok || cb != nil {
				return true
			}
			if f := callee(info, c); f != nil && f.Pkg() != nil && strings.HasSuffix(f.Pkg().Path(), "/walk") {
				for _, a := range c.Args {
					if fl, ok := a.(*ast.FuncLit); ok {
						cb = fl
					}
				}
			}
			return true
		})
		if cb == nil {
			w.undecided("check-covers-commit|"+fr.Name, fr.Decl.Pos(), "no walk callback found in the check pass")
			continue
		}
		n++
		isLookup := func(x ast.Node) bool {
			found := false
			ast.Inspect(x, func(y ast.Node) bool {
				if _, ok := y.(*ast.FuncLit); ok {
					return false
				}
				if ix, ok := y.(*ast.IndexExpr); ok && selField(info, ix.X) == symF {
					found = true
				}
				return !found
			})
			return found
		}
		g := buildCFG(info, cb.Body)
		d := &Dataflow{G: g, Must: true, Init: Facts{}}
		d.Transfer = func(nd ast.Node, in Facts) Facts {
			if isLookup(nd) {
				return in.with("looked")
			}
			return in
		}
		d.Run()
		var bad []string
		for _, e := range d.Exits(info, cb.Body.End()) {
			if e.State["looked"] {
				continue
			}
			// only the "no problem" exits matter
			if r, ok := e.Last.(*ast.ReturnStmt); ok && len(r.Results) == 1 && !isNilIdent(info, r.Results[0]) {
				continue
			}
			bad = append(bad, w.pos(e.Pos))
		}
		key := "check-covers-commit|" + fr.Name
		if len(bad) == 0 {
			w.ok(key, cb.Pos(), "every descriptor the walk visits is looked up in the symbol table before the callback reports no problem")
		} else {
			sort.Strings(bad)
			w.violation(key, cb.Pos(), "the check pass can return nil for a descriptor (at "+strings.Join(bad, ", ")+") without having looked its name up in the symbol table, while the commit pass stores every descriptor's name unconditionally: a name that collides with an existing symbol (e.g. a value of a top-level enum, which is scoped in the package) is not reported and silently overwrites the existing entry")
		}
	}
	w.floor("check passes of the symbol import", n, 2)
}

// RW6 (C28): suggested edits lie inside their snippet. report.SuggestEdits(at, msg, edits…)
// slices the snippet's text with every edit (`text[edit.Start:edit.End]`): Start and End are
// offsets *relative to the snippet's span*. An edit outside it panics inside the lexer or parser
// and becomes an internal compiler error. For each call (the widening variant excepted) and each
// Edit literal that reaches it (inline, or appended to the slice that is passed) the bounds are
// classified:
//
//	constant, or a length (`X.Len()`, `len(X.Text())`)          relative — X must be the snippet
//	`X.Start - S.Start` / `X.End - S.Start`                       relative, if S is the snippet's span and
//	                                                              X has not been grown (GrowLeft/GrowRight,
//	                                                              End++, Start--) beyond a sub-span
//	anything else that mentions a span's Start/End                 a file offset used as a relative one
func rw6EditsInsideSnippet(w *World) {
	w.rule("RW6")
	rp := w.pkg("experimental/report")
	if rp == nil {
		return
	}
	suggest, _ := rp.Types.Scope().Lookup("SuggestEdits").(*types.Func)
	editT, _ := rp.Types.Scope().Lookup("Edit").(*types.TypeName)
	if suggest == nil || editT == nil {
		w.undecided("edits-inside-snippet|anchor", token.NoPos, "report.SuggestEdits / report.Edit not found")
		return
	}
	nCalls, nEdits := 0, 0
	for _, p := range w.Roots {
		if !strings.Contains(p.PkgPath, "/experimental/") || p == rp {
			continue
		}
		info := p.TypesInfo
		for _, b := range allFuncBodies(p) {
			if b.Lit != nil {
				continue
			}
			// canonical name of a span-ish expression: strip .Span() and source.GetSpan()
			var canon func(e ast.Expr) string
			localDef := map[types.Object]ast.Expr{} // single-definition locals
			defCount := map[types.Object]int{}
			grown := map[types.Object]string{}
			ast.Inspect(b.Body, func(x ast.Node) bool {
				switch s := x.(type) {
				case *ast.AssignStmt:
					if len(s.Lhs) == len(s.Rhs) {
						for i, l := range s.Lhs {
							if id, ok := l.(*ast.Ident); ok {
								o := info.Defs[id]
								if o == nil {
									o = info.Uses[id]
								}
								if o != nil {
									defCount[o]++
									localDef[o] = s.Rhs[i]
									if g := growCall(s.Rhs[i]); g != "" {
										grown[o] = g + " at " + w.pos(s.Pos())
									}
								}
							}
							// X.End = … / X.Start = …
							if sel, ok := l.(*ast.SelectorExpr); ok && (sel.Sel.Name == "End" || sel.Sel.Name == "Start") {
								if id, ok := ast.Unparen(sel.X).(*ast.Ident); ok {
									if o := info.Uses[id]; o != nil && s.Tok != token.DEFINE {
										grown[o] = types.ExprString(l) + " " + s.Tok.String() + " … at " + w.pos(s.Pos())
									}
								}
							}
						}
					}
				case *ast.IncDecStmt:
					if sel, ok := s.X.(*ast.SelectorExpr); ok && (sel.Sel.Name == "End" || sel.Sel.Name == "Start") {
						if id, ok := ast.Unparen(sel.X).(*ast.Ident); ok {
							if o := info.Uses[id]; o != nil {
								grown[o] = types.ExprString(s.X) + s.Tok.String() + " at " + w.pos(s.Pos())
							}
						}
					}
				}
				return true
			})
			canon = func(e ast.Expr) string {
				e = ast.Unparen(e)
				if c, ok := e.(*ast.CallExpr); ok {
					if sel, ok := ast.Unparen(c.Fun).(*ast.SelectorExpr); ok && sel.Sel.Name == "Span" && len(c.Args) == 0 {
						return canon(sel.X)
					}
					if f := callee(info, c); f != nil && f.Name() == "GetSpan" && len(c.Args) == 1 {
						return canon(c.Args[0])
					}
				}
				if id, ok := e.(*ast.Ident); ok {
					if o := info.Uses[id]; o != nil && defCount[o] == 1 && grown[o] == "" {
						if d := localDef[o]; d != nil {
							if dc, ok := ast.Unparen(d).(*ast.CallExpr); ok {
								if sel, ok := ast.Unparen(dc.Fun).(*ast.SelectorExpr); ok && sel.Sel.Name == "Span" && len(dc.Args) == 0 {
									return canon(sel.X)
								}
							}
						}
					}
				}
				return types.ExprString(e)
			}
			ord := 0
			ast.Inspect(b.Body, func(x ast.Node) bool {
				call, ok := x.(*ast.CallExpr)
				if !ok || callee(info, call) != suggest || len(call.Args) < 2 {
					return true
				}
				nCalls++
				snip := canon(call.Args[0])
				// the Edit literals that reach the call
				var lits []*ast.CompositeLit
				for _, a := range call.Args[2:] {
					a = ast.Unparen(a)
					if cl, ok := a.(*ast.CompositeLit); ok {
						lits = append(lits, cl)
						continue
					}
					if id, ok := a.(*ast.Ident); ok && call.Ellipsis.IsValid() {
						lo := info.Uses[id]
						ast.Inspect(b.Body, func(y ast.Node) bool {
							as, ok := y.(*ast.AssignStmt)
							if !ok || len(as.Lhs) != 1 || len(as.Rhs) != 1 {
								return true
							}
							lid, ok := as.Lhs[0].(*ast.Ident)
							if !ok || (info.Uses[lid] != lo && info.Defs[lid] != lo) {
								return true
							}
							ast.Inspect(as.Rhs[0], func(z ast.Node) bool {
								if cl, ok := z.(*ast.CompositeLit); ok {
									if tv, ok := info.Types[cl]; ok {
										if nt, ok := tv.Type.(*types.Named); ok && nt.Obj() == editT {
											lits = append(lits, cl)
											return false
										}
									}
								}
								return true
							})
							return true
						})
					}
				}
				for _, cl := range lits {
					for _, el := range cl.Elts {
						kv, ok := el.(*ast.KeyValueExpr)
						if !ok {
							continue
						}
						fname := render(kv.Key)
						if fname != "Start" && fname != "End" {
							continue
						}
						nEdits++
						ord++
						verdict, why := classifyEditBound(info, kv.Value, snip, canon, grown)
						key := fmt.Sprintf("edits-inside-snippet|%s|%s: %s", b.Label, fname, types.ExprString(kv.Value))
						switch verdict {
						case "ok":
							w.ok(key, kv.Pos(), why)
						case "bad":
							w.violation(key, kv.Pos(), why+" — report.SuggestEdits slices the snippet text with the edit, so an edit outside the snippet panics during lexing/parsing and surfaces as an internal compiler error")
						default:
							w.info(key, kv.Pos(), "not classified: "+why)
						}
					}
				}
				return true
			})
		}
	}
	w.floor("report.SuggestEdits calls in experimental/", nCalls, 40)
	w.floor("classified edit bounds", nEdits, 60)
}

func growCall(e ast.Expr) string {
	found := ""
	ast.Inspect(e, func(x ast.Node) bool {
		if c, ok := x.(*ast.CallExpr); ok {
			if sel, ok := ast.Unparen(c.Fun).(*ast.SelectorExpr); ok && (sel.Sel.Name == "GrowLeft" || sel.Sel.Name == "GrowRight") {
				found = sel.Sel.Name
			}
		}
		return found == ""
	})
	return found
}

func classifyEditBound(info *types.Info, e ast.Expr, snip string, canon func(ast.Expr) string, grown map[types.Object]string) (string, string) {
	e = ast.Unparen(e)
	if tv, ok := info.Types[e]; ok && tv.Value != nil {
		return "ok", "a constant offset"
	}
	// does the expression mention a span's Start/End at all?
	var offs []*ast.SelectorExpr
	ast.Inspect(e, func(x ast.Node) bool {
		if sel, ok := x.(*ast.SelectorExpr); ok && (sel.Sel.Name == "Start" || sel.Sel.Name == "End") {
			if t := info.TypeOf(sel.X); t != nil && strings.HasSuffix(t.String(), "source.Span") {
				offs = append(offs, sel)
			}
		}
		return true
	})
	if len(offs) == 0 {
		// lengths: X.Len() / len(X.Text()) must be the snippet's own
		var other []string
		ast.Inspect(e, func(x ast.Node) bool {
			c, ok := x.(*ast.CallExpr)
			if !ok {
				return true
			}
			if sel, ok := ast.Unparen(c.Fun).(*ast.SelectorExpr); ok && sel.Sel.Name == "Len" && len(c.Args) == 0 {
				if cn := canon(sel.X); cn != snip {
					other = append(other, cn)
				}
				return false
			}
			if id, ok := ast.Unparen(c.Fun).(*ast.Ident); ok && id.Name == "len" && len(c.Args) == 1 {
				if tc, ok := ast.Unparen(c.Args[0]).(*ast.CallExpr); ok {
					if sel, ok := ast.Unparen(tc.Fun).(*ast.SelectorExpr); ok && sel.Sel.Name == "Text" {
						if cn := canon(sel.X); cn != snip {
							other = append(other, cn)
						}
						return false
					}
				}
			}
			return true
		})
		if len(other) > 0 {
			return "unknown", "a length of " + strings.Join(other, ", ") + ", which is not the snippet (" + snip + ")"
		}
		return "ok", "a length of the snippet / a span-free offset"
	}
	// X.{Start,End} - S.Start
	if be, ok := e.(*ast.BinaryExpr); ok && be.Op == token.SUB {
		if ys, ok := ast.Unparen(be.Y).(*ast.SelectorExpr); ok && ys.Sel.Name == "Start" && canon(ys.X) == snip {
			if xs, ok := ast.Unparen(be.X).(*ast.SelectorExpr); ok && (xs.Sel.Name == "Start" || xs.Sel.Name == "End") {
				if id, ok := ast.Unparen(xs.X).(*ast.Ident); ok {
					if g := grown[info.Uses[id]]; g != "" {
						return "bad", "the edit is bounded by " + types.ExprString(be.X) + ", a span that was extended (" + g + ") and may reach past the snippet " + snip + " (e.g. over white space after an unterminated declaration); only SuggestEditsWithWidening accepts that"
					}
				}
				return "ok", "an offset of a sub-span relative to the snippet's start"
			}
		}
	}
	for _, sel := range offs {
		_ = sel
	}
	// a file offset that is not made relative to the snippet
	relative := false
	if be, ok := e.(*ast.BinaryExpr); ok && be.Op == token.SUB {
		if ys, ok := ast.Unparen(be.Y).(*ast.SelectorExpr); ok && ys.Sel.Name == "Start" {
			relative = true // relative to some other span: not decided
		}
	}
	if relative {
		return "unknown", "relative to " + types.ExprString(e.(*ast.BinaryExpr).Y) + ", which is not the snippet's start"
	}
	return "bad", types.ExprString(e) + " is an offset into the file (it uses a span's Start/End without subtracting the snippet's Start), but Edit bounds are relative to the snippet " + snip
}

// RW7 (C28): recursion that follows the nesting of the input is bounded. The experimental parser
// is recursive descent: parseDecl -> parseBody -> parseDecl … one cycle of frames per `{`, and
// likewise for expressions and types. Go stacks grow to 1 GB and then the runtime aborts the
// process with "fatal error: stack overflow", which neither recover() nor CatchICE can intercept —
// the opposite of "finishes without a panic for any source text". For every cycle (strongly
// connected component) of the package's static call graph that contains a function taking a
// *token.Cursor or token.Token (the functions that descend into nested input), some function of
// the cycle must contain a depth guard: a comparison of a depth/nesting counter with a bound whose
// branch leaves the function.
func rw7RecursionBounded(w *World) {
	w.rule("RW7")
	p := w.pkg("experimental/parser")
	if p == nil {
		return
	}
	info := p.TypesInfo
	decls := map[*types.Func]*ast.FuncDecl{}
	var order []*types.Func
	for _, b := range allFuncBodies(p) {
		if b.Lit == nil {
			decls[b.Obj] = b.Decl
			order = append(order, b.Obj)
		}
	}
	edges := map[*types.Func][]*types.Func{}
	for f, d := range decls {
		seen := map[*types.Func]bool{}
		ast.Inspect(d.Body, func(x ast.Node) bool {
			switch y := x.(type) {
			case *ast.CallExpr:
				if g := callee(info, y); g != nil && decls[g.Origin()] != nil && !seen[g.Origin()] {
					seen[g.Origin()] = true
					edges[f] = append(edges[f], g.Origin())
				}
			case *ast.Ident:
				// a function value (callback) counts as a potential call
				if g, ok := info.Uses[y].(*types.Func); ok && decls[g.Origin()] != nil && !seen[g.Origin()] {
					seen[g.Origin()] = true
					edges[f] = append(edges[f], g.Origin())
				}
			}
			return true
		})
	}
	// Tarjan
	index, low := map[*types.Func]int{}, map[*types.Func]int{}
	onStack := map[*types.Func]bool{}
	var stack []*types.Func
	var sccs [][]*types.Func
	next := 0
	var strong func(v *types.Func)
	strong = func(v *types.Func) {
		index[v], low[v] = next, next
		next++
		stack = append(stack, v)
		onStack[v] = true
		for _, u := range edges[v] {
			if _, ok := index[u]; !ok {
				strong(u)
				if low[u] < low[v] {
					low[v] = low[u]
				}
			} else if onStack[u] && index[u] < low[v] {
				low[v] = index[u]
			}
		}
		if low[v] == index[v] {
			var comp []*types.Func
			for {
				u := stack[len(stack)-1]
				stack = stack[:len(stack)-1]
				onStack[u] = false
				comp = append(comp, u)
				if u == v {
					break
				}
			}
			sccs = append(sccs, comp)
		}
	}
	for _, f := range order {
		if _, ok := index[f]; !ok {
			strong(f)
		}
	}
	takesInput := func(f *types.Func) bool {
		sig := f.Type().(*types.Signature)
		for i := 0; i < sig.Params().Len(); i++ {
			t := sig.Params().At(i).Type().String()
			if strings.HasSuffix(t, "token.Cursor") || strings.HasSuffix(t, "token.Token") {
				return true
			}
		}
		return false
	}
	isDepthName := func(s string) bool {
		s = strings.ToLower(s)
		return strings.Contains(s, "depth") || strings.Contains(s, "nest") || strings.Contains(s, "recurs") || strings.Contains(s, "level")
	}
	hasGuard := func(d *ast.FuncDecl) bool {
		found := false
		ast.Inspect(d.Body, func(x ast.Node) bool {
			ifs, ok := x.(*ast.IfStmt)
			if !ok || found {
				return !found
			}
			be, ok := ast.Unparen(ifs.Cond).(*ast.BinaryExpr)
			if !ok {
				return true
			}
			switch be.Op {
			case token.GTR, token.GEQ, token.LSS, token.LEQ:
			default:
				return true
			}
			mentions := false
			ast.Inspect(be, func(y ast.Node) bool {
				switch z := y.(type) {
				case *ast.Ident:
					if isDepthName(z.Name) {
						mentions = true
					}
				case *ast.SelectorExpr:
					if isDepthName(z.Sel.Name) {
						mentions = true
					}
				}
				return true
			})
			if !mentions || len(ifs.Body.List) == 0 {
				return true
			}
			if _, ok := ifs.Body.List[len(ifs.Body.List)-1].(*ast.ReturnStmt); ok {
				found = true
			}
			return true
		})
		return found
	}
	n := 0
	for _, comp := range sccs {
		cyclic := len(comp) > 1
		if !cyclic {
			for _, u := range edges[comp[0]] {
				if u == comp[0] {
					cyclic = true
				}
			}
		}
		if !cyclic {
			continue
		}
		input := false
		var names []string
		for _, f := range comp {
			if takesInput(f) {
				input = true
			}
			names = append(names, f.Name())
		}
		if !input {
			continue
		}
		sort.Strings(names)
		n++
		guarded := ""
		for _, f := range comp {
			if hasGuard(decls[f]) {
				guarded = f.Name()
			}
		}
		key := "recursion-depth|" + names[0] + "…" + names[len(names)-1]
		shown := names
		if len(shown) > 6 {
			shown = append(append([]string{}, shown[:6]...), "…")
		}
		if guarded != "" {
			w.ok(key, decls[comp[0]].Pos(), "the recursion {"+strings.Join(shown, ", ")+"} is bounded by the depth guard in "+guarded)
		} else {
			w.violation(key, decls[comp[0]].Pos(), fmt.Sprintf("the %d mutually recursive parser functions {%s} descend once per nesting level of the input and none of them bounds the depth: a few million opening brackets exhaust the 1 GB goroutine stack and the runtime aborts the process (fatal error: stack overflow — not a panic, so neither recover nor CatchICE sees it)", len(comp), strings.Join(shown, ", ")))
		}
	}
	w.floor("input-driven recursion cycles in experimental/parser", n, 1)
}

// RT2 (C37): a sorted permutation is applied in the direction it was built for. When a slice of
// indexes P is initialised to the identity and then sorted by a key of table T, P[i] is the *old*
// index of the element that is now at position i: `newT[i] = T[P[i]]` is right, but an index that
// was stored earlier (a field such as Annotation.File) refers to the old numbering and must be
// remapped through the inverse permutation. `idx = P[idx]` maps it the wrong way: with three or
// more files first mentioned in an order that is not its own inverse, every annotation of the
// serialized report points at another file. The rule finds identity-initialised index slices that
// are sorted, and requires every later `P[e]` to be indexed by the variable of a loop that ranges
// over P or over 0..len(P) (building the permuted table), never by a stored index.
func rt2PermutationDirection(w *World) {
	w.rule("RT2")
	p := w.pkg("experimental/report")
	if p == nil {
		return
	}
	info := p.TypesInfo
	nPerm := 0
	for _, b := range allFuncBodies(p) {
		if b.Lit != nil {
			continue
		}
		parents := parentMap(b.Decl)
		// identity-initialised: `P[i] = <conversion of> i` inside a loop over P
		identity := map[types.Object]bool{}
		sorted := map[types.Object]token.Pos{}
		ast.Inspect(b.Body, func(x ast.Node) bool {
			switch s := x.(type) {
			case *ast.AssignStmt:
				if len(s.Lhs) == 1 && len(s.Rhs) == 1 {
					if ix, ok := s.Lhs[0].(*ast.IndexExpr); ok {
						if pid, ok := ast.Unparen(ix.X).(*ast.Ident); ok {
							r := ast.Unparen(s.Rhs[0])
							if c, ok := r.(*ast.CallExpr); ok && len(c.Args) == 1 {
								if tv, ok := info.Types[c.Fun]; ok && tv.IsType() {
									r = ast.Unparen(c.Args[0])
								}
							}
							if render(r) == render(ix.Index) {
								if o := info.Uses[pid]; o != nil {
									identity[o] = true
								}
							}
						}
					}
				}
			case *ast.CallExpr:
				if f := callee(info, s); f != nil && f.Pkg() != nil && (f.Pkg().Path() == "slices" || f.Pkg().Path() == "sort") && strings.HasPrefix(f.Name(), "S") && len(s.Args) >= 1 {
					switch f.Name() {
					case "Sort", "SortFunc", "SortStableFunc", "Slice", "SliceStable", "Stable", "Strings", "Ints":
						if pid, ok := ast.Unparen(s.Args[0]).(*ast.Ident); ok {
							if o := info.Uses[pid]; o != nil {
								sorted[o] = s.Pos()
							}
						}
					}
				}
			}
			return true
		})
		for o, spos := range sorted {
			if !identity[o] {
				continue
			}
			nPerm++
			var bad []string
			nUse := 0
			ast.Inspect(b.Body, func(x ast.Node) bool {
				ix, ok := x.(*ast.IndexExpr)
				if !ok || ix.Pos() < spos {
					return true
				}
				pid, ok := ast.Unparen(ix.X).(*ast.Ident)
				if !ok || info.Uses[pid] != o {
					return true
				}
				nUse++
				// allowed: the index is the key variable of an enclosing loop over P or over a range of positions
				okIdx := false
				if iid, ok := ast.Unparen(ix.Index).(*ast.Ident); ok {
					for cur := parents[ix]; cur != nil; cur = parents[cur] {
						switch l := cur.(type) {
						case *ast.RangeStmt:
							if kid, ok := l.Key.(*ast.Ident); ok && info.Defs[kid] == info.Uses[iid] && info.Uses[iid] != nil {
								okIdx = true
							}
						case *ast.ForStmt:
							if as, ok := l.Init.(*ast.AssignStmt); ok && len(as.Lhs) == 1 {
								if kid, ok := as.Lhs[0].(*ast.Ident); ok && info.Defs[kid] == info.Uses[iid] && info.Uses[iid] != nil {
									okIdx = true
								}
							}
						}
					}
				}
				if !okIdx {
					bad = append(bad, types.ExprString(ix)+" at "+w.pos(ix.Pos()))
				}
				return true
			})
			key := "permutation-direction|" + b.Label + "|" + o.Name()
			if len(bad) == 0 {
				w.ok(key, spos, fmt.Sprintf("the sorted permutation %s is only read position by position (%d uses)", o.Name(), nUse))
			} else {
				w.violation(key, spos, o.Name()+" is the identity sorted by a key, so "+o.Name()+"[i] is the old index of the element now at position i; "+strings.Join(bad, ", ")+" indexes it with a stored (old) index, which applies the permutation in the wrong direction — the inverse is needed. With three or more entries first seen in an order that is not its own inverse every remapped reference points at another entry: the decoder rejects the report or every annotation lands in the wrong file")
			}
		}
	}
	w.info("permutation-direction|count", token.NoPos, fmt.Sprintf("%d sorted identity permutations in experimental/report", nPerm))
}

// RT3 (C37): a scratch slice that is reset in a loop is not stored. `buf = buf[:0]` at the top of an
// iteration re-uses the backing array of the previous iteration; storing buf (or a view of it —
// buf[:n], slices.Clip(buf), which drops capacity but does not copy) into a value that outlives
// the iteration makes all those values share one array: the edits of a later annotation overwrite
// the edits decoded for an earlier one. A stored use must go through a copying call
// (slices.Clone, append to a nil/fresh slice, copy into a make).
func rt3ScratchNotStored(w *World) {
	w.rule("RT3")
	p := w.pkg("experimental/report")
	if p == nil {
		return
	}
	rt3Scan(w, p)
}

func rt3Scan(w *World, p *packages.Package) {
	info := p.TypesInfo
	nLoops, nScratch := 0, 0
	for _, b := range allFuncBodies(p) {
		if b.Lit != nil {
			continue
		}
		parents := parentMap(b.Decl)
		ast.Inspect(b.Body, func(x ast.Node) bool {
			var body *ast.BlockStmt
			switch l := x.(type) {
			case *ast.RangeStmt:
				body = l.Body
			case *ast.ForStmt:
				body = l.Body
			default:
				return true
			}
			nLoops++
			// resets directly in this loop body: v = v[:0]
			for _, st := range body.List {
				as, ok := st.(*ast.AssignStmt)
				if !ok || len(as.Lhs) != 1 || len(as.Rhs) != 1 {
					continue
				}
				vid, ok := as.Lhs[0].(*ast.Ident)
				if !ok {
					continue
				}
				se, ok := ast.Unparen(as.Rhs[0]).(*ast.SliceExpr)
				if !ok || render(se.X) != vid.Name || se.High == nil || render(se.High) != "0" {
					continue
				}
				obj := info.Uses[vid]
				if obj == nil {
					continue
				}
				nScratch++
				var bad []string
				ast.Inspect(body, func(y ast.Node) bool {
					id, ok := y.(*ast.Ident)
					if !ok || info.Uses[id] != obj {
						return true
					}
					// climb through views that do not copy
					var cur ast.Node = id
					for {
						par := parents[cur]
						switch pp := par.(type) {
						case *ast.ParenExpr:
							cur = pp
							continue
						case *ast.SliceExpr:
							if pp.X == cur {
								cur = pp
								continue
							}
						case *ast.CallExpr:
							if f := callee(info, pp); f != nil && f.Pkg() != nil && f.Pkg().Path() == "slices" && (f.Name() == "Clip" || f.Name() == "Grow") && len(pp.Args) >= 1 && pp.Args[0] == cur {
								cur = pp
								continue
							}
						}
						break
					}
					switch pp := parents[cur].(type) {
					case *ast.KeyValueExpr:
						if pp.Value == cur {
							bad = append(bad, "stored in the field "+render(pp.Key)+" at "+w.pos(cur.Pos()))
						}
					case *ast.AssignStmt:
						for i, r := range pp.Rhs {
							if r == cur && i < len(pp.Lhs) {
								if _, isSel := ast.Unparen(pp.Lhs[i]).(*ast.SelectorExpr); isSel {
									bad = append(bad, "assigned to "+types.ExprString(pp.Lhs[i])+" at "+w.pos(cur.Pos()))
								}
								if _, isIx := ast.Unparen(pp.Lhs[i]).(*ast.IndexExpr); isIx {
									bad = append(bad, "assigned to "+types.ExprString(pp.Lhs[i])+" at "+w.pos(cur.Pos()))
								}
							}
						}
					case *ast.CompositeLit:
						bad = append(bad, "stored in a composite literal at "+w.pos(cur.Pos()))
					}
					return true
				})
				key := "scratch-not-stored|" + b.Label + "|" + vid.Name
				if len(bad) == 0 {
					w.ok(key, as.Pos(), "the scratch slice "+vid.Name+" is reset every iteration and never stored without being copied")
				} else {
					w.violation(key, as.Pos(), "the scratch slice "+vid.Name+" is reset with "+vid.Name+"[:0] every iteration but "+strings.Join(bad, "; ")+" without a copy (slices.Clip only drops capacity): all values stored this way share one backing array, so what a later iteration decodes overwrites what an earlier one stored")
				}
			}
			return true
		})
	}
	w.info("scratch-not-stored|count|"+p.PkgPath, token.NoPos, fmt.Sprintf("%d loops, %d scratch slices reset with [:0] in %s", nLoops, nScratch, p.PkgPath))
}

// RX8 (C23): location paths do not share storage while both are alive. Source-info paths are
// built by appending to the parent's path. `v := append(base, x)` may return a slice that shares
// base's backing array (whenever base has spare capacity, which paths built by repeated appends
// usually have); a later `append(base, y)` then writes y over x *inside v*. The code guards the
// places where two children of one path are alive at once with slices.Clone. The rule tracks, per
// function of package sourceinfo, variables that alias a base slice this way; a second append to
// the same (un-cloned) base marks them dirty, and any later read of a dirty variable — before it
// is assigned again — is a violation: the path it holds now names another element (an extension's
// locations are emitted under the message tag, the group's message under the extension's path).
func rx8PathAliasing(w *World) {
	w.rule("RX8")
	p := w.pkg("sourceinfo")
	if p == nil {
		return
	}
	info := p.TypesInfo
	nAlias := 0
	for _, b := range allFuncBodies(p) {
		if b.Lit != nil {
			continue
		}
		isInt32Slice := func(e ast.Expr) bool {
			t := info.TypeOf(e)
			if t == nil {
				return false
			}
			sl, ok := t.Underlying().(*types.Slice)
			if !ok {
				return false
			}
			bt, ok := sl.Elem().Underlying().(*types.Basic)
			return ok && bt.Kind() == types.Int32
		}
		appendBase := func(e ast.Expr) (string, bool) {
			c, ok := ast.Unparen(e).(*ast.CallExpr)
			if !ok || !isBuiltinCall(info, c, "append") || len(c.Args) < 2 {
				return "", false
			}
			id, ok := ast.Unparen(c.Args[0]).(*ast.Ident)
			if !ok || !isInt32Slice(id) {
				return "", false
			}
			return id.Name, true
		}
		has := false
		ast.Inspect(b.Body, func(x ast.Node) bool {
			if as, ok := x.(*ast.AssignStmt); ok && len(as.Lhs) == 1 && len(as.Rhs) == 1 {
				if _, ok := appendBase(as.Rhs[0]); ok {
					if _, isID := as.Lhs[0].(*ast.Ident); isID {
						has = true
					}
				}
			}
			return true
		})
		if !has {
			continue
		}
		g := buildCFG(info, b.Body)
		d := &Dataflow{G: g, Must: false, Init: Facts{}}
		type report struct {
			pos token.Pos
			msg string
		}
		var reports []report
		reading := false
		d.Transfer = func(n ast.Node, in Facts) Facts {
			out := in
			var defV, defBase string
			if as, ok := n.(*ast.AssignStmt); ok && len(as.Lhs) == 1 && len(as.Rhs) == 1 {
				if id, isID := as.Lhs[0].(*ast.Ident); isID {
					defV = id.Name
					if base, ok := appendBase(as.Rhs[0]); ok && base != defV {
						defBase = base
					}
				}
			}
			// reads of dirty variables (the left-hand side of a plain redefinition is not a read)
			ast.Inspect(n, func(y ast.Node) bool {
				id, ok := y.(*ast.Ident)
				if !ok {
					return true
				}
				if as, ok := n.(*ast.AssignStmt); ok && len(as.Lhs) == 1 && as.Lhs[0] == ast.Expr(id) {
					return true
				}
				for f := range in {
					if strings.HasPrefix(f, "dirty:"+id.Name+"|") && reading {
						reports = append(reports, report{id.Pos(), strings.TrimPrefix(f, "dirty:"+id.Name+"|")})
					}
				}
				return true
			})
			// appends to a base that some live variable aliases (other than the defining statement's own)
			ast.Inspect(n, func(y ast.Node) bool {
				c, ok := y.(*ast.CallExpr)
				if !ok {
					return true
				}
				base, ok := appendBase(c)
				if !ok {
					return true
				}
				for f := range out {
					if strings.HasPrefix(f, "alias:") && strings.HasSuffix(f, "|"+base) {
						v := strings.TrimSuffix(strings.TrimPrefix(f, "alias:"), "|"+base)
						if v == defV && defBase == base {
							continue // the statement that (re)defines v itself
						}
						out = out.with("dirty:" + v + "|" + types.ExprString(c) + " at " + w.pos(c.Pos()))
					}
				}
				return true
			})
			if defV != "" {
				for f := range out {
					if strings.HasPrefix(f, "alias:"+defV+"|") || strings.HasPrefix(f, "dirty:"+defV+"|") {
						out = out.without(f)
					}
					// a redefined base no longer backs its aliases
					if strings.HasPrefix(f, "alias:") && strings.HasSuffix(f, "|"+defV) {
						out = out.without(f)
					}
				}
				if defBase != "" {
					out = out.with("alias:" + defV + "|" + defBase)
				}
			}
			return out
		}
		d.Run()
		reading = true
		d.Walk(func(_ *cfg.Block, n ast.Node, before Facts) { d.Transfer(n, before) })
		reading = false
		// obligations: one per aliasing variable
		seenVar := map[string]bool{}
		ast.Inspect(b.Body, func(x ast.Node) bool {
			if as, ok := x.(*ast.AssignStmt); ok && len(as.Lhs) == 1 && len(as.Rhs) == 1 {
				if base, ok := appendBase(as.Rhs[0]); ok {
					if id, isID := as.Lhs[0].(*ast.Ident); isID && id.Name != base && !seenVar[id.Name] {
						seenVar[id.Name] = true
						nAlias++
						key := "path-aliasing|" + b.Label + "|" + id.Name
						var bad []string
						seenMsg := map[string]bool{}
						for _, r := range reports {
							if strings.Contains(r.msg, "") {
								// reports carry the overwriting append; attribute by variable name at the read position
							}
							_ = r
						}
						for _, r := range reports {
							// the read is of this variable when the identifier at r.pos has this name
							name := ""
							ast.Inspect(b.Body, func(z ast.Node) bool {
								if zi, ok := z.(*ast.Ident); ok && zi.Pos() == r.pos {
									name = zi.Name
								}
								return name == ""
							})
							if name == id.Name {
								m := "read at " + w.pos(r.pos) + " after " + r.msg
								if !seenMsg[m] {
									seenMsg[m] = true
									bad = append(bad, m)
								}
							}
						}
						if len(bad) == 0 {
							w.ok(key, as.Pos(), id.Name+" = append("+base+", …) is never read after another append to "+base)
						} else {
							sort.Strings(bad)
							if len(bad) > 3 {
								bad = append(bad[:3], "…")
							}
							w.violation(key, as.Pos(), id.Name+" was built by appending to "+base+" and may share its backing array; it is "+strings.Join(bad, "; ")+": that append overwrites the last element of "+id.Name+" in place, so the locations emitted with it afterwards carry the path of a different element (clone the base before the second append)")
						}
					}
				}
			}
			return true
		})
	}
	w.floor("path variables built by append in sourceinfo", nAlias, 2)
}

// RR6 (C11): no source text is dropped by the trivia accessors. The functions of ast/file_info.go
// that hand out pieces of the source (…Whitespace, RawText) slice FileInfo.data between two item
// boundaries; the file's bytes are reproduced only if the pieces tile it, so such an accessor may
// answer with the constant "" only for a dummy file (no source at all). An early `return ""`
// under any other condition — "the first item has no predecessor" — drops the bytes before that
// item (white space at the start of the file).
func rr6TriviaNeverDropped(w *World) {
	w.rule("RR6")
	p := w.pkg("ast")
	if p == nil {
		return
	}
	info := p.TypesInfo
	n := 0
	for _, b := range allFuncBodies(p) {
		if b.Lit != nil || !strings.HasSuffix(w.Fset.Position(b.Decl.Pos()).Filename, "file_info.go") {
			continue
		}
		name := b.Obj.Name()
		if !strings.Contains(name, "Whitespace") && name != "RawText" {
			continue
		}
		// slices FileInfo.data?
		slicesData := false
		ast.Inspect(b.Body, func(x ast.Node) bool {
			if se, ok := x.(*ast.SliceExpr); ok {
				if sel, ok := ast.Unparen(se.X).(*ast.SelectorExpr); ok && sel.Sel.Name == "data" {
					slicesData = true
				}
			}
			return true
		})
		if !slicesData {
			continue
		}
		n++
		parents := parentMap(b.Decl)
		var bad []string
		ast.Inspect(b.Body, func(x ast.Node) bool {
			r, ok := x.(*ast.ReturnStmt)
			if !ok || len(r.Results) != 1 {
				return true
			}
			tv, ok := info.Types[r.Results[0]]
			if !ok || tv.Value == nil || tv.Value.Kind() != constant.String || constant.StringVal(tv.Value) != "" {
				return true
			}
			// the enclosing condition
			blk, _ := parents[r].(*ast.BlockStmt)
			ifs, _ := parents[blk].(*ast.IfStmt)
			if ifs == nil {
				bad = append(bad, "an unconditional return \"\" at "+w.pos(r.Pos()))
				return true
			}
			onlyDummy := true
			var leaves func(e ast.Expr)
			leaves = func(e ast.Expr) {
				e = ast.Unparen(e)
				if be, ok := e.(*ast.BinaryExpr); ok && (be.Op == token.LOR || be.Op == token.LAND) {
					leaves(be.X)
					leaves(be.Y)
					return
				}
				if c, ok := e.(*ast.CallExpr); ok {
					if f := callee(info, c); f != nil && strings.Contains(strings.ToLower(f.Name()), "dummy") {
						return
					}
				}
				onlyDummy = false
			}
			leaves(ifs.Cond)
			if !onlyDummy {
				bad = append(bad, "return \"\" under `"+types.ExprString(ifs.Cond)+"` at "+w.pos(r.Pos()))
			}
			return true
		})
		key := "trivia-never-dropped|" + b.Label
		if len(bad) == 0 {
			w.ok(key, b.Decl.Pos(), "answers with the empty string only for a dummy file; otherwise it slices the source between item boundaries")
		} else {
			w.violation(key, b.Decl.Pos(), b.Label+" has "+strings.Join(bad, "; ")+": the bytes between the previous boundary (offset 0 for the first item) and this item are dropped, so a file that starts with white space no longer prints back to its source")
		}
	}
	w.floor("trivia accessors slicing FileInfo.data", n, 3)
}

// RX9 (C11, C09): consumers never edit the AST in place. The AST is shared: the compiler keeps it
// (RetainASTs), results are cloned around it, several passes walk it. Accessors such as
// FileNode.Children() return the node's own slice, so an in-place slices operation on what an AST
// accessor returned (slices.Delete/DeleteFunc/Insert/Replace/Reverse/Sort…/Compact…, sort.*,
// element assignment) rewrites the tree: filtering the EOF child out with slices.DeleteFunc leaves
// a nil child behind, and the next ast.Walk of the same file panics. Checked in the packages that
// read ASTs (sourceinfo, parser's result conversion, linker, options): the operand of an in-place
// operation must not be a value obtained from a method of package ast (directly or through a
// local that was assigned from one without slices.Clone).
func rx9ASTNotMutated(w *World) {
	w.rule("RX9")
	astp := w.pkg("ast")
	if astp == nil {
		return
	}
	inPlace := map[string]bool{
		"slices.Delete": true, "slices.DeleteFunc": true, "slices.Insert": true, "slices.Replace": true, "slices.Reverse": true,
		"slices.Sort": true, "slices.SortFunc": true, "slices.SortStableFunc": true, "slices.Compact": true, "slices.CompactFunc": true,
		"sort.Slice": true, "sort.SliceStable": true, "sort.Sort": true, "sort.Stable": true, "sort.Strings": true, "sort.Ints": true,
	}
	nOps, nAcc := 0, 0
	for _, rel := range []string{"sourceinfo", "parser", "linker", "options", ""} {
		path := modPath
		if rel != "" {
			path += "/" + rel
		}
		p := w.ByPath[path]
		if p == nil {
			continue
		}
		info := p.TypesInfo
		fromAST := func(e ast.Expr) bool {
			c, ok := ast.Unparen(e).(*ast.CallExpr)
			if !ok {
				return false
			}
			f := callee(info, c)
			if f == nil || f.Pkg() != astp.Types {
				return false
			}
			sig, ok := f.Type().(*types.Signature)
			if !ok || sig.Recv() == nil || sig.Results().Len() != 1 {
				return false
			}
			_, isSlice := sig.Results().At(0).Type().Underlying().(*types.Slice)
			return isSlice
		}
		for _, b := range allFuncBodies(p) {
			if b.Lit != nil {
				continue
			}
			// locals assigned from an AST accessor
			astVars := map[types.Object]bool{}
			ast.Inspect(b.Body, func(x ast.Node) bool {
				if as, ok := x.(*ast.AssignStmt); ok && len(as.Lhs) == len(as.Rhs) {
					for i, r := range as.Rhs {
						if fromAST(r) {
							nAcc++
							if id, ok := as.Lhs[i].(*ast.Ident); ok {
								o := info.Defs[id]
								if o == nil {
									o = info.Uses[id]
								}
								if o != nil {
									astVars[o] = true
								}
							}
						}
					}
				}
				return true
			})
			isASTSlice := func(e ast.Expr) bool {
				e = ast.Unparen(e)
				if fromAST(e) {
					return true
				}
				if se, ok := e.(*ast.SliceExpr); ok {
					e = ast.Unparen(se.X)
					if fromAST(e) {
						return true
					}
				}
				if id, ok := e.(*ast.Ident); ok {
					return astVars[info.Uses[id]]
				}
				return false
			}
			ast.Inspect(b.Body, func(x ast.Node) bool {
				switch s := x.(type) {
				case *ast.CallExpr:
					f := callee(info, s)
					if f == nil || f.Pkg() == nil || len(s.Args) == 0 {
						return true
					}
					name := f.Pkg().Path() + "." + f.Name()
					if !inPlace[name] {
						return true
					}
					nOps++
					key := "ast-not-mutated|" + b.Label + "|" + name + "(" + types.ExprString(s.Args[0]) + ")"
					if isASTSlice(s.Args[0]) {
						w.violation(key, s.Pos(), name+" works in place on "+types.ExprString(s.Args[0])+", which is the slice an AST accessor returned (the node's own storage): the tree is rewritten while other passes still use it — e.g. deleting the EOF child from FileNode.Children() leaves a nil element, and the next ast.Walk of the same file panics; clone the slice first")
					} else {
						w.ok(key, s.Pos(), "the in-place operation does not work on a slice handed out by an AST accessor")
					}
				case *ast.AssignStmt:
					for _, l := range s.Lhs {
						if ix, ok := ast.Unparen(l).(*ast.IndexExpr); ok && isASTSlice(ix.X) {
							if _, isMap := info.TypeOf(ix.X).Underlying().(*types.Map); isMap {
								continue
							}
							nOps++
							w.violation("ast-not-mutated|"+b.Label+"|"+types.ExprString(l), s.Pos(), "an element of a slice handed out by an AST accessor is assigned ("+types.ExprString(l)+"): the tree is rewritten in place while other passes still use it")
						}
					}
				}
				return true
			})
		}
	}
	w.info("ast-not-mutated|count", token.NoPos, fmt.Sprintf("%d in-place slice operations examined, %d AST slice accessors bound to locals", nOps, nAcc))
	w.floor("AST slice accessors read by the consumers", nAcc, 3)
}

// RO3 (C20, C21): the in-place filter idiom is used on owned slices only. `dst := src[:0]` followed
// by `dst = append(dst, kept…)` compacts the kept elements at the front of src's backing array. That
// is sound when the function owns src; when src is a parameter (or a field of a message the
// caller handed in) the caller's storage is rewritten while it — or somebody it shares the slice
// with — still reads it. The parser stores one option slice on every range of
// `extensions 1 to 5, 10 to 20 [...]`: compacting it while the first range is interpreted changes
// the options the sibling ranges are about to read (standard options vanish, custom ones appear
// twice). Checked in the packages that interpret and link descriptors.
func ro3InPlaceFilterOnOwnedSlices(w *World) {
	w.rule("RO3")
	n := 0
	for _, rel := range []string{"options", "linker", "parser", "sourceinfo", "internal"} {
		p := w.ByPath[modPath+"/"+rel]
		if p == nil {
			continue
		}
		info := p.TypesInfo
		for _, b := range allFuncBodies(p) {
			if b.Lit != nil {
				continue
			}
			params := map[types.Object]bool{}
			sig := b.Obj.Type().(*types.Signature)
			for i := 0; i < sig.Params().Len(); i++ {
				params[sig.Params().At(i)] = true
			}
			ast.Inspect(b.Body, func(x ast.Node) bool {
				as, ok := x.(*ast.AssignStmt)
				if !ok || len(as.Lhs) != 1 || len(as.Rhs) != 1 {
					return true
				}
				se, ok := ast.Unparen(as.Rhs[0]).(*ast.SliceExpr)
				if !ok || se.Low != nil || se.High == nil || render(se.High) != "0" || se.Slice3 {
					return true
				}
				dst, ok := as.Lhs[0].(*ast.Ident)
				if !ok {
					return true
				}
				src := ast.Unparen(se.X)
				if render(src) == dst.Name {
					return true // buf = buf[:0]: a reset of the function's own scratch slice
				}
				notOwned := ""
				switch s := src.(type) {
				case *ast.Ident:
					if params[info.Uses[s]] {
						notOwned = "the parameter " + s.Name
					}
				case *ast.SelectorExpr:
					if f, ok := info.Uses[s.Sel].(*types.Var); ok && f.IsField() {
						notOwned = "the field " + types.ExprString(s)
					}
				}
				// is dst appended to?
				dobj := info.Defs[dst]
				if dobj == nil {
					dobj = info.Uses[dst]
				}
				appended := false
				ast.Inspect(b.Body, func(y ast.Node) bool {
					if c, ok := y.(*ast.CallExpr); ok && isBuiltinCall(info, c, "append") && len(c.Args) > 0 {
						if id, ok := ast.Unparen(c.Args[0]).(*ast.Ident); ok && info.Uses[id] == dobj {
							appended = true
						}
					}
					return true
				})
				if !appended {
					return true
				}
				n++
				key := "in-place-filter|" + b.Label + "|" + dst.Name + " := " + types.ExprString(se)
				if notOwned == "" {
					w.ok(key, as.Pos(), "the compacted slice is a local of this function")
				} else {
					w.violation(key, as.Pos(), dst.Name+" := "+types.ExprString(se)+" compacts the kept elements into the storage of "+notOwned+", which the caller (or whoever shares the slice with it) still reads: the parser stores one option slice on every range of an `extensions a to b, c to d [...]` statement, so interpreting the first range rewrites the options of the others (standard options vanish, custom ones are seen twice)")
				}
				return true
			})
		}
	}
	w.info("in-place-filter|count", token.NoPos, fmt.Sprintf("%d in-place filter idioms (x := y[:0] then append) examined", n))
}

// RIX (C27 and module-wide exploration): the index of a range over a re-sliced slice is an index
// into the *view*. In `for k := range X[lo:]` (lo not 0) the key k counts from the start of the
// view; indexing X itself with it (`X[k]`) addresses element k, not element lo+k. The flag meant
// for a transitive import reached through `import public` lands on another file's entry.
func rixScan(w *World, p *packages.Package) (nLoops int, bad []string, badPos []token.Pos) {
	info := p.TypesInfo
	for _, b := range allFuncBodies(p) {
		if b.Lit != nil {
			continue
		}
		ast.Inspect(b.Body, func(x ast.Node) bool {
			rs, ok := x.(*ast.RangeStmt)
			if !ok || rs.Key == nil {
				return true
			}
			se, ok := ast.Unparen(rs.X).(*ast.SliceExpr)
			if !ok || se.Low == nil {
				return true
			}
			if tv, ok := info.Types[se.Low]; ok && tv.Value != nil {
				if v, ok := constant.Int64Val(constant.ToInt(tv.Value)); ok && v == 0 {
					return true
				}
			}
			kid, ok := rs.Key.(*ast.Ident)
			if !ok || kid.Name == "_" {
				return true
			}
			kobj := info.Defs[kid]
			if kobj == nil {
				kobj = info.Uses[kid]
			}
			if kobj == nil {
				return true
			}
			if _, isSlice := info.TypeOf(se.X).Underlying().(*types.Slice); !isSlice {
				if _, isArr := info.TypeOf(se.X).Underlying().(*types.Array); !isArr {
					return true
				}
			}
			nLoops++
			base := types.ExprString(se.X)
			ast.Inspect(rs.Body, func(y ast.Node) bool {
				ix, ok := y.(*ast.IndexExpr)
				if !ok || types.ExprString(ix.X) != base {
					return true
				}
				if id, ok := ast.Unparen(ix.Index).(*ast.Ident); ok && info.Uses[id] == kobj {
					bad = append(bad, fmt.Sprintf("%s: %s indexes %s with the key of `range %s` (a view that starts at %s)", b.Label, types.ExprString(ix), base, types.ExprString(se), types.ExprString(se.Low)))
					badPos = append(badPos, ix.Pos())
				}
				return true
			})
			return true
		})
	}
	return
}

func rixViewIndex(w *World) {
	w.rule("RIX")
	n := 0
	for _, rel := range []string{"experimental/ir", "experimental/fdp", "experimental/parser", "experimental/internal/lexer"} {
		p := w.ByPath[modPath+"/"+rel]
		if p == nil {
			continue
		}
		loops, bad, pos := rixScan(w, p)
		n += loops
		for i, m := range bad {
			w.violation("view-index|"+m[:strings.Index(m, ":")]+"|"+fmt.Sprint(i), pos[i], m+": the key counts from the start of the view, so the element addressed is not the one being visited — here the visibility flag of a transitively imported file is set on another file's entry, and a file the stable compiler accepts is rejected with an unresolved name")
		}
	}
	if n > 0 {
		w.ok("view-index|loops", token.NoPos, fmt.Sprintf("%d loops range over a re-sliced slice with a key; none indexes the underlying slice with that key", n))
	} else {
		w.info("view-index|loops", token.NoPos, "no loop ranges over a re-sliced slice with a key")
	}
}

// RV6 (C29): a dispatch predicate implies that the callee consumes. loop() pops a rune r, and a
// case such as `unicode.IsDigit(r)` rewinds and hands over to a token lexer whose own loop peeks
// the same rune and pops it only if *its* condition holds (lexRawNumber: '.', '_', IsDigit,
// IsLetter, 'e'/'E'). If the dispatch accepts a rune the callee does not (IsNumber also holds for
// ½ ² ① Ⅳ), the callee consumes nothing, pushes a zero-length token, and the progress check turns
// that into an internal error: the token stream stops there and the rest of the file is covered
// by no token. For every case of loop()'s rune switch that rewinds by the rune's width and calls a
// lexer of the package, the case condition P and the condition C under which the callee's first
// peeked rune is popped are both read from the source and evaluated over a model of runes (all of
// ASCII plus representatives of the Unicode categories Nd, No, Nl, Lu/Ll/Lo, Mn, Cf, Zs): P ⇒ C.
func rv6DispatchImpliesConsumption(w *World) {
	w.rule("RV6")
	const rel = "experimental/internal/lexer"
	p := w.pkg(rel)
	loop := w.fn(rel, "loop")
	if p == nil || loop == nil {
		return
	}
	info := p.TypesInfo
	model := []rune{}
	for r := rune(0); r < 128; r++ {
		model = append(model, r)
	}
	model = append(model, 0x0663, 0x096B, 0x00BD, 0x00B2, 0x2460, 0x3251, 0x2163, 0x2180, 0x00E9, 0x03BB, 0x0416, 0x4E2D, 0x01C5, 0x0301, 0x200D, 0x00AD, 0xFEFF, 0x00A0, 0x2028, 0x20AC, 0x1D7D8, 0x1F389)
	// the switch whose cases test the popped rune
	var sw *ast.SwitchStmt
	var rName string
	ast.Inspect(loop.Decl.Body, func(x ast.Node) bool {
		as, ok := x.(*ast.AssignStmt)
		if ok && len(as.Lhs) == 1 && len(as.Rhs) == 1 {
			if c, ok := ast.Unparen(as.Rhs[0]).(*ast.CallExpr); ok {
				if s, ok := ast.Unparen(c.Fun).(*ast.SelectorExpr); ok && s.Sel.Name == "pop" {
					rName = render(as.Lhs[0])
				}
			}
		}
		if s, ok := x.(*ast.SwitchStmt); ok && s.Tag == nil && rName != "" && sw == nil && s.Pos() > 0 {
			// the first tagless switch after `r := l.pop()` that mentions r in a case
			mentions := false
			for _, c := range s.Body.List {
				for _, e := range c.(*ast.CaseClause).List {
					ast.Inspect(e, func(y ast.Node) bool {
						if id, ok := y.(*ast.Ident); ok && id.Name == rName {
							mentions = true
						}
						return true
					})
				}
			}
			if mentions {
				sw = s
			}
		}
		return true
	})
	if sw == nil {
		w.undecided("dispatch-implies-consumption|switch", loop.Decl.Pos(), "no switch over the popped rune found in loop()")
		return
	}
	n := 0
	for _, c := range sw.Body.List {
		cc := c.(*ast.CaseClause)
		if len(cc.List) == 0 {
			continue
		}
		// rewinds by RuneLen(r) and calls a lexer function of the package?
		rewinds := false
		var target *types.Func
		widthLocal := map[types.Object]bool{} // w := utf8.RuneLen(r)
		isRuneLen := func(e ast.Expr) bool {
			if rc, ok := ast.Unparen(e).(*ast.CallExpr); ok {
				if f := callee(info, rc); f != nil && f.Name() == "RuneLen" {
					return true
				}
			}
			if id, ok := ast.Unparen(e).(*ast.Ident); ok && widthLocal[info.ObjectOf(id)] {
				return true
			}
			return false
		}
		for _, st := range cc.Body {
			ast.Inspect(st, func(y ast.Node) bool {
				if as, ok := y.(*ast.AssignStmt); ok && (as.Tok == token.DEFINE || as.Tok == token.ASSIGN) && len(as.Lhs) == 1 && len(as.Rhs) == 1 && isRuneLen(as.Rhs[0]) {
					if id, ok := as.Lhs[0].(*ast.Ident); ok {
						widthLocal[info.ObjectOf(id)] = true
					}
				}
				if as, ok := y.(*ast.AssignStmt); ok && as.Tok == token.SUB_ASSIGN && len(as.Rhs) == 1 && isRuneLen(as.Rhs[0]) {
					rewinds = true
				}
				if ce, ok := y.(*ast.CallExpr); ok && target == nil {
					if f := callee(info, ce); f != nil && f.Pkg() == p.Types && strings.HasPrefix(f.Name(), "lex") {
						target = f
					}
				}
				return true
			})
		}
		if !rewinds || target == nil {
			continue
		}
		// the callee's first peek loop (followed through one level of direct calls)
		var popConds []ast.Expr
		var peekVar string
		var find func(f *types.Func, depth int)
		find = func(f *types.Func, depth int) {
			d := w.decls[f.Origin()]
			if d == nil || d.Body == nil || popConds != nil || depth > 2 {
				return
			}
			for _, st := range d.Body.List {
				if fs, ok := st.(*ast.ForStmt); ok {
					// r := l.peek() ; if C1 { l.pop() … } else if C2 { l.pop() } else { break }
					for _, bs := range fs.Body.List {
						if as, ok := bs.(*ast.AssignStmt); ok && len(as.Lhs) == 1 && len(as.Rhs) == 1 {
							if c, ok := ast.Unparen(as.Rhs[0]).(*ast.CallExpr); ok {
								if s, ok := ast.Unparen(c.Fun).(*ast.SelectorExpr); ok && s.Sel.Name == "peek" {
									peekVar = render(as.Lhs[0])
								}
							}
						}
						if ifs, ok := bs.(*ast.IfStmt); ok && peekVar != "" {
							for cur := ifs; cur != nil; {
								pops := false
								if len(cur.Body.List) > 0 {
									ast.Inspect(cur.Body.List[0], func(y ast.Node) bool {
										if ce, ok := y.(*ast.CallExpr); ok {
											if s, ok := ast.Unparen(ce.Fun).(*ast.SelectorExpr); ok && s.Sel.Name == "pop" {
												pops = true
											}
										}
										return true
									})
								}
								if pops {
									popConds = append(popConds, cur.Cond)
								}
								next, _ := cur.Else.(*ast.IfStmt)
								cur = next
							}
						}
					}
					if popConds != nil {
						return
					}
				}
				// first statement is a call into another lexer function: follow it
				ast.Inspect(st, func(y ast.Node) bool {
					if ce, ok := y.(*ast.CallExpr); ok && popConds == nil {
						if g := callee(info, ce); g != nil && g.Pkg() == p.Types && g != f {
							find(g, depth+1)
						}
					}
					return popConds == nil
				})
				if popConds != nil {
					return
				}
			}
		}
		find(target, 0)
		key := "dispatch-implies-consumption|" + target.Name()
		if popConds == nil {
			w.info(key, cc.Pos(), "the callee does not have the peek-and-pop loop shape; not decided")
			continue
		}
		n++
		var witness []string
		for _, r := range model {
			pHolds := false
			for _, e := range cc.List {
				if evalRunePred(info, e, rName, r, true) != triFalse {
					pHolds = true
				}
			}
			if !pHolds {
				continue
			}
			cHolds := false
			for _, e := range popConds {
				if evalRunePred(info, e, peekVar, r, false) == triTrue {
					cHolds = true
				}
			}
			if !cHolds {
				witness = append(witness, fmt.Sprintf("%q (U+%04X)", r, r))
			}
		}
		if len(witness) == 0 {
			w.ok(key, cc.Pos(), fmt.Sprintf("every rune of the model (%d) that the case accepts is popped by %s's first iteration", len(model), target.Name()))
		} else {
			if len(witness) > 5 {
				witness = append(witness[:5], "…")
			}
			w.violation(key, cc.Pos(), "the case hands "+strings.Join(witness, ", ")+" to "+target.Name()+", whose own loop does not pop them: it consumes nothing and pushes a zero-length token, the progress check raises an internal error, the token stream stops there and the rest of the input is covered by no token (open brackets before it are neither matched nor reported)")
		}
	}
	w.floor("rune-dispatch cases that rewind into a peek-and-pop lexer", n, 1)
}

// evalRunePred evaluates a predicate over one rune, knowing the unicode package. Atoms it cannot
// evaluate take the value `unknownAs` (true for the dispatch side, false for the consumer side).
func evalRunePred(info *types.Info, e ast.Expr, v string, r rune, unknownAs bool) tri {
	e = ast.Unparen(e)
	switch x := e.(type) {
	case *ast.BinaryExpr:
		if x.Op == token.LAND || x.Op == token.LOR {
			a, b := evalRunePred(info, x.X, v, r, unknownAs), evalRunePred(info, x.Y, v, r, unknownAs)
			if x.Op == token.LAND {
				if a == triFalse || b == triFalse {
					return triFalse
				}
				if a == triTrue && b == triTrue {
					return triTrue
				}
				return triUnknown
			}
			if a == triTrue || b == triTrue {
				return triTrue
			}
			if a == triFalse && b == triFalse {
				return triFalse
			}
			return triUnknown
		}
	case *ast.UnaryExpr:
		if x.Op == token.NOT {
			switch evalRunePred(info, x.X, v, r, !unknownAs) {
			case triTrue:
				return triFalse
			case triFalse:
				return triTrue
			}
			return triUnknown
		}
	case *ast.CallExpr:
		if f := callee(info, x); f != nil && f.Pkg() != nil && f.Pkg().Path() == "unicode" && len(x.Args) == 1 && render(x.Args[0]) == v {
			switch f.Name() {
			case "IsDigit":
				return triOf(unicode.IsDigit(r))
			case "IsNumber":
				return triOf(unicode.IsNumber(r))
			case "IsLetter":
				return triOf(unicode.IsLetter(r))
			case "IsSpace":
				return triOf(unicode.IsSpace(r))
			case "IsPrint":
				return triOf(unicode.IsPrint(r))
			case "IsUpper":
				return triOf(unicode.IsUpper(r))
			case "IsLower":
				return triOf(unicode.IsLower(r))
			case "IsPunct":
				return triOf(unicode.IsPunct(r))
			case "IsControl":
				return triOf(unicode.IsControl(r))
			case "IsMark":
				return triOf(unicode.IsMark(r))
			case "IsSymbol":
				return triOf(unicode.IsSymbol(r))
			}
		}
	}
	t := evalWithStrings(info, e, v, int64(r))
	if t == triUnknown {
		return triOf(unknownAs)
	}
	return t
}

// RP7 (C26): the reader's "too short to be an escape" guard passes through exactly the lone
// trailing backslash. linker.unescape copies a byte through unchanged when it is not the start of
// an escape or when fewer than two bytes remain; every complete two-byte escape — also the one
// that ends the text (`line\n`) — must reach the escape switch, or the linker's Default() of a
// bytes field disagrees with the text the writer produced (and with protodesc on the same proto).
// The pass-through guard (the first terminating `if` of the loop) is evaluated on a finite model:
// text lengths 1..6, the backslash at every position; with the backslash at the current position
// the guard must hold exactly when fewer than two bytes remain from it.
func rp7UnescapeShortGuard(w *World) {
	w.rule("RP7")
	fr := w.fn("linker", "unescape")
	if fr == nil {
		return
	}
	info := fr.Pkg.TypesInfo
	var loop *ast.ForStmt
	for _, st := range fr.Decl.Body.List {
		if f, ok := st.(*ast.ForStmt); ok && loop == nil {
			loop = f
		}
	}
	if loop == nil || fr.Decl.Type.Params.NumFields() != 1 || len(fr.Decl.Type.Params.List[0].Names) != 1 {
		w.undecided("unescape-short-guard|shape", fr.Decl.Pos(), "unescape is no longer a loop over its string parameter")
		return
	}
	sName := fr.Decl.Type.Params.List[0].Names[0].Name
	// position variable: i := strings.IndexByte(s, '\\') (optional)
	posVar := ""
	var guard *ast.IfStmt
	for _, st := range loop.Body.List {
		if as, ok := st.(*ast.AssignStmt); ok && len(as.Lhs) == 1 && len(as.Rhs) == 1 {
			if c, ok := ast.Unparen(as.Rhs[0]).(*ast.CallExpr); ok {
				if f := callee(info, c); f != nil && f.Pkg() != nil && f.Pkg().Path() == "strings" && strings.HasPrefix(f.Name(), "Index") {
					posVar = render(as.Lhs[0])
				}
			}
		}
		if ifs, ok := st.(*ast.IfStmt); ok && guard == nil && len(ifs.Body.List) > 0 {
			switch last := ifs.Body.List[len(ifs.Body.List)-1].(type) {
			case *ast.BranchStmt:
				if last.Tok == token.CONTINUE || last.Tok == token.BREAK {
					guard = ifs
				}
			case *ast.ReturnStmt:
				guard = ifs
			}
		}
	}
	if guard == nil {
		w.undecided("unescape-short-guard|guard", loop.Pos(), "no pass-through guard found at the top of unescape's loop")
		return
	}
	var eval func(e ast.Expr, L, q int64) tri
	eval = func(e ast.Expr, L, q int64) tri {
		e = ast.Unparen(e)
		if be, ok := e.(*ast.BinaryExpr); ok {
			switch be.Op {
			case token.LOR, token.LAND:
				a, b := eval(be.X, L, q), eval(be.Y, L, q)
				if be.Op == token.LOR {
					if a == triTrue || b == triTrue {
						return triTrue
					}
					if a == triFalse && b == triFalse {
						return triFalse
					}
					return triUnknown
				}
				if a == triFalse || b == triFalse {
					return triFalse
				}
				if a == triTrue && b == triTrue {
					return triTrue
				}
				return triUnknown
			case token.EQL, token.NEQ:
				// s[pos] compared with '\\': we are looking at the backslash
				if ix, ok := ast.Unparen(be.X).(*ast.IndexExpr); ok && render(ix.X) == sName {
					return triOf(be.Op == token.EQL)
				}
			}
		}
		if ue, ok := e.(*ast.UnaryExpr); ok && ue.Op == token.NOT {
			switch eval(ue.X, L, q) {
			case triTrue:
				return triFalse
			case triFalse:
				return triTrue
			}
			return triUnknown
		}
		env := &numEnv{info: info, vars: map[string]num{}, lenOf: func(x ast.Expr) (int64, bool) {
			if render(x) == sName {
				return L, true
			}
			return 0, false
		}}
		if posVar != "" {
			env.vars[posVar] = num{i: q}
		}
		v, ok := env.eval(e)
		if !ok || !v.isBool {
			return triUnknown
		}
		return triOf(v.b)
	}
	var bad []string
	points := 0
	for L := int64(1); L <= 6; L++ {
		for q := int64(0); q < L; q++ {
			if posVar == "" && q != 0 {
				continue // the reader consumes byte by byte: the backslash is at s[0]
			}
			points++
			remaining := L - q
			got := eval(guard.Cond, L, q)
			want := remaining < 2
			if got == triUnknown {
				bad = append(bad, fmt.Sprintf("undecidable at len=%d pos=%d", L, q))
				continue
			}
			if (got == triTrue) != want {
				bad = append(bad, fmt.Sprintf("with %d byte(s) remaining from the backslash (len %d, backslash at %d) the guard %s", remaining, L, q, map[bool]string{true: "passes the bytes through undecoded", false: "lets a lone backslash into the escape switch"}[got == triTrue]))
			}
		}
	}
	key := "unescape-short-guard"
	if len(bad) == 0 {
		w.ok(key, guard.Pos(), fmt.Sprintf("evaluated `%s` on %d (length, position) points: a backslash is passed through exactly when it is the last byte", types.ExprString(guard.Cond), points))
	} else {
		if len(bad) > 3 {
			bad = append(bad[:3], "…")
		}
		w.violation(key, guard.Pos(), "the pass-through guard `"+types.ExprString(guard.Cond)+"` is wrong at the end of the text: "+strings.Join(bad, "; ")+" — a value that ends in a two-character escape (`\\n`, `\\t`, `\\\"`, `\\\\`) is not decoded, so Default() of a bytes field differs from what the writer encoded")
	}
}

// RV7 (C29): a token lexer starts its token where the caller started consuming. In loop()'s rune
// switch a case pops a rune, possibly consumes more (takeWhile), rewinds, and hands over to a
// lexX(l, …) function that remembers `start := l.cursor` (or an expression of the cursor) as the
// beginning of the token it will push. Tokens tile the input only if that start is the position
// of the first byte consumed since the last push. For each such hand-over the bytes consumed on
// the straight path to the call are accounted symbolically as a linear form over the atoms
// width(r), len(<consumed text>) and constants (pop: +width(r); takeWhile: +len(result);
// `l.cursor ±= E`; width(r) = 1 under a case `r == <ASCII constant>`), the callee's start
// expression is added with the call's arguments substituted, and the form must be identically
// zero. `start := l.cursor - len(sigil)` with the *trimmed* identifier passed for sigil, after
// len(rawIdent) bytes were consumed, leaves len(rawIdent) - len(id): the string token starts late
// whenever unprintable characters were trimmed, and every later token is shifted.
func rv7TokenStartAccounting(w *World) {
	w.rule("RV7")
	const rel = "experimental/internal/lexer"
	p := w.pkg(rel)
	loop := w.fn(rel, "loop")
	if p == nil || loop == nil {
		return
	}
	info := p.TypesInfo
	type lin map[string]int
	add := func(a lin, k string, c int) {
		a[k] += c
		if a[k] == 0 {
			delete(a, k)
		}
	}
	// linear form of an int expression over len(x) / RuneLen(x) / constants; ok=false when not linear
	var linOf func(e ast.Expr, sign int, out lin, subst map[string]string) bool
	linOf = func(e ast.Expr, sign int, out lin, subst map[string]string) bool {
		e = ast.Unparen(e)
		if tv, ok := info.Types[e]; ok && tv.Value != nil {
			if v, ok := constant.Int64Val(constant.ToInt(tv.Value)); ok {
				add(out, "1", sign*int(v))
				return true
			}
		}
		switch x := e.(type) {
		case *ast.BinaryExpr:
			switch x.Op {
			case token.ADD:
				return linOf(x.X, sign, out, subst) && linOf(x.Y, sign, out, subst)
			case token.SUB:
				return linOf(x.X, sign, out, subst) && linOf(x.Y, -sign, out, subst)
			}
		case *ast.CallExpr:
			if isBuiltinCall(info, x, "len") && len(x.Args) == 1 {
				name := render(x.Args[0])
				if s, ok := subst[name]; ok {
					name = s
				}
				if name == `""` {
					return true
				}
				add(out, "len("+name+")", sign)
				return true
			}
			if f := callee(info, x); f != nil && f.Name() == "RuneLen" && len(x.Args) == 1 {
				add(out, "width("+render(x.Args[0])+")", sign)
				return true
			}
		}
		return false
	}
	isCursor := func(e ast.Expr) bool {
		s, ok := ast.Unparen(e).(*ast.SelectorExpr)
		return ok && s.Sel.Name == "cursor"
	}
	// effect of one statement on the pending count; returns false if it touches the cursor in a way not understood
	apply := func(st ast.Stmt, pending lin) bool {
		switch s := st.(type) {
		case *ast.AssignStmt:
			if len(s.Lhs) == 1 && len(s.Rhs) == 1 {
				if isCursor(s.Lhs[0]) {
					switch s.Tok {
					case token.ADD_ASSIGN:
						return linOf(s.Rhs[0], 1, pending, nil)
					case token.SUB_ASSIGN:
						return linOf(s.Rhs[0], -1, pending, nil)
					}
					return false
				}
				if c, ok := ast.Unparen(s.Rhs[0]).(*ast.CallExpr); ok {
					if sel, ok := ast.Unparen(c.Fun).(*ast.SelectorExpr); ok {
						switch sel.Sel.Name {
						case "pop":
							add(pending, "width("+render(s.Lhs[0])+")", 1)
						case "takeWhile":
							add(pending, "len("+render(s.Lhs[0])+")", 1)
						}
					}
				}
			}
		case *ast.IncDecStmt:
			if isCursor(s.X) {
				if s.Tok == token.INC {
					add(pending, "1", 1)
				} else {
					add(pending, "1", -1)
				}
			}
		}
		return true
	}
	// callee start offset (relative to the cursor at entry), with parameters substituted
	var calleeStart func(f *types.Func, args []ast.Expr, out lin, depth int) bool
	calleeStart = func(f *types.Func, args []ast.Expr, out lin, depth int) bool {
		d := w.decls[f.Origin()]
		if d == nil || d.Body == nil || len(d.Body.List) == 0 || depth > 2 {
			return false
		}
		subst := map[string]string{}
		i := 0
		for _, fl := range d.Type.Params.List {
			for _, nm := range fl.Names {
				if i < len(args) {
					subst[nm.Name] = render(args[i])
					if tv, ok := info.Types[args[i]]; ok && tv.Value != nil && tv.Value.Kind() == constant.String && constant.StringVal(tv.Value) == "" {
						subst[nm.Name] = `""`
					}
				}
				i++
			}
		}
		first := d.Body.List[0]
		if as, ok := first.(*ast.AssignStmt); ok && len(as.Lhs) == 1 && len(as.Rhs) == 1 {
			rhs := ast.Unparen(as.Rhs[0])
			if isCursor(rhs) {
				return true // start := l.cursor
			}
			if be, ok := rhs.(*ast.BinaryExpr); ok && isCursor(be.X) {
				switch be.Op {
				case token.SUB:
					return linOf(be.Y, 1, out, subst) // start is earlier by Y: compensates Y consumed bytes... sign handled by caller
				case token.ADD:
					return linOf(be.Y, -1, out, subst)
				}
			}
			// tok := lexOther(l): follow
			if c, ok := rhs.(*ast.CallExpr); ok {
				if g := callee(info, c); g != nil && g.Pkg() == p.Types && strings.HasPrefix(g.Name(), "lex") {
					return calleeStart(g, c.Args, out, depth+1)
				}
			}
		}
		return false
	}
	// the rune switch and the pop before it
	var sw *ast.SwitchStmt
	var popStmt ast.Stmt
	var walkList func(list []ast.Stmt)
	walkList = func(list []ast.Stmt) {
		for i, st := range list {
			if as, ok := st.(*ast.AssignStmt); ok && len(as.Rhs) == 1 {
				if c, ok := ast.Unparen(as.Rhs[0]).(*ast.CallExpr); ok {
					if sel, ok := ast.Unparen(c.Fun).(*ast.SelectorExpr); ok && sel.Sel.Name == "pop" && i+1 < len(list) {
						if s, ok := list[i+1].(*ast.SwitchStmt); ok && s.Tag == nil && sw == nil {
							sw, popStmt = s, st
						}
					}
				}
			}
			if f, ok := st.(*ast.ForStmt); ok {
				walkList(f.Body.List)
			}
		}
	}
	walkList(loop.Decl.Body.List)
	if sw == nil {
		w.undecided("token-start|switch", loop.Decl.Pos(), "no `r := l.pop()` followed by a rune switch found in loop()")
		return
	}
	rName := render(popStmt.(*ast.AssignStmt).Lhs[0])
	n := 0
	for _, c := range sw.Body.List {
		cc := c.(*ast.CaseClause)
		// ASCII constant case: width(r) = 1
		asciiCase := len(cc.List) > 0
		for _, e := range cc.List {
			be, ok := ast.Unparen(e).(*ast.BinaryExpr)
			if !ok || be.Op != token.EQL || render(be.X) != rName {
				asciiCase = false
				continue
			}
			tv, ok := info.Types[be.Y]
			if !ok || tv.Value == nil {
				asciiCase = false
				continue
			}
			if v, ok := constant.Int64Val(constant.ToInt(tv.Value)); !ok || v >= 128 {
				asciiCase = false
			}
		}
		// find hand-overs: calls to lex* at clause top level or inside a top-level if
		var visit func(list []ast.Stmt, pending lin)
		visit = func(list []ast.Stmt, pending lin) {
			cur := lin{}
			for k, v := range pending {
				cur[k] = v
			}
			for _, st := range list {
				// a hand-over in this statement (expression statement or inside an if on the path)
				if es, ok := st.(*ast.ExprStmt); ok {
					if call, ok := es.X.(*ast.CallExpr); ok {
						if f := callee(info, call); f != nil && f.Pkg() == p.Types && strings.HasPrefix(f.Name(), "lex") {
							n++
							form := lin{}
							for k, v := range cur {
								form[k] = v
							}
							okStart := calleeStart(f, call.Args, form, 0)
							// calleeStart added (+) what the callee's start compensates; pending must cancel: pending - compensation = 0
							// (calleeStart put compensation with sign +1 for `cursor - Y`; flip it)
							res := lin{}
							for k, v := range cur {
								add(res, k, v)
							}
							comp := lin{}
							calleeStart(f, call.Args, comp, 0)
							for k, v := range comp {
								add(res, k, -v)
							}
							if asciiCase {
								if v, ok := res["width("+rName+")"]; ok {
									add(res, "1", v)
									delete(res, "width("+rName+")")
								}
							}
							key := fmt.Sprintf("token-start|%s|%s", f.Name(), types.ExprString(call))
							switch {
							case !okStart:
								w.info(key, call.Pos(), "the callee's token start is not of the form `start := l.cursor [± E]`; not decided")
							case len(res) == 0:
								w.ok(key, call.Pos(), "the bytes consumed before the hand-over are all rewound or compensated by the callee's start expression: the token begins where consumption began")
							default:
								var terms []string
								for k, v := range res {
									terms = append(terms, fmt.Sprintf("%+d·%s", v, k))
								}
								sort.Strings(terms)
								w.violation(key, call.Pos(), "at this hand-over the token start differs from the first consumed byte by "+strings.Join(terms, " ")+", which is not identically zero: when the two lengths differ (unprintable characters trimmed from the identifier) the token pushed by "+f.Name()+" starts late, the cursor and the end of the token stream diverge, every later token is shifted and the last bytes of the file are covered by no token")
							}
						}
					}
				}
				if ifs, ok := st.(*ast.IfStmt); ok {
					visit(ifs.Body.List, cur)
					continue
				}
				if !apply(st, cur) {
					return
				}
			}
		}
		start := lin{}
		apply(popStmt, start)
		visit(cc.Body, start)
	}
	w.floor("hand-overs from loop()'s rune switch to token lexers", n, 3)
}

// RP8 (C25, C12): the scanners never depend on a line fitting a buffer. bufio.Reader.ReadSlice and
// ReadLine stop at the reader's buffer size (4096 bytes by default): ReadSlice returns
// bufio.ErrBufferFull, ReadLine sets isPrefix. A skipper that uses them without handling that
// case turns a `//` comment line of 4 KB into a scan error (or silently splits it), on a file the
// full parser accepts. In the lexers of parser and parser/fastscan such a call must be in a
// function that also handles bufio.ErrBufferFull / the isPrefix result.
func rp8NoBoundedLineReads(w *World) {
	w.rule("RP8")
	n, nReads := 0, 0
	for _, rel := range []string{"parser/fastscan", "parser"} {
		p := w.ByPath[modPath+"/"+rel]
		if p == nil {
			continue
		}
		info := p.TypesInfo
		for _, b := range allFuncBodies(p) {
			if b.Lit != nil || strings.HasSuffix(w.Fset.Position(b.Decl.Pos()).Filename, ".y.go") {
				continue
			}
			var calls []*ast.CallExpr
			handles := false
			ast.Inspect(b.Body, func(x ast.Node) bool {
				switch y := x.(type) {
				case *ast.CallExpr:
					if f := callee(info, y); f != nil && f.Pkg() != nil && f.Pkg().Path() == "bufio" {
						nReads++
						if f.Name() == "ReadSlice" || f.Name() == "ReadLine" {
							calls = append(calls, y)
						}
					}
				case *ast.SelectorExpr:
					if y.Sel.Name == "ErrBufferFull" {
						handles = true
					}
				case *ast.Ident:
					if y.Name == "isPrefix" {
						handles = true
					}
				}
				return true
			})
			for _, c := range calls {
				n++
				key := "bounded-line-read|" + b.Label + "|" + types.ExprString(c.Fun)
				if handles {
					w.ok(key, c.Pos(), "the buffer-full / isPrefix case is handled in the same function")
				} else {
					w.violation(key, c.Pos(), types.ExprString(c.Fun)+" stops at the buffer size of the bufio.Reader (4096 bytes) and reports bufio.ErrBufferFull / isPrefix, which "+b.Label+" does not handle: a comment line longer than the buffer makes the scan fail (or be cut) on a file the full parser accepts")
				}
			}
		}
	}
	w.info("bounded-line-read|count", token.NoPos, fmt.Sprintf("%d bufio calls in the scanners, %d of them ReadSlice/ReadLine", nReads, n))
	w.floor("bufio calls in parser and parser/fastscan", nReads, 2)
}

// RIK3 (C40): value lists of different entries never share writable storage. Intersect.Insert
// splits entries; the pieces start out with the same value list (`orig`), and the piece that
// overlaps the new interval gets `append(list, value)`. If that append is made on the un-clipped
// list it writes into the spare capacity of an array that the other piece still uses: the next
// value appended to that other piece overwrites it (after a, b, c on [0,9], d on [5,9] and e on
// [0,4], the points 5..9 report [a b c e]). Every append whose result is stored as an entry's
// Value (field assignment or `Value:` in an Entry literal) must therefore take a clipped or
// cloned list (slices.Clip / slices.Clone) or a fresh literal as its first argument.
func rik3ValueListsNotShared(w *World) {
	w.rule("RIK3")
	p := w.pkg("internal/interval")
	if p == nil {
		return
	}
	info := p.TypesInfo
	n := 0
	for _, b := range allFuncBodies(p) {
		if b.Lit != nil || !strings.Contains(b.Label, "Intersect") {
			continue
		}
		check := func(site ast.Node, e ast.Expr) {
			c, ok := ast.Unparen(e).(*ast.CallExpr)
			if !ok || !isBuiltinCall(info, c, "append") || len(c.Args) < 2 {
				return
			}
			n++
			first := ast.Unparen(c.Args[0])
			key := "value-list-clipped|" + b.Label + "|" + types.ExprString(c)
			safe := false
			switch f := first.(type) {
			case *ast.CallExpr:
				if g := callee(info, f); g != nil && g.Pkg() != nil && g.Pkg().Path() == "slices" && (g.Name() == "Clip" || g.Name() == "Clone") {
					safe = true
				}
			case *ast.CompositeLit:
				safe = true
			}
			if id, ok := first.(*ast.Ident); ok && id.Name == "nil" {
				safe = true
			}
			if safe {
				w.ok(key, site.Pos(), "the list is clipped or copied before the value is appended: the append allocates, no other entry's list is written")
			} else {
				w.violation(key, site.Pos(), types.ExprString(c)+" is stored as an entry's value list but appends to "+types.ExprString(first)+" as it is: when that list has spare capacity the value is written into an array that the other piece of the split entry still uses, and the next append to that piece overwrites it — a point lookup then returns a value whose interval does not contain the point")
			}
		}
		ast.Inspect(b.Body, func(x ast.Node) bool {
			switch s := x.(type) {
			case *ast.AssignStmt:
				for i, l := range s.Lhs {
					if sel, ok := ast.Unparen(l).(*ast.SelectorExpr); ok && sel.Sel.Name == "Value" && i < len(s.Rhs) {
						// only entries that live in the map: pointers to Entry
						if t := info.TypeOf(sel.X); t != nil {
							if _, isPtr := t.(*types.Pointer); isPtr {
								check(s, s.Rhs[i])
							}
						}
					}
				}
			case *ast.KeyValueExpr:
				if render(s.Key) == "Value" {
					check(s, s.Value)
				}
			}
			return true
		})
	}
	w.floor("appends stored as an entry's value list in Intersect", n, 2)
}

// RIK4 (C40): Nesting.Insert accepts an interval into a set only when it is disjoint from, or
// strictly nested in, the interval found by Seek(end). The sets are keyed by the intervals' ends
// (RIK), so "strictly" matters twice: an interval that shares its end with the found one is not
// strictly nested, and storing it under the same key replaces the found one — it vanishes from
// the collection. The guards that follow a successful `iter.Seek(end)` and precede `iter.Prev()`
// are read from the source and evaluated on a finite model (new interval [a,b], found [c,d] with
// c <= d and b <= d, which is Seek's post-condition, endpoints 0..4): whenever no guard rejects,
// b < c or (c < a and b < d) must hold.
func rik4NestingStrict(w *World) {
	w.rule("RIK4")
	fr := w.fn("internal/interval", "(*Nesting).Insert")
	if fr == nil {
		return
	}
	info := fr.Pkg.TypesInfo
	var pnames []string
	for _, f := range fr.Decl.Type.Params.List {
		for _, nm := range f.Names {
			pnames = append(pnames, nm.Name)
		}
	}
	if len(pnames) < 2 {
		return
	}
	aName, bName := pnames[0], pnames[1]
	var loop *ast.RangeStmt
	ast.Inspect(fr.Decl.Body, func(x ast.Node) bool {
		if r, ok := x.(*ast.RangeStmt); ok && loop == nil {
			loop = r
		}
		return true
	})
	if loop == nil {
		w.undecided("nesting-strict|loop", fr.Decl.Pos(), "no loop over the sets in Nesting.Insert")
		return
	}
	mentions := func(n ast.Node, name string) bool {
		hit := false
		ast.Inspect(n, func(y ast.Node) bool {
			if s, ok := y.(*ast.SelectorExpr); ok && s.Sel.Name == name {
				hit = true
			}
			return !hit
		})
		return hit
	}
	// the decision after a successful Seek(end): the statements that follow the `if !iter.Seek(end)` block
	var decision []ast.Stmt
	seenSeek := false
	for _, st := range loop.Body.List {
		if ifs, ok := st.(*ast.IfStmt); ok && !seenSeek && mentions(ifs.Cond, "Seek") {
			seenSeek = true
			continue
		}
		if seenSeek {
			decision = append(decision, st)
		}
	}
	if !seenSeek || len(decision) == 0 {
		w.undecided("nesting-strict|decision", loop.Pos(), "cannot find the statements that follow Seek(end) in Nesting.Insert")
		return
	}
	// interpret the decision on one model point; returns "accept", "reject" or "?"
	type point struct {
		a, b, c, d int64
		hasPrev    bool
		p, q       int64
	}
	run := func(pt point) string {
		atPrev := false
		locals := map[string]num{}
		mkEnv := func() *numEnv {
			env := &numEnv{info: info, vars: map[string]num{aName: {i: pt.a}, bName: {i: pt.b}}}
			for k, v := range locals {
				env.vars[k] = v
			}
			if atPrev {
				env.vars["iter.Value().Start"], env.vars["iter.Value().End"] = num{i: pt.p}, num{i: pt.q}
			} else {
				env.vars["iter.Value().Start"], env.vars["iter.Value().End"] = num{i: pt.c}, num{i: pt.d}
			}
			return env
		}
		var evalCond func(e ast.Expr) (bool, bool)
		evalCond = func(e ast.Expr) (bool, bool) {
			e = ast.Unparen(e)
			if be, ok := e.(*ast.BinaryExpr); ok && (be.Op == token.LAND || be.Op == token.LOR) {
				l, ok := evalCond(be.X)
				if !ok {
					return false, false
				}
				if be.Op == token.LAND && !l {
					return false, true
				}
				if be.Op == token.LOR && l {
					return true, true
				}
				return evalCond(be.Y)
			}
			if ue, ok := e.(*ast.UnaryExpr); ok && ue.Op == token.NOT {
				v, ok := evalCond(ue.X)
				return !v, ok
			}
			if c, ok := e.(*ast.CallExpr); ok {
				if sel, ok := ast.Unparen(c.Fun).(*ast.SelectorExpr); ok && sel.Sel.Name == "Prev" {
					atPrev = true
					return pt.hasPrev, true
				}
			}
			v, ok := mkEnv().eval(e)
			if !ok || !v.isBool {
				return false, false
			}
			return v.b, true
		}
		for _, st := range decision {
			switch s := st.(type) {
			case *ast.AssignStmt:
				if len(s.Lhs) == 1 && len(s.Rhs) == 1 {
					if id, ok := s.Lhs[0].(*ast.Ident); ok {
						if id.Name == "found" {
							return "accept"
						}
						v, ok := mkEnv().eval(s.Rhs[0])
						if !ok {
							return "?"
						}
						locals[id.Name] = v
						continue
					}
				}
				return "?"
			case *ast.IfStmt:
				if s.Init != nil || s.Else != nil {
					return "?"
				}
				v, ok := evalCond(s.Cond)
				if !ok {
					return "?"
				}
				if !v {
					continue
				}
				for _, b := range s.Body.List {
					if br, ok := b.(*ast.BranchStmt); ok && br.Tok == token.CONTINUE {
						return "reject"
					}
					if as, ok := b.(*ast.AssignStmt); ok && len(as.Lhs) == 1 && render(as.Lhs[0]) == "found" {
						return "accept"
					}
				}
				return "?"
			case *ast.BranchStmt:
				if s.Tok == token.BREAK {
					return "accept"
				}
				return "?"
			default:
				return "?"
			}
		}
		return "accept"
	}
	witness, undecided := "", ""
	points := 0
	for a := int64(0); a <= 4; a++ {
		for b := a; b <= 4; b++ {
			for c := int64(0); c <= 4; c++ {
				for d := max(c, b); d <= 4; d++ { // Seek(end): the first interval whose end is >= b
					prevs := []point{{a: a, b: b, c: c, d: d}}
					for q := int64(0); q < b; q++ { // the previous interval ends before b
						for p := int64(0); p <= q; p++ {
							prevs = append(prevs, point{a, b, c, d, true, p, q})
						}
					}
					for _, pt := range prevs {
						points++
						switch run(pt) {
						case "?":
							if undecided == "" {
								undecided = fmt.Sprintf("new [%d,%d], found [%d,%d]", a, b, c, d)
							}
						case "accept":
							okFound := b < c || (c < a && b < d)
							okPrev := !pt.hasPrev || pt.q < a
							if witness == "" && !okFound {
								witness = fmt.Sprintf("new [%d,%d] next to [%d,%d]: neither disjoint nor strictly nested (a shared end also means the new interval replaces the other under the same key)", a, b, c, d)
							}
							if witness == "" && !okPrev {
								witness = fmt.Sprintf("new [%d,%d] with the previous interval [%d,%d] of the set (found [%d,%d]): the two overlap partially", a, b, pt.p, pt.q, c, d)
							}
						}
					}
				}
			}
		}
	}
	key := "nesting-strict|found-interval"
	switch {
	case witness != "":
		w.violation(key, decision[0].Pos(), "Nesting.Insert's decision after Seek(end), interpreted on a finite model, accepts "+witness+": the set then contains two intervals that are neither disjoint nor strictly nested ([0,10] then [5,10] leaves only [5,10]; [0,100], [10,21], then [15,25] puts two overlapping intervals in one set)")
	case undecided != "":
		w.undecided(key, decision[0].Pos(), "the decision after Seek(end) has a shape the interpreter does not model (first at "+undecided+")")
	default:
		w.ok(key, decision[0].Pos(), fmt.Sprintf("interpreted the decision after Seek(end) on %d model points (new, found and previous interval, endpoints 0..4): an interval is accepted only if it is left of, or strictly nested in, the found interval and does not reach the previous one", points))
	}
}

// RUD2 (C32): the line table has an entry for the last line on every path, and both directions
// agree on what ends a line. (a) File.lines() records one start offset per newline inside its loop
// and one more for the text after the last newline: that final entry must be appended
// unconditionally (not inside a loop, not under an `if`), or a text that ends in '\n' has no entry
// for its empty last line — Location(len(text)) reports the previous line and the inverse panics.
// (b) lines() splits at the byte it searches for; location/inverseLocation must not treat further
// characters as line terminators: a constant cutset or suffix given to strings.Trim*/Cut* there
// may contain only that byte ('\r' counts as a column in the forward direction, so trimming it in
// the inverse makes the position after it unreachable).
func rud2LineTable(w *World) {
	w.rule("RUD2")
	const rel = "experimental/source"
	p := w.pkg(rel)
	lines := w.fn(rel, "(*File).lines")
	if p == nil || lines == nil {
		return
	}
	info := p.TypesInfo
	parents := parentMap(lines.Decl)
	// (a) appends to the line index
	nApp, finalOK := 0, false
	var term []byte
	ast.Inspect(lines.Decl.Body, func(x ast.Node) bool {
		switch s := x.(type) {
		case *ast.AssignStmt:
			if len(s.Lhs) == 1 && len(s.Rhs) == 1 {
				if sel, ok := ast.Unparen(s.Lhs[0]).(*ast.SelectorExpr); ok && sel.Sel.Name == "lineIndex" {
					if c, ok := ast.Unparen(s.Rhs[0]).(*ast.CallExpr); ok && isBuiltinCall(info, c, "append") {
						nApp++
						conditional := false
						for cur := parents[s]; cur != nil; cur = parents[cur] {
							switch cur.(type) {
							case *ast.ForStmt, *ast.RangeStmt, *ast.IfStmt, *ast.SwitchStmt, *ast.CaseClause:
								conditional = true
							case *ast.FuncLit, *ast.FuncDecl:
								cur = nil
							}
							if cur == nil {
								break
							}
						}
						if !conditional {
							finalOK = true
						}
					}
				}
			}
		case *ast.CallExpr:
			if f := callee(info, s); f != nil && f.Pkg() != nil && f.Pkg().Path() == "strings" && strings.HasPrefix(f.Name(), "Index") && len(s.Args) == 2 {
				if tv, ok := info.Types[s.Args[1]]; ok && tv.Value != nil {
					switch tv.Value.Kind() {
					case constant.Int:
						if v, ok := constant.Int64Val(tv.Value); ok && v < 256 {
							term = append(term, byte(v))
						}
					case constant.String:
						term = append(term, []byte(constant.StringVal(tv.Value))...)
					}
				}
			}
		}
		return true
	})
	if nApp == 0 {
		w.undecided("line-table|final-entry", lines.Decl.Pos(), "File.lines() no longer appends to lineIndex")
	} else if finalOK {
		w.ok("line-table|final-entry", lines.Decl.Pos(), fmt.Sprintf("of the %d appends to the line index one is unconditional: the text after the last newline (possibly empty) always has an entry", nApp))
	} else {
		w.violation("line-table|final-entry", lines.Decl.Pos(), "every append to the line index in File.lines() is inside a loop or under a condition: a text that ends in a newline gets no entry for its empty last line (an iterator such as strings.Lines yields nothing for it), so Location(len(text)) reports the previous line and InverseLocation of the last line indexes past the table")
	}
	// (b) terminators
	if len(term) == 0 {
		w.info("line-table|terminator", lines.Decl.Pos(), "lines() does not search for a constant terminator byte; terminator agreement not decided")
		return
	}
	nTrim := 0
	for _, name := range []string{"location", "inverseLocation"} {
		fr := w.fnOpt(rel, name)
		if fr == nil {
			continue
		}
		for _, body := range closureBodies(w, p, fr.Obj, 1) {
			ast.Inspect(body, func(x ast.Node) bool {
				c, ok := x.(*ast.CallExpr)
				if !ok {
					return true
				}
				f := callee(info, c)
				if f == nil || f.Pkg() == nil || f.Pkg().Path() != "strings" || len(c.Args) < 2 {
					return true
				}
				switch f.Name() {
				case "TrimRight", "TrimLeft", "Trim", "TrimSuffix", "TrimPrefix", "CutSuffix", "CutPrefix", "Cut":
				default:
					return true
				}
				tv, ok := info.Types[c.Args[1]]
				if !ok || tv.Value == nil || tv.Value.Kind() != constant.String {
					return true
				}
				nTrim++
				set := constant.StringVal(tv.Value)
				extra := ""
				for i := 0; i < len(set); i++ {
					if !strings.ContainsRune(string(term), rune(set[i])) {
						extra += fmt.Sprintf("%q ", set[i])
					}
				}
				key := "line-table|terminator|" + name + "|" + types.ExprString(c.Fun)
				if extra == "" {
					w.ok(key, c.Pos(), "only the line terminator of lines() is trimmed")
				} else {
					w.violation(key, c.Pos(), name+" trims "+strings.TrimSpace(extra)+" from the line, which File.lines() does not treat as a terminator and the forward direction counts as a column: the position after such a character converts to a column that the inverse maps back to a different offset")
				}
				return true
			})
		}
	}
	w.info("line-table|terminator|count", lines.Decl.Pos(), fmt.Sprintf("terminator %q; %d constant trims in location/inverseLocation", term, nTrim))
}

// RZ4 (C41): a sequence returned by Sorter.Sort is self-contained. Sort returns an iter.Seq; all
// per-traversal scratch state (the stack, the marks) must be produced inside the returned closure,
// which also resets it (RZ2). Work done in Sort() itself happens once, when the sequence is
// *built*: roots pushed there are gone after the first traversal (ranging over the same sequence
// again, or after an early break, yields nothing) and are shared by every sequence built from the
// same Sorter before one of them is consumed (the first yields nodes that are not reachable from
// its roots). Outside the returned function literal Sort may only allocate (nil-guarded `make`).
func rz4SortSelfContained(w *World) {
	w.rule("RZ4")
	const rel = "internal/toposort"
	p := w.pkg(rel)
	sortFn := w.fn(rel, "(*Sorter).Sort")
	st := w.typ(rel, "Sorter")
	if p == nil || sortFn == nil || st == nil {
		return
	}
	info := p.TypesInfo
	var iter *ast.FuncLit
	ast.Inspect(sortFn.Decl.Body, func(x ast.Node) bool {
		if r, ok := x.(*ast.ReturnStmt); ok && len(r.Results) == 1 && iter == nil {
			if fl, ok := r.Results[0].(*ast.FuncLit); ok {
				iter = fl
			}
		}
		return true
	})
	if iter == nil {
		w.undecided("sort-self-contained|iterator", sortFn.Decl.Pos(), "Sorter.Sort no longer returns a function literal")
		return
	}
	// methods of Sorter that write its fields (push)
	writers := map[*types.Func]bool{}
	for _, b := range allFuncBodies(p) {
		if b.Lit != nil || b.Decl.Recv == nil || b.Obj == sortFn.Obj {
			continue
		}
		ast.Inspect(b.Body, func(x ast.Node) bool {
			if as, ok := x.(*ast.AssignStmt); ok {
				for _, l := range as.Lhs {
					e := ast.Unparen(l)
					if ix, ok := e.(*ast.IndexExpr); ok {
						e = ast.Unparen(ix.X)
					}
					if sel, ok := e.(*ast.SelectorExpr); ok {
						if f, ok := info.Uses[sel.Sel].(*types.Var); ok && f.IsField() {
							writers[b.Obj] = true
						}
					}
				}
			}
			return true
		})
	}
	var bad []string
	ast.Inspect(sortFn.Decl.Body, func(x ast.Node) bool {
		if x == ast.Node(iter) {
			return false
		}
		switch s := x.(type) {
		case *ast.CallExpr:
			if f := callee(info, s); f != nil && writers[f.Origin()] {
				bad = append(bad, "the call "+types.ExprString(s.Fun)+"(…) at "+w.pos(s.Pos()))
			}
		case *ast.AssignStmt:
			for i, l := range s.Lhs {
				e := ast.Unparen(l)
				isElem := false
				if ix, ok := e.(*ast.IndexExpr); ok {
					e, isElem = ast.Unparen(ix.X), true
				}
				sel, ok := e.(*ast.SelectorExpr)
				if !ok {
					continue
				}
				if f, ok := info.Uses[sel.Sel].(*types.Var); !ok || !f.IsField() {
					continue
				}
				// a plain allocation (`s.state = make(...)`) is fine
				if !isElem && i < len(s.Rhs) {
					if c, ok := ast.Unparen(s.Rhs[i]).(*ast.CallExpr); ok && isBuiltinCall(info, c, "make") {
						continue
					}
				}
				bad = append(bad, "the assignment to "+types.ExprString(l)+" at "+w.pos(s.Pos()))
			}
		}
		return true
	})
	if len(bad) == 0 {
		w.ok("sort-self-contained", sortFn.Decl.Pos(), "outside the returned iterator Sort only allocates; every traversal builds its own stack and marks")
	} else {
		sort.Strings(bad)
		w.violation("sort-self-contained", sortFn.Decl.Pos(), "Sort() fills the Sorter's scratch state when the sequence is built ("+strings.Join(bad, "; ")+") instead of when it is traversed: the first traversal consumes it, so ranging over the same sequence again (or after an early break) yields nothing, and two sequences built from one Sorter before either is consumed mix their roots")
	}
}

// RN8 (C22): a lazily made copy is really made. The strip code copies a list only when something
// in it changes and uses "the copy is still nil" as the marker for "nothing changed so far". The
// statement that creates the copy under `copy == nil` must produce a non-nil slice whatever the
// lengths are (`make`, a composite literal): `copy = append(copy, list[:i]...)` leaves it nil when
// the first change is at index 0, so the marker still says "nothing changed" — the next change
// restarts the copy and brings the dropped element back, or the input is returned as it was (a
// location that points into a stripped option survives).
func rn8LazyCopyIsMade(w *World) {
	w.rule("RN8")
	p := w.pkg("options")
	if p == nil {
		return
	}
	info := p.TypesInfo
	n := 0
	for _, b := range allFuncBodies(p) {
		if b.Lit != nil || !strings.HasSuffix(w.Fset.Position(b.Decl.Pos()).Filename, "source_retention_options.go") {
			continue
		}
		ast.Inspect(b.Body, func(x ast.Node) bool {
			ifs, ok := x.(*ast.IfStmt)
			if !ok {
				return true
			}
			// conditions that establish V == nil on the then-branch (V == nil), or on the else
			// branch (V != nil { … } else [if …] { init })
			var vName string
			var initBlocks []*ast.BlockStmt
			if be, ok := ast.Unparen(ifs.Cond).(*ast.BinaryExpr); ok && isNilIdent(info, be.Y) {
				if id, ok := ast.Unparen(be.X).(*ast.Ident); ok {
					if _, isSlice := info.TypeOf(id).Underlying().(*types.Slice); isSlice {
						vName = id.Name
						if be.Op == token.EQL {
							initBlocks = append(initBlocks, ifs.Body)
						} else if be.Op == token.NEQ && ifs.Else != nil {
							switch el := ifs.Else.(type) {
							case *ast.BlockStmt:
								initBlocks = append(initBlocks, el)
							case *ast.IfStmt:
								initBlocks = append(initBlocks, el.Body)
							}
						}
					}
				}
			}
			for _, blk := range initBlocks {
				for _, st := range blk.List {
					as, ok := st.(*ast.AssignStmt)
					if !ok || len(as.Lhs) != 1 || len(as.Rhs) != 1 || render(as.Lhs[0]) != vName {
						continue
					}
					n++
					key := "lazy-copy-made|" + b.Label + "|" + vName
					rhs := ast.Unparen(as.Rhs[0])
					good := false
					switch r := rhs.(type) {
					case *ast.CallExpr:
						if isBuiltinCall(info, r, "make") {
							good = true
						}
					case *ast.CompositeLit:
						good = true
					}
					if good {
						w.ok(key, as.Pos(), "the copy is created with make / a literal: it is non-nil from the first change on")
					} else {
						w.violation(key, as.Pos(), vName+" marks \"nothing changed yet\" by being nil, but the statement that creates the copy is "+types.ExprString(rhs)+", which is still nil when nothing precedes the first change (index 0): the marker keeps saying \"unchanged\", so the first removed element comes back with the next change or the input is returned as it was")
					}
				}
			}
			return true
		})
	}
	w.floor("lazy copies in the strip code", n, 1)
}
