package main

import "os"

func init() {
	if os.Getenv("VERIF_EXPLORE") != "" {
		register(&Property{ID: "XPL", Explanation: "exploration only", NotDecided: "-", Rules: []func(*World){rwExplore}})
	}
	register(&Property{
		ID:          "C05",
		Explanation: "RA over the stable compiler's scheduler and the shared symbol table: executor.results and result.blockedOn are touched only under their mutex; executor/result fields read without locks are never assigned after construction; descriptorProtoIsCustom is written only inside its sync.Once. RB: result.res/err are written only in fail/complete (write; close(ready)) and every other read is dominated by a receive from the same result's ready channel. RC5: Compile returns descriptors indexed by request position only after the handler verdict. RC1/RC2/RC8 (shared with C06): the blocked-on publication and cycle-check ordering in task.asFile, whose violation makes the outcome (cycle error vs. hang) depend on the schedule and on the order of the requested files. RC10: requested files are registered in one critical section. RI/RJ: no map-order-, clock- or random-dependent value is produced in functions reachable from Compiler.Compile except through the listed order-insensitive idioms. RA4: insert-if-absent writes of the symbol table happen in the critical section that validated them. RC5b: a method of task asks the executor's shared handler for its verdict (Error()) only where it has, on every path, just reported to it; every other verdict comes from the task's own sub-handler.",
		NotDecided:  "that linking a file is a pure function of its inputs beyond those sources; order of reporter callbacks (unconstrained by the property)",
		Rules:       []func(*World){raCompiler, rbCompiler, rcCompile, rcAsFile, rc5bTaskUsesOwnHandler, raSymbols, ra4Symbols, rc10ExplicitRegistration, riCompile},
	})
	register(&Property{
		ID:          "C06",
		Explanation: "Deadlock-freedom skeleton of task.asFile: RC1 every result of executor.compile is cycle-checked (and a cycle error aborts) before it is stored or awaited; the self-import test precedes compile(dep); RC2 the semaphore permit is released before any wait; RC8 the task's blockedOn list (including the implicit descriptor.proto dependency) is published before the first compile/cycle check and cleared only after the last wait; RE permit/flag automaton; RF every blocking operation in the package has a <-ctx.Done() arm or uses the compile context; RA blockedOn under its mutex.",
		NotDecided:  "that every real cycle is reported with the right text; absence of spurious cycle errors",
		Rules:       []func(*World){rcAsFile, reCompiler, rfCompiler, raCompiler},
	})
	register(&Property{
		ID:          "C07",
		Explanation: "RD: over doCompile's CFG every path performs exactly one fail/complete and no call (direct or deferred, other than (*task).release) can execute after it, so the recover handler can never complete a result twice. RG: the only goroutine of the package installs a deferred recover whose non-nil branch fails the result with a PanicError carrying the value. RF: all waits are ctx-cancellable and Compile defers cancel(). RB: publication by close. RD3: result.res / result.err are written only as part of publishing — nothing (no call, no exit with deferred calls) may come between such a write and close(result.ready). RE summarises acquire/release wrappers of executor.s instead of forbidding them: the flag value an acquire wrapper leaves on its success and failure edges is applied in the caller.",
		NotDecided:  "goroutine counts after return when a resolver never returns; behaviour of the resolver itself",
		Rules:       []func(*World){rdCompiler, rd3OutcomeWrittenWithClose, rgCompiler, rfCompiler, rbCompiler, rcCompile, reCompiler, rc11NotFoundFallsThrough},
	})
	register(&Property{
		ID:          "C08",
		Explanation: "RH1: reporter.Reporter.Error/Warning are invoked (resolved interface callee, whole module) only from (*Handler).HandleError/HandleWarning, on the parent == nil path, with the handler's sync.Mutex held exclusively. RH3: Reporter.Error is dominated by the false branch of h.err != nil and by errsReported = true, and its result is stored in h.err and returned. RH2: warning methods write no Handler field. RA: Handler.err/errsReported under mu. RC5: Compile and task.link return success only after the handler's Error() was consulted. RH1 root-only is a must-property: h.parent == nil is established on every path to the reporter call.",
		NotDecided:  "that every detected problem is reported (input-dependent); the truth table of Handler.Error()",
		Rules:       []func(*World){rhReporter, rcCompile, rcLink},
	})
	register(&Property{
		ID:          "C16",
		Explanation: "RA guarded-by over linker/symbols.go: every load/store/index/delete of packageSymbols.{children,files,symbols,exts} and Symbols.extDecls is dominated by Lock/RLock of the mutex of the same value (must-hold lock-set dataflow over the CFG; writes need the write lock), or sits in a helper all of whose static call sites hold it (checked per call site, propagated through helpers), or is a constructor access on an unshared object. Every field of the two structs must be in the table or the reviewed exemptions. No blocking operation (channel op, semaphore Acquire, Wait, Sleep) may execute while a table mutex may be held. RA4g: the check pass looks every descriptor's name up before reporting 'no problem', because the commit pass stores every name.",
		NotDecided:  "the 'same collisions as one compile' clause beyond the check-then-commit atomicity of each critical section (history-dependent; see also C17)",
		Rules:       []func(*World){raSymbols, ra4Symbols, ra4dExtensionRegistration, ra4gCheckCoversCommit},
	})
	register(&Property{
		ID:          "C33",
		Explanation: "RH4: a query body ((*AnyQuery).Execute → AnyQuery.execute → Query.Execute) is invoked only from task.run on the success edge of task.result.CompareAndSwap(nil, r), and task.result changes only by that election CAS or the un-publication CAS (at most one execution per cache entry on any schedule). RH5: entries leave Executor.tasks only with Executor.dirty held exclusively, and Run holds it shared from entry to exit. RC6: both dependency-edge directions are recorded for every query before any dependency starts. RH6: result.runID is stamped only from Task.runID, which is a fresh counter value per Run or inherited; Changed is their equality. RB: result payload is written only by the leader before close(done) and read only after it. RA: timer map under its mutex; shared fields are sync/atomic types. RH5 cleanup-always-runs: on every exit of EvictWithCleanup the cleanup callback has run or is known to be nil.",
		NotDecided:  "value equality with a fresh computation; that eviction's closure computation visits exactly the transitive callers (RH5 decides where it reads the graph and that it ignores results, not the walk itself)",
		Rules:       []func(*World){rh4Incremental, rh5Incremental, rh6Incremental, rbIncremental, rcIncremental, raIncremental, rh5cEdgesRemovedOnlyByEviction},
	})
	register(&Property{
		ID:          "C34",
		Explanation: "RD-inc: typestate of the published pending result over task.run and its deferred leader handler, per exit kind (return output / return nil / panic): every handler path must close output.done; paths that only un-publish or do neither are reported. RE-inc: hold accounting (held/free per Task variable, case-split on the async parameter) over Run, task.run, waitUntilDone and Resolve: every normal exit restores the entry state, acquire/release/transferFrom are never applied in the wrong state, unbalanced exits only follow a failed acquire. RC3: followers check for a cycle before sleeping. RF: every blocking select has a ctx.Done arm and every semaphore Acquire uses the run context. RG: executor goroutines only run done(t.run(…)); Execute runs under a deferred recover that cancels the Run with ErrPanic carrying the value. RG2: every exit of task.run's deferred handler has recovered or is on the aborted edge. RE transfer shape: Task.transferFrom swaps the holding flags on every normal exit. RE release shape: every normal exit of Task.release has released the semaphore and cleared holding, or saw holding == false on that path. RC3c: every store into checkCycle's predecessor map is on the not-present edge of a lookup of the same key, so the map stays a tree and the reconstruction loop terminates.",
		NotDecided:  "the content of the reported cycle; liveness of user code inside Execute",
		Rules:       []func(*World){rdIncremental, reIncremental, reIncTransferShape, reIncReleaseShape, rcIncremental, rfIncremental, rgIncremental, rg2PanicAlwaysRecovered, rc3bExhaustiveCycleSearch, rc3cPredecessorTree},
	})
	register(&Property{
		ID:          "C35",
		Explanation: "R35: for every query type in experimental/incremental/queries, Key() returns the whole (comparable) query value, or every receiver field Execute reads flows into Key(). RH7: source.Opener.Open is called (outside package source) only from queries.File.Execute, the leaf that edits evict; everything else reaches file contents through Resolve, which records the dependency edge (RC6). RH4: query bodies run only through the executor. R35b: Key() may copy, select and compose the query but not pass it through an order-, multiplicity- or case-forgetting function. R35c: no branch on Result.Changed controls a Resolve, a report or a return. R35 non-key-field-read: a field that is not part of the key is never read (the executor keeps the first creator's value).",
		NotDecided:  "equality of outputs across edit histories; purity of the lowering code beyond the receiver/key/Changed discipline",
		Rules:       []func(*World){r35Queries, r35bKeyInjective, r35cNoCacheStateDependence, rh7Queries, rh4Incremental, rcIncremental, rh5Incremental, rh5cEdgesRemovedOnlyByEviction},
	})
	register(&Property{
		ID:          "C36",
		Explanation: "RI/RJ: over the module functions reachable (VTA call graph) from the query bodies, task.run and Canonicalize, no clock/random/environment primitive is called outside the reviewed stopwatch, and every map / sync.Map iteration is order-insensitive by idiom or reviewed (diagnostics pushed in map order are sorted by Canonicalize before being observable). RC4: Run returns a report only after Canonicalize and nothing is appended afterwards. RU: every field of report.Diagnostic must be a sort key of Canonicalize (directly, or through Primary()); un-keyed observable fields make the canonical order depend on the input order and are reported. RU2: on every path of Canonicalize each mutation of r.Diagnostics besides the sort (assignment, marking, slices.DeleteFunc, function literal or same-package callee doing so) is preceded by the sort, so which duplicate survives is decided over the sorted slice. RU3: inside package incremental a task's report is handed out by address only in (*Task).Report and otherwise written only on the leader-only section of task.run (success edge of result.CompareAndSwap(nil, …)); *Task values bound to a task are created only there — one writer per task report on every schedule. RU4 also rejects key functions that merge two fields through a selecting call (cmp.Or). RC6 (unconditional dependency edges) is part of this check because Run's report collection walks them. RU5b: Run only reads the tasks' Diagnostics slices (as the variadic source of append or through read-only locals); no slice of the Run is assigned from, re-sliced from, or appended onto a cached task's array, so the in-place canonicalization cannot rewrite a cached report.",
		NotDecided:  "idempotence of de-duplication; determinism of the diagnostics each query produces",
		Rules:       []func(*World){rc4Incremental, ruCanonicalize, ru2SortBeforeDedup, ru3ReportSingleWriter, ru4KeysUnconditional, ru5CollectionReadOnly, ru5bMergedReportOwnsArray, riIncremental, rcIncremental},
	})
	register(&Property{
		ID:          "C37",
		Explanation: "RT: the set of compilerpb.{Report,Report_File,Diagnostic,Diagnostic_Annotation,Diagnostic_Edit} fields written by ToProto equals the set read by AppendFromProto and covers every field of the messages; every field of report.Diagnostic/snippet/Edit is carried (except the reviewed sortOrder); the Report_File record is produced by (*source.File).Path/Text (resolved callees), the inverse of the decoder's source.NewFile(path, text); the decoder's span validation is evaluated on all (start,end,len) triples of a small model and must reject exactly start>end or end>len; its level switch accepts every Level constant. RT2: a sorted identity permutation is only read position by position (never indexed with a stored index). RT3: a scratch slice reset with [:0] in a loop is not stored without a copy.",
		NotDecided:  "text/edit content equality (delegated to protobuf)",
		Rules:       []func(*World){rtReport, rt2PermutationDirection, rt3ScratchNotStored},
	})
	register(&Property{
		ID:          "C27",
		Explanation: "RNC: no function of the experimental descriptor generator (experimental/fdp) narrows or sign-converts a 32/64-bit integer without dominating range guards (a default or number rendered through the wrong signedness differs from the stable compiler). RDV: the function of experimental/fdp that assigns FieldDescriptorProto.DefaultValue must render float defaults with a bit size that depends on the field (a `float` default is a 32-bit value; the stable compiler prints its shortest float32 form) and must look up an enum default by the name written (the ir value keeps only the number, which aliases share). RSB: the stable and the experimental validator report a canonical enum-value-name conflict only at points reached with the two values' numbers known to differ (branch-sensitive dataflow), so aliases are accepted by both. RS: the accept flag of ir.(*Session).Lower is computed by a comparison of Diagnostic.Level() with constants which, evaluated over the whole Level domain with go/constant, clears ok exactly for {ICE, Error}. RIX: the key of `range X[lo:]` is never used to index X itself.",
		NotDecided:  "agreement of verdicts and descriptors between the two compilers (differential, value-level)",
		Rules:       []func(*World){rsLower, rncFDP, rdvDefaultRendering, rsbEnumNameConflict, rfcFrameCountNotDropped, rixViewIndex},
	})
	register(&Property{
		ID:          "C04",
		Explanation: "RO: scope is computed — every struct in package linker embedding a protoreflect interface whose embedded value is a noOp* placeholder or never assigned (reviewed real delegates are listed). For each, every exported method of the embedded interface (except the sealed ProtoInternal/ProtoType) must be declared on the type itself (method-set selection depth 1), so no attribute query is silently answered by the placeholder.",
		NotDecided:  "that each override computes the right value (feature resolution, presence, packing, text names, range membership) — value-level",
		Rules:       []func(*World){roDescriptors, rcfCaseFolding, rb3NoNegativeEarlyExit, ro2ExplicitOptionPresence, rb4RangeConvention},
	})
	register(&Property{
		ID:          "C09",
		Explanation: "RM: in the compile path (asParseResult, asFile, doCompile, asAST) the resolver-supplied SearchResult.ParseResult / Proto are used only for nil tests, read-only name checks, and as the argument of parser.Clone / proto.Clone. RL: parser.Clone's copy sets every field of parser.result, each bound to a fresh value (proto.Clone, make) or listed as deliberately shared immutable state; the original's descriptor proto leaves Clone only through proto.Clone; the key kinds written by the put*Node index writers equal those re-created by the clone.",
		NotDecided:  "equality of descriptors across input forms (value-level); that nothing writes through a supplied Desc/AST (read-only by contract, not cloned)",
		Rules:       []func(*World){rmCompiler, rlClone, rnClone, rl3CloneReadOnly, rm2SourceInfoModeConfinement},
	})
	register(&Property{
		ID:          "C24",
		Explanation: "RL (both halves): parser.Clone's copy sets every field of parser.result with fresh or listed-immutable values, the original proto escapes only through proto.Clone, and the set of node-index key kinds written by parser/result.go equals the set re-created by parser/clone.go. RL3 also forbids append onto a repeated field of a descriptor proto in the index re-creation. RL5: no function of parser/clone.go refers to a mutable package-level variable.",
		NotDecided:  "deep equality of the cloned proto (delegated to proto.Clone)",
		Rules:       []func(*World){rlClone, rnClone, rl3CloneReadOnly, rl5CloneNoSharedState},
	})
	register(&Property{
		ID:          "C18",
		Explanation: "RK: all Find* methods of linker.fileResolver reduce to resolveInFile(r.f, false, nil, fn) with fn consulting only its file parameter (or delegate to such a sibling); inside resolveInFile the recursion passes publicImportsOnly = true and the same query, the recursive search is dominated by the guard 'first level or imp.IsPublic', imports are skipped only under recognised conditions, and a path is added to the visited list only immediately before that file is searched (no branch between marking and searching). RH9: no second code path follows imports.",
		NotDecided:  "correctness of each per-file query (findExtension, FindDescriptorByName)",
		Rules:       []func(*World){rkResolvers, rh9UsedImports},
	})
	register(&Property{
		ID:          "C19",
		Explanation: "RK: a successful lookup through a non-public import of a linker result marks that import used before returning. RH9: usedImports is written only by markUsed, which is called only from the shared visibility walk. RC9: CheckForUnusedImports runs only after Link, InterpretOptions and ValidateOptions, and only on the explicitFile branch. RC10: all requested files are registered with explicitFile = true inside one executor.mu critical section. RB2: no binary search over input-ordered slices (public_dependency etc.) in the linker. RK4: public_dependency / weak_dependency are consumed as sets (range, len, slices.Contains), never indexed or re-sliced, also not through an alias.",
		NotDecided:  "the converse (a marked import may still be removable)",
		Rules:       []func(*World){rkResolvers, rh9UsedImports, rcLink, rc10ExplicitRegistration, rb2SortedAssumptions, rk4IndexListsAsSets, raCompiler},
	})
	register(&Property{
		ID:          "C17",
		Explanation: "R17: effect summaries (commits to a guarded map / can fail with a collision, both transitive within linker/symbols.go; closures passed to walk.Descriptors count as loop bodies) are computed for every function in the call tree of (*Symbols).Import; any CFG-ordered pair (commit site, later fallible site) is reported, since a failure after a commit leaves the table changed. RA4b: within one critical section the commit helper is preceded by its conflict check, the handler verdict and the already-imported re-check. RA4f: a roll-back list (deleted from a packageSymbols table by a slice parameter) receives a key only after that key's insertion succeeded.",
		NotDecided:  "that a successful import records exactly the file's symbols; the full atomicity of a failed import (8 commit-before-fallible orderings are open findings)",
		Rules:       []func(*World){r17Import, ra4Symbols, ra4fRollbackOwnsKeys, ra4gCheckCoversCommit},
	})
	register(&Property{
		ID:          "C28",
		Explanation: "RS: the ok flag of experimental/parser.Parse is cleared by a condition which, evaluated over the whole Level domain, is true exactly for {ICE, Error}. RW: each stage entry (lexer.loop, parser.parse, ir.lower) defers Report.CatchICE(false, …) before anything but plain assignments, so panics become ICE diagnostics; the `for !X.Done()` driver loops of the lexer and parser call their progress guard first. RW6: every Edit bound handed to report.SuggestEdits is relative to the snippet (a constant, a length of the snippet, or X.Start/End - snippet.Start for a span X that was not extended). RW7: every input-driven recursion cycle of the parser's call graph has a depth guard (four open findings today). RV3 gate-on-every-path: lexPrelude answers 'go on' only after the UTF-8 gate. RV6/RV7 (shared with C29): the rune cases of lexer.loop hand over to a token lexer that consumes the dispatched rune, with the cursor rewound by exactly the rune's width — a mismatch ends in the progress guard's panic, i.e. an ICE.",
		NotDecided:  "absence of ICEs (RW turns them into diagnostics, it does not exclude them); that diagnostic spans lie inside the file",
		Rules:       []func(*World){rsParse, rwICE, rv3PreludeEncodingGate, rw5ConstIndexExperimental, rw3RuneErrorWidth, rw4NilParamDeref, rw6EditsInsideSnippet, rw7RecursionBounded, rv6DispatchImpliesConsumption, rv7TokenStartAccounting},
	})
	register(&Property{
		ID:          "C29",
		Explanation: "RV: in lexer.loop every path from an increment of lexer.badBytes to the function's end passes a flush (flushUnrecognized/keyword/push); badBytes is written only by loop and the flush helper. RV2: every `return false` of lexPrelude on non-empty input must have pushed tokens (today's bail-outs do not: known findings). RV6: the dispatch predicate of each rune case implies that the callee's first peek-and-pop iteration consumes the rune (evaluated over a model of 150 runes with the unicode predicates). RV7: symbolic token-start accounting at the hand-overs from loop() to the token lexers (linear form over width(r), len(consumed text), constants must vanish).",
		NotDecided:  "that pushed lengths sum to the cursor advance on every path (arithmetic); bracket fusion",
		Rules:       []func(*World){rvLexer, rv3PreludeEncodingGate, rw3RuneErrorWidth, rv4ConsumedTextNotDropped, rv6DispatchImpliesConsumption, rv7TokenStartAccounting},
	})
	register(&Property{
		ID:          "C38",
		Explanation: "RY: the inline alphabet literal has 64 distinct bytes with sextet 63 = '.', maxInlined*6 < 32; encodeOutlined is reached only on the false edges of len(s) > maxInlined and strings.HasSuffix(s, \".\"); every field of intern.Table is a sync/atomic/syncx type and all methods have pointer receivers; in internSlow the log append precedes the id store and the poison store precedes the panic; writer and reader use the same id offset.",
		NotDecided:  "correctness of the lock-free syncx.Log itself",
		Rules:       []func(*World){ryIntern},
	})
	register(&Property{
		ID:          "C39",
		Explanation: "Three structural clauses of the decimal → binary64 conversion in internal/decimal. RDC1: the power-of-five helper (pow5) is evaluated on its whole finite domain from its own source — for every exponent a case admits, the table indexes are in range and the exact product of the table constants it combines is 5^n. RDC3: for every exponent for which Float64's fast path reaches the helper (path condition evaluated over -400..400, unknown boolean atoms enumerated, predicate methods inlined) the helper performs at most one inexact step (an IEEE multiplication/division by a value other than 1, or a table constant that is not exactly representable), which is the condition under which the fast path is correctly rounded. RDC2: typestate of the exactness flag — no return reports `exact` for a value produced by a rounding-capable step after the flag was last assigned. RDC4: a constant result (0, ±Inf) decided from a condition on an exponent must be forced by that condition for every (exponent, digit count) of a finite model.",
		NotDecided:  "correct rounding of the slow path (strconv.ParseFloat is trusted), the bigx arithmetic, the numeral parser, Ldexp underflow into the subnormal range; the rules decide necessary conditions of correct rounding, not the numerical result",
		Rules:       []func(*World){rdcDecimal},
	})
	register(&Property{
		ID:          "C32",
		Explanation: "RUD: a dimension (units) checker over experimental/source's location and inverseLocation. Inside the switch clause for length.Unit X the column is a quantity in X; range keys over strings, len, slice bounds and line offsets are quantities in bytes; utf16.RuneLen is in UTF-16 units. Every `x = e`, `x += e`, `x -= e` and `a ± b` whose sides both have a known unit must combine equal units (constants are polymorphic); a per-character step inside `range <string>` may only drive a quantity in runes. Both switches must have a clause for every length.Unit constant (computed from the package). RUD2: File.lines() appends the entry for the last line unconditionally; location/inverseLocation trim only the byte lines() splits on.",
		NotDecided:  "the arithmetic itself (that the computed column/offset is the right number of the right unit), the line table, behaviour for offsets that are not on a character boundary; only the necessary condition that byte offsets are never combined with counts of another unit is decided",
		Rules:       []func(*World){rudUnits, rud2LineTable},
	})
	register(&Property{
		ID:          "C40",
		Explanation: "RIK: key discipline of internal/interval. Both collections keep their entries in an ordered map keyed by the entry's End; every Set(k, e) of an *Entry must store it under its own End (Set(e.End, e) or Set(k, &Entry{End: k})), and the End of an *Entry is never assigned after construction (splitting moves Start and creates new entries), so an entry in the tree never sits under a stale key. RIK3: every append stored as an entry's value list in Intersect takes a clipped/cloned list. RIK4: Nesting.Insert's decision after Seek(end) is interpreted on a finite model (new, found, previous interval): accepted ⇒ left of or strictly nested in the found interval and clear of the previous one.",
		NotDecided:  "the interval arithmetic of Insert (which pieces are created, their bounds, the value lists and their aliasing), Get's result, the nesting classification: all value-level; only the key invariant those rely on is decided",
		Rules:       []func(*World){rikIntervalKeys, rik2NonEmptyPieces, rik3ValueListsNotShared, rik4NestingStrict},
	})
	register(&Property{
		ID:          "C41",
		Explanation: "RZ: every panic site in internal/toposort is classified; RZ2: the iterator returned by Sorter.Sort resets all of the Sorter's scratch state (state, stack, iterating) in a deferred function of its own; RZ3: no rune iteration over string keys in package trie (insert and lookup both walk bytes); the cycle panic in Sorter.push is reached from a state that depends only on the input graph, contradicting 'on cyclic input it still terminates and yields' (known finding).",
		NotDecided:  "ordering of the yielded nodes; longest-prefix correctness of the trie",
		Rules:       []func(*World){rzToposort, rz2SorterCleanup, rz3TrieByteKeys, rz4SortSelfContained},
	})
	register(&Property{
		ID:          "C20",
		Explanation: "RN: the option-carrying element kinds (9) and the containment edges between them (12) are computed from the descriptorpb Go types; the options interpreter's traversal (call tree of interpretFileOptions) must follow every containment edge and instantiate its per-element handler for every options kind, and so must the linker's option-name resolution (resolveReferences + package walk) — no element kind can keep uninterpreted or unresolved options after success. RNC: every integer narrowing or sign-changing conversion in the option value coercion functions is dominated by range guards that make it value-preserving (branch-sensitive dataflow over comparisons with constants). RCF: every case-folding operation in the stable compiler is in a reviewed table (Protobuf is case-sensitive). RO3: the in-place filter idiom (dst := src[:0]; append) is not applied to a parameter or a field of a message handed in.",
		NotDecided:  "value conversion beyond range preservation, target checks, rejection parity with protoc",
		Rules:       []func(*World){rnInterpreter, rnLinkerResolve, rncNarrowing, rnc2SingleRounding, rcfCaseFolding, ro3InPlaceFilterOnOwnedSlices},
	})
	register(&Property{
		ID:          "C22",
		Explanation: "RN: the strip traversal (call tree of StripSourceRetentionOptionsFromFile) follows all 12 containment edges and touches all 9 options kinds. RN2: the option filter must descend into message-valued option fields (any depth: known finding today); no assignment in source_retention_options.go goes through a pointer/slice parameter (input not modified); every stripped child list is stored back on the rebuilt copy; the source-path tag used for each child list names the same field (tags.<Kind>_<Field>). RN7: every field-identity site of the strip (map index, slices.Contains needle derived from a FieldDescriptor) keys by the descriptor, Number() or FullName(), never by Index()/Name()/JSONName()/TextName() (scope-relative for extensions).",
		NotDecided:  "exactness of the removed source-info paths beyond tag agreement; idempotence",
		Rules:       []func(*World){rnStrip, rn7FieldIdentity, rn8LazyCopyIsMade},
	})
	register(&Property{
		ID:          "C21",
		Explanation: "RC7c: an option that fails in lenient/unlinked mode and is kept as uninterpreted leaves no trace in the accumulated options message — either (A) on every acyclic path of interpretOptions through the true edge of interp.lenientErrReported the message passed to interpretField is restored from a proto.Clone snapshot taken before the call (paths with interp.lenient false are pruned there, by RH8), or (B) interpretField/setOptionField never call anything lenience-fallible after modifying msg. RH8: interp.reporter.HandleError* is called only inside the three lenience-aware wrappers, each of which starts with `if lenienceEnabled { lenientErrReported = true; return nil }`; the flags are written only there and in enableLenience. RC7: every proto.Merge into a caller-visible message is preceded on all paths by proto.Reset of the same message (fresh local clones exempt), and in interpreter.interpretOptions no call executes after the caller's options message was first modified (all fallible work happens on the scratch message). RC7d: a removal helper that shifts its argument's backing array obliges every caller to store the result on all paths (none today: RemoveOption copies). RC7e: the shortened uninterpreted-option list is never stored into the options message on a path that can still exit through a lenience-aware error wrapper.",
		NotDecided:  "equality of option values across modes (value-level)",
		Rules:       []func(*World){rh8Lenience, rc7LenientCommit, rc7cPerOptionAtomicity, rc7dInPlaceRemoval, rc7eCommitAfterChecks, rh8bSilentFailureIsReported, ro3InPlaceFilterOnOwnedSlices},
	})
	register(&Property{
		ID:          "C23",
		Explanation: "RX: sourceCodeInfo.locs is appended only by the three newLoc* primitives, each appending exactly one location (unconditional, no early return) whose Path is a copy of the path parameter and whose Span is makeSpan of the node's start/end; extraComments is read only in newLoc (both arms produce one location for the same path) and maybeDonate (creates none); extraOptionLocs only gates generateSourceInfoForOptionChildren in generateSourceCodeInfoForOption. RX4: in every `append(path, tags.T, idx)` the index variable serves a single tag (no index-space confusion) and is incremented after use in the same block. RX8: a path variable built by append(base, …) is not read after another append to the same un-cloned base.",
		NotDecided:  "that each tag sequence is a valid path of the descriptor; span ranges; comment text",
		Rules:       []func(*World){rxSourceInfo, rx5PathNeverRewritten, rx6CommentTextFromSource, rx7ReservedCommentsNotStolen, rx8PathAliasing},
	})
	register(&Property{
		ID:          "C13",
		Explanation: "RQ: for every readRune call in a protoLex method, assuming the returned rune is a newline, every path feasible under that assumption (branch conditions over the rune, constants and strings.ContainsRune are evaluated; others explored both ways) passes maybeNewLine(rune) or un-reads the rune (with the size of the same read) or is the read-failed path, before the next readRune or any return: every consumed newline reaches FileInfo's line table. RQ also rejects paths that register a newline and then push the same rune back (registered twice).",
		NotDecided:  "the numeric result of the column arithmetic beyond its units (RQ9 decides that columns are never advanced by byte distances) and span ordering",
		Rules:       []func(*World){rqNewlines, rq9ColumnArithmetic, rq11ReaderPositionOwner},
	})
	register(&Property{
		ID:          "C12",
		Explanation: "RQ (shared with C13): a position computed after an unregistered newline names a line/column that does not exist. RQ2: parser.Parse returns a nil AST only on the reader-error path, otherwise the returned AST is non-nil on every path (nil-check fallback dominates) and the error is exactly handler.Error(). RQ3: positions in the lexer are computed from reader offsets, never from len() of text re-encoded from runes (an invalid UTF-8 byte re-encodes to 3 bytes). RQ4: every AST field the error-tolerant grammar may leave nil (constructor parameters that receive a literal nil in the compiled actions, mapped to struct fields) is dereferenced in the AST→descriptor conversion only under a dominating nil test (including && / || short-circuit guards). RQ (double registration): no path both registers a newline and pushes the same rune back. RQ12: (*protoLex).Lex returns a raw rune as the token code only for ASCII values — the guards on the path to each `return int(c)` are evaluated three-valued over a finite model of runes including the range goyacc numbers its named tokens in.",
		NotDecided:  "panic-freedom of the generated parser and the AST constructors on arbitrary bytes; that converting the AST to a descriptor never panics",
		Rules:       []func(*World){rqNewlines, rqParseShape, rq3ByteDistances, rq4NilableFields, rq5NilableGrammarValues, rq6TypedNilAccessors, rq7CtorNilContract, rq8NodeInfoGuards, rq10ConstIndexGuards, rq11ReaderPositionOwner, rq12RawRuneTokens},
	})
	register(&Property{
		ID:          "C14",
		Explanation: "RP (sibling contradiction): the escape tables of the three string-literal decoders in the repository (parser lexer, fast scanner, linker.unescape) are extracted from their switch statements (letters per clause computed by evaluating the case conditions over all ASCII values; produced byte read from the single write of a simple clause) and must agree on the simple escapes and their bytes and on the multi-character introducers; each must equal the language specification's 11 simple escapes. RCF: no unreviewed case folding in the lexer/AST literal code.",
		NotDecided:  "agreement with protoc on hex/octal/unicode digit handling, numeric literal values, overflow behaviour",
		Rules:       []func(*World){rpC14, rp2EscapeBounds, rp3C14, rp4IntConversions, rp5C14, rcfCaseFolding},
	})
	register(&Property{
		ID:          "C25",
		Explanation: "RP restricted to the parser's and the fast scanner's string decoders (same tables), plus modifier agreement: the import modifiers fastscan.Scan recognises equal the keyword alternatives of importDecl in parser/proto.y. RP8: no bufio ReadSlice/ReadLine in the scanners without handling ErrBufferFull/isPrefix.",
		NotDecided:  "statement boundary detection over arbitrary token streams; package name assembly",
		Rules:       []func(*World){rpC25, rp3C25, rp5C25, rp6ScannerStateReset, rp8NoBoundedLineReads},
	})
	register(&Property{
		ID:          "C26",
		Explanation: "RP writer↔reader: every simple escape internal.EscapeBytes emits is decoded by linker.unescape to the same byte; the writer's octal form is exactly three digits and the reader consumes at most three; all octal digits introduce the octal branch in the reader; EscapeBytes reads its input only through len(data)/data[i] (a per-byte map, so table agreement covers every input). RP7: linker.unescape's pass-through guard, evaluated on (length, backslash position) points, holds exactly for a lone trailing backslash.",
		NotDecided:  "protobuf-go's own unescaper (quick tier); strconv/utf8 are trusted",
		Rules:       []func(*World){rpC26, rp7UnescapeShortGuard},
	})
	register(&Property{
		ID:          "C11",
		Explanation: "RR: productions are read from parser/proto.y and the compiled actions from the `switch protont` of parser/proto.y.go; symbol counts are cross-checked between both files; for every production without the `error` token the compiled action references all of its right-hand-side values protoDollar[1..K]. RR2: every exported ast.New*Node constructor of a composite node places each Node-typed parameter (or each element of a slice parameter) among the node's children. Together: every token the lexer hands to the parser is reachable by ast.Walk. RR6: the trivia accessors of ast/file_info.go return the constant \"\" only for a dummy file. RX9: no in-place slices operation on a slice handed out by a method of package ast in the packages that consume ASTs.",
		NotDecided:  "that the lexer's items tile the input (whitespace/comment spans are arithmetic), BOM handling, correctness of leading-whitespace offsets, order of children",
		Rules:       []func(*World){rrGrammar, rr2Constructors, rr3SameBuffer, rr4OwnedSourceBytes, rr5PairedAccumulators, rr6TriviaNeverDropped, rx9ASTNotMutated},
	})
}
