package main

func init() {
	register(&Property{
		ID:          "C16",
		Explanation: "RA guarded-by over linker/symbols.go: every load/store/index/delete of packageSymbols.{children,files,symbols,exts} and Symbols.extDecls is dominated by Lock/RLock of the mutex of the same value (must-hold lock-set dataflow over the CFG; writes need the write lock), or sits in a helper all of whose static call sites hold it (checked per call site, propagated through helpers), or is a constructor access on an unshared object. Every field of the two structs must be in the table or the reviewed exemptions. No blocking operation (channel op, semaphore Acquire, Wait, Sleep) may execute while a table mutex may be held.",
		NotDecided:  "the 'same collisions as one compile' clause (history-dependent; its atomicity part is C17)",
		Rules:       []func(*World){raSymbols},
	})
}
