package main

import (
	"fmt"
	"go/ast"
	"go/token"
	"go/types"
	"sort"
	"strings"
)

// RX: mode-flag confinement and path index discipline in sourceinfo (C23).
func rxSourceInfo(w *World) {
	w.rule("RX")
	p := w.pkg("sourceinfo")
	locs := w.field("sourceinfo", "sourceCodeInfo", "locs")
	extraC := w.field("sourceinfo", "sourceCodeInfo", "extraComments")
	extraO := w.field("sourceinfo", "sourceCodeInfo", "extraOptionLocs")
	newLoc := w.fn("sourceinfo", "(*sourceCodeInfo).newLoc")
	given := w.fn("sourceinfo", "(*sourceCodeInfo).newLocWithGivenComments")
	without := w.fn("sourceinfo", "(*sourceCodeInfo).newLocWithoutComments")
	genOpt := w.fn("sourceinfo", "generateSourceCodeInfoForOption")
	children := w.fn("sourceinfo", "generateSourceInfoForOptionChildren")
	if p == nil || locs == nil || extraC == nil || extraO == nil || newLoc == nil || given == nil || without == nil || genOpt == nil || children == nil {
		return
	}
	info := p.TypesInfo
	isLocAppend := func(x ast.Node) bool {
		as, ok := x.(*ast.AssignStmt)
		if !ok {
			return false
		}
		for _, l := range as.Lhs {
			if selField(info, l) == locs {
				return true
			}
		}
		return false
	}
	// RX1: who may append locations
	writers := map[*types.Func]bool{newLoc.Obj: true, given.Obj: true, without.Obj: true}
	nW := 0
	for _, b := range allFuncBodies(p) {
		if b.Lit != nil {
			continue
		}
		ast.Inspect(b.Body, func(x ast.Node) bool {
			if isLocAppend(x) {
				nW++
				if writers[b.Obj] {
					w.okTrivial("loc-writer|"+b.Label, x.Pos(), "locations are appended by the three newLoc* primitives")
				} else if b.Obj.Name() == "GenerateSourceInfo" {
					w.okTrivial("loc-writer|"+b.Label, x.Pos(), "top-level driver")
				} else {
					w.violation("loc-writer|"+b.Label, x.Pos(), "sourceCodeInfo.locs written outside the newLoc* primitives: the per-mode location count can no longer be decided")
				}
			}
			return true
		})
	}
	w.floor("appends to sourceCodeInfo.locs", nW, 3)

	// exactly one append, outside any loop/conditional, in each primitive that appends
	for _, fr := range []*FuncRef{given, without} {
		cnt, nested := 0, false
		parents := parentMap(fr.Decl.Body)
		ast.Inspect(fr.Decl.Body, func(x ast.Node) bool {
			if isLocAppend(x) {
				cnt++
				for a := parents[x]; a != nil && a != ast.Node(fr.Decl.Body); a = parents[a] {
					switch a.(type) {
					case *ast.IfStmt, *ast.ForStmt, *ast.RangeStmt, *ast.SwitchStmt, *ast.CaseClause:
						nested = true
					}
				}
			}
			return true
		})
		hasReturn := false
		ast.Inspect(fr.Decl.Body, func(x ast.Node) bool {
			if _, ok := x.(*ast.ReturnStmt); ok {
				hasReturn = true
			}
			return true
		})
		if cnt == 1 && !nested && !hasReturn {
			w.ok("one-location|"+fr.Name, fr.Decl.Pos(), "appends exactly one location on every path (one unconditional append, no early return)")
		} else {
			w.violation("one-location|"+fr.Name, fr.Decl.Pos(), fmt.Sprintf("does not append exactly one location on every path (appends=%d, conditional=%v, early return=%v): the location list would differ between modes", cnt, nested, hasReturn))
		}
	}
	// location literals use Path: slices.Clone(path) and a span built from the node's own info
	nLit := 0
	for _, fr := range []*FuncRef{newLoc, given, without} {
		ast.Inspect(fr.Decl.Body, func(x ast.Node) bool {
			cl, ok := x.(*ast.CompositeLit)
			if !ok {
				return true
			}
			tv, ok := info.Types[cl]
			if !ok || !strings.HasSuffix(tv.Type.String(), "SourceCodeInfo_Location") {
				return true
			}
			nLit++
			var pathV, spanV string
			for _, el := range cl.Elts {
				if kv, ok := el.(*ast.KeyValueExpr); ok {
					switch render(kv.Key) {
					case "Path":
						pathV = types.ExprString(kv.Value)
					case "Span":
						spanV = types.ExprString(kv.Value)
					}
				}
			}
			key := "location-literal|" + fr.Name
			if pathV == "slices.Clone(path)" && strings.HasPrefix(spanV, "makeSpan(") {
				w.ok(key, cl.Pos(), "Path is a copy of the path parameter and Span is makeSpan of the node's start/end")
			} else {
				w.violation(key, cl.Pos(), "location built with Path="+pathV+" Span="+spanV+": expected Path: slices.Clone(path), Span: makeSpan(start, end)")
			}
			return true
		})
	}
	w.floor("SourceCodeInfo_Location literals", nLit, 3)

	// RX2: extraComments is read only in newLoc (both arms produce exactly one location for the same
	// node and path) and in maybeDonate (which appends nothing)
	nRead := 0
	for _, b := range allFuncBodies(p) {
		if b.Lit != nil {
			continue
		}
		ast.Inspect(b.Body, func(x ast.Node) bool {
			e, ok := x.(ast.Expr)
			if !ok || selField(info, e) != extraC {
				return true
			}
			// writes in the option's apply method
			if b.Obj.Name() == "apply" {
				return true
			}
			nRead++
			key := "extra-comments-read|" + b.Label
			switch {
			case b.Obj == newLoc.Obj:
				// both arms: one location event
				var ifs *ast.IfStmt
				ast.Inspect(b.Body, func(y ast.Node) bool {
					if i, ok := y.(*ast.IfStmt); ok && ifs == nil {
						found := false
						ast.Inspect(i.Cond, func(z ast.Node) bool {
							if ze, ok := z.(ast.Expr); ok && selField(info, ze) == extraC {
								found = true
							}
							return true
						})
						if found {
							ifs = i
						}
					}
					return true
				})
				events := func(blk ast.Node) (int, string) {
					n, path := 0, ""
					ast.Inspect(blk, func(y ast.Node) bool {
						if isLocAppend(y) {
							n++
							path = "path"
						}
						if c, ok := y.(*ast.CallExpr); ok {
							if f := callee(info, c); f == given.Obj || f == without.Obj {
								n++
								path = render(c.Args[len(c.Args)-1])
							}
						}
						return true
					})
					return n, path
				}
				if ifs == nil || ifs.Else == nil {
					w.violation(key, x.Pos(), "newLoc no longer has the two-armed shape `if !extraComments {…} else {…}`")
					return true
				}
				n1, p1 := events(ifs.Body)
				n2, p2 := events(ifs.Else)
				if n1 == 1 && n2 == 1 && p1 == p2 {
					w.ok(key, x.Pos(), "both arms of the extraComments test produce exactly one location for the same path: the mode only decides whether comments are attached")
				} else {
					w.violation(key, x.Pos(), fmt.Sprintf("the two arms of the extraComments test produce %d and %d locations (paths %q / %q): extra-comments mode would have different locations than standard mode", n1, n2, p1, p2))
				}
			case b.Obj.Name() == "maybeDonate":
				appends := false
				ast.Inspect(b.Body, func(y ast.Node) bool {
					if isLocAppend(y) {
						appends = true
					}
					if c, ok := y.(*ast.CallExpr); ok {
						if f := callee(info, c); f != nil && writers[f] {
							appends = true
						}
					}
					return true
				})
				if appends {
					w.violation(key, x.Pos(), "maybeDonate reads extraComments and creates locations")
				} else {
					w.ok(key, x.Pos(), "maybeDonate only decides comment attribution; it creates no location")
				}
			default:
				w.undecided(key, x.Pos(), "extraComments is read in a function that is not in the reviewed set {newLoc, maybeDonate}: show that the location list does not depend on it")
			}
			return true
		})
	}
	w.floor("reads of sourceCodeInfo.extraComments", nRead, 2)

	// RX3: extraOptionLocs only gates generateSourceInfoForOptionChildren inside generateSourceCodeInfoForOption
	nO := 0
	for _, b := range allFuncBodies(p) {
		if b.Lit != nil || b.Obj.Name() == "apply" {
			continue
		}
		parents := parentMap(b.Body)
		ast.Inspect(b.Body, func(x ast.Node) bool {
			e, ok := x.(ast.Expr)
			if !ok || selField(info, e) != extraO {
				return true
			}
			nO++
			key := "extra-option-locs-read|" + b.Label
			ifs, isIf := parents[x].(*ast.IfStmt)
			okShape := b.Obj == genOpt.Obj && isIf && ifs.Else == nil && len(ifs.Body.List) == 1
			if okShape {
				es, ok := ifs.Body.List[0].(*ast.ExprStmt)
				if ok {
					c, ok := es.X.(*ast.CallExpr)
					okShape = ok && callee(info, c) == children.Obj
				} else {
					okShape = false
				}
			}
			if okShape {
				w.ok(key, x.Pos(), "the flag only adds the call generateSourceInfoForOptionChildren(…) after the option's own location: it can only add locations inside option values")
			} else {
				w.violation(key, x.Pos(), "extraOptionLocs is used other than as `if sci.extraOptionLocs { generateSourceInfoForOptionChildren(…) }` in generateSourceCodeInfoForOption")
			}
			return true
		})
	}
	w.floor("reads of sourceCodeInfo.extraOptionLocs", nO, 1)

	// RX4: index-space discipline. In `append(path, tags.T, idx)` the index variable idx counts the
	// elements of repeated field T: one variable must not serve two tags, and it must be incremented
	// in the block where it is used.
	nTriples := 0
	for _, b := range allFuncBodies(p) {
		if b.Lit != nil || !strings.HasPrefix(b.Obj.Name(), "generateSource") {
			continue
		}
		varTags := map[string]map[string]token.Pos{}
		parents := parentMap(b.Body)
		ast.Inspect(b.Body, func(x ast.Node) bool {
			c, ok := x.(*ast.CallExpr)
			if !ok || !isBuiltinCall(info, c, "append") || len(c.Args) != 3 {
				return true
			}
			ts, ok := ast.Unparen(c.Args[1]).(*ast.SelectorExpr)
			if !ok || render(ts.X) != "tags" {
				return true
			}
			idx := ast.Unparen(c.Args[2])
			if st, ok := idx.(*ast.StarExpr); ok {
				idx = st.X
			}
			id, ok := idx.(*ast.Ident)
			if !ok {
				return true
			}
			if _, isVar := info.Uses[id].(*types.Var); !isVar {
				return true
			}
			nTriples++
			if varTags[id.Name] == nil {
				varTags[id.Name] = map[string]token.Pos{}
			}
			varTags[id.Name][ts.Sel.Name] = c.Pos()
			// incremented in the enclosing statement list (loop variables of a range are exempt)
			if obj := info.Uses[id]; obj != nil {
				isLoopVar := false
				for a := parents[x]; a != nil; a = parents[a] {
					if rs, ok := a.(*ast.RangeStmt); ok {
						if k, ok := rs.Key.(*ast.Ident); ok && info.Defs[k] == obj {
							isLoopVar = true
						}
					}
				}
				if !isLoopVar {
					var stmt ast.Node = x
					for stmt != nil {
						if _, ok := parents[stmt].(*ast.BlockStmt); ok {
							break
						}
						if _, ok := parents[stmt].(*ast.CaseClause); ok {
							break
						}
						stmt = parents[stmt]
					}
					inc := false
					if stmt != nil {
						if list, i := containingList(parents, stmt); list != nil {
							for j := i; j < len(list); j++ {
								ast.Inspect(list[j], func(y ast.Node) bool {
									if ids, ok := y.(*ast.IncDecStmt); ok && ids.Tok == token.INC {
										e := ast.Unparen(ids.X)
										if st, ok := e.(*ast.StarExpr); ok {
											e = st.X
										}
										if render(e) == id.Name {
											inc = true
										}
									}
									return true
								})
							}
						}
					}
					key := "index-incremented|" + b.Label + "|" + id.Name + "@" + ts.Sel.Name
					if inc {
						w.ok(key, c.Pos(), "index "+id.Name+" is advanced after being used for tags."+ts.Sel.Name)
					} else {
						w.violation(key, c.Pos(), "index "+id.Name+" used for tags."+ts.Sel.Name+" is not incremented afterwards in the same block: consecutive elements get the same path index")
					}
				}
			}
			return true
		})
		var vs []string
		for v := range varTags {
			vs = append(vs, v)
		}
		sort.Strings(vs)
		for _, v := range vs {
			var ts []string
			for t := range varTags[v] {
				ts = append(ts, t)
			}
			sort.Strings(ts)
			key := "index-space|" + b.Label + "|" + v
			if len(ts) == 1 {
				w.ok(key, varTags[v][ts[0]], "index variable "+v+" indexes only tags."+ts[0])
			} else {
				w.violation(key, varTags[v][ts[len(ts)-1]], "index variable "+v+" is used as the path index of several repeated fields ("+strings.Join(ts, ", ")+"): an index into one list is not a valid index into another, so some location paths name elements that do not exist")
			}
		}
	}
	w.floor("(tag, index) path extensions in sourceinfo", nTriples, 15)
}

// RX5 (C23): location paths are extended, never rewritten. The generators pass the current path
// down as `append(path, tag, index)`; sibling paths derived from one parent may share a backing
// array, which is harmless as long as every path only ever *grows* from its own length (a stored
// location clones its path). An append into a *shortened* reslice of a path that arrived as a
// parameter (`append(p[:k], …)`, directly or through a local alias) overwrites elements that the
// caller's and the siblings' paths still read: the extension path of an `extend` block turns into a
// message path and every later location of the block lands on an element that does not exist.
// Appending to a shortened slice is fine when its storage is fresh (make / slices.Clone / copy).
func rx5PathNeverRewritten(w *World) {
	w.rule("RX5")
	p := w.pkg("sourceinfo")
	if p == nil {
		return
	}
	info := p.TypesInfo
	nApp, nBad := 0, 0
	for _, b := range allFuncBodies(p) {
		if b.Lit != nil {
			continue
		}
		params := map[types.Object]bool{}
		for _, fl := range b.Decl.Type.Params.List {
			for _, nm := range fl.Names {
				if o := info.Defs[nm]; o != nil {
					if _, isSl := o.Type().Underlying().(*types.Slice); isSl {
						params[o] = true
					}
				}
			}
		}
		// aliases: locals whose every assignment is a (re)slice or plain copy of a parameter-rooted slice
		rootedInParam := func(e ast.Expr) bool {
			for {
				switch t := ast.Unparen(e).(type) {
				case *ast.SliceExpr:
					e = t.X
					continue
				case *ast.Ident:
					return params[info.Uses[t]]
				}
				return false
			}
		}
		shortened := map[types.Object]ast.Node{}
		ast.Inspect(b.Body, func(x ast.Node) bool {
			as, ok := x.(*ast.AssignStmt)
			if !ok || len(as.Lhs) != len(as.Rhs) {
				return true
			}
			for i, l := range as.Lhs {
				id, ok := l.(*ast.Ident)
				if !ok {
					continue
				}
				if se, ok := ast.Unparen(as.Rhs[i]).(*ast.SliceExpr); ok && se.High != nil && rootedInParam(se.X) {
					o := info.Defs[id]
					if o == nil {
						o = info.Uses[id]
					}
					if o != nil {
						shortened[o] = se
					}
				}
			}
			return true
		})
		ast.Inspect(b.Body, func(x ast.Node) bool {
			c, ok := x.(*ast.CallExpr)
			if !ok || !isBuiltinCall(info, c, "append") || len(c.Args) < 2 {
				return true
			}
			t := info.TypeOf(c.Args[0])
			if t == nil {
				return true
			}
			if sl, ok := t.Underlying().(*types.Slice); !ok || !types.Identical(sl.Elem(), types.Typ[types.Int32]) {
				return true
			}
			nApp++
			base := ast.Unparen(c.Args[0])
			bad := ""
			if se, ok := base.(*ast.SliceExpr); ok && se.High != nil && rootedInParam(se.X) {
				bad = types.ExprString(base)
			} else if id, ok := base.(*ast.Ident); ok {
				if se, isShort := shortened[info.Uses[id]]; isShort {
					bad = id.Name + " (= " + types.ExprString(se.(ast.Expr)) + ")"
				}
			}
			if bad != "" {
				nBad++
				w.violation("path-rewritten|"+b.Label+"|"+types.ExprString(c), c.Pos(), "append into "+bad+", a shortened view of a path received as a parameter: the elements after the cut are overwritten in storage the caller's path and sibling paths still share, so later locations get paths of elements that do not exist in the descriptor")
			}
			return true
		})
	}
	w.floor("appends to []int32 paths in package sourceinfo", nApp, 40)
	if nBad == 0 {
		w.ok("path-rewritten", token.NoPos, fmt.Sprintf("none of the %d appends to a location path targets a shortened view of a parameter's storage", nApp))
	}
}

// RX6 (C23): comments are text taken from the source. combineComments may add a character that is
// not part of the comment's own text (the newline protoc appends to a line comment) only under a
// test on the source text that follows the comment (the next item's leading whitespace); an
// unconditional write of a literal in the `//` branch invents text for a comment that ends at the
// end of the file.
func rx6CommentTextFromSource(w *World) {
	w.rule("RX6")
	fr := w.fn("sourceinfo", "(*sourceCodeInfo).combineComments")
	if fr == nil {
		return
	}
	info := fr.Pkg.TypesInfo
	parents := parentMap(fr.Decl)
	n := 0
	ast.Inspect(fr.Decl.Body, func(x ast.Node) bool {
		c, ok := x.(*ast.CallExpr)
		if !ok || len(c.Args) != 1 {
			return true
		}
		s, ok := ast.Unparen(c.Fun).(*ast.SelectorExpr)
		if !ok || !(s.Sel.Name == "WriteRune" || s.Sel.Name == "WriteByte" || s.Sel.Name == "WriteString") {
			return true
		}
		tv, ok := info.Types[c.Args[0]]
		if !ok || tv.Value == nil {
			return true // writes derived from the comment text itself
		}
		lit := tv.Value.ExactString()
		if !(strings.Contains(lit, "\\n") || lit == "10") {
			return true
		}
		// only the line-comment branch is of interest: the block-comment branch re-joins lines it
		// split out of the comment's own text
		inLineBranch := false
		var child ast.Node = c
		for cur := parents[c]; cur != nil; child, cur = cur, parents[cur] {
			if ifs, ok := cur.(*ast.IfStmt); ok && child == ast.Node(ifs.Body) && strings.Contains(types.ExprString(ifs.Cond), `"//"`) {
				inLineBranch = true
			}
		}
		if !inLineBranch {
			return true
		}
		n++
		key := "literal-newline|" + types.ExprString(c)
		// enclosing condition (inside the line-comment branch) that looks at the source after the comment
		guarded := false
		for cur := parents[c]; cur != nil; cur = parents[cur] {
			ifs, ok := cur.(*ast.IfStmt)
			if !ok {
				continue
			}
			if strings.Contains(types.ExprString(ifs.Cond), `"//"`) {
				break
			}
			ast.Inspect(ifs.Cond, func(y ast.Node) bool {
				if cc, ok := y.(*ast.CallExpr); ok {
					if ss, ok := ast.Unparen(cc.Fun).(*ast.SelectorExpr); ok {
						switch ss.Sel.Name {
						case "LeadingWhitespace", "HasPrefix", "HasSuffix", "RawText":
							guarded = true
						}
					}
				}
				return true
			})
		}
		if guarded {
			w.ok(key, c.Pos(), "the newline is written under a test on the text around the comment")
		} else {
			w.violation(key, c.Pos(), "combineComments writes a literal newline unconditionally: a `//` comment that ends at the end of the file gets a newline that is not in the source, so the comment is no longer text taken from the source")
		}
		return true
	})
	w.floor("literal newline writes in combineComments", n, 1)
}

// RX7 (C23): "the extra-comments mode has the same locations as the standard mode and differs
// only by added comments". Comments are handed out first-come-first-served (commentUsed): a
// comment that precedes a token goes to the first location that asks for the comments of a node
// starting at that token. In standard mode only newLocWithComments / newBlockLocWithComments ask;
// in extra-comments mode every newLoc asks. For a group, the field's own location deliberately does
// not take the comments (newLocWithoutComments(n, …): "comments will appear on group message"),
// because the group *message* location, emitted later, takes them in both modes. In that branch a
// comment-claiming newLoc for a child that can be the declaration's *first token* steals, in
// extra-comments mode only, exactly the comment the message location has in standard mode.
// Which children can be first is computed from the AST constructor (children appended before the
// first unconditionally appended one, plus that one); accessors are mapped to constructor
// parameters through the methods of the node type. A claiming call is fine when it is guarded by
// `n.<earlier child>() != nil` (then it is not the first token).
func rx7ReservedCommentsNotStolen(w *World) {
	w.rule("RX7")
	sp, ap := w.pkg("sourceinfo"), w.pkg("ast")
	gen := w.fn("sourceinfo", "generateSourceCodeInfoForField")
	ctor := w.fn("ast", "NewGroupNode")
	gn := w.typ("ast", "GroupNode")
	if sp == nil || ap == nil || gen == nil || ctor == nil || gn == nil {
		return
	}
	sinfo, ainfo := sp.TypesInfo, ap.TypesInfo
	// 1. constructor: ordered children (params) and whether each append is conditional
	params := map[types.Object]string{}
	for _, fl := range ctor.Decl.Type.Params.List {
		for _, nm := range fl.Names {
			params[ainfo.Defs[nm]] = nm.Name
		}
	}
	cparents := parentMap(ctor.Decl)
	type child struct {
		param string
		cond  bool
	}
	var children []child
	ast.Inspect(ctor.Decl.Body, func(x ast.Node) bool {
		c, ok := x.(*ast.CallExpr)
		if !ok || !isBuiltinCall(ainfo, c, "append") || len(c.Args) < 2 || render(c.Args[0]) != "children" {
			return true
		}
		cond := false
		for cur := cparents[c]; cur != nil; cur = cparents[cur] {
			switch cur.(type) {
			case *ast.IfStmt, *ast.ForStmt, *ast.RangeStmt:
				cond = true
			}
		}
		for _, a := range c.Args[1:] {
			if id, ok := ast.Unparen(a).(*ast.Ident); ok {
				if nm, isP := params[ainfo.Uses[id]]; isP {
					children = append(children, child{nm, cond})
				}
			}
		}
		return true
	})
	var mayBeFirst []string
	for _, ch := range children {
		mayBeFirst = append(mayBeFirst, ch.param)
		if !ch.cond {
			break
		}
	}
	if len(mayBeFirst) == 0 || len(children) < 4 {
		w.undecided("reserved-comments|ctor", ctor.Decl.Pos(), "cannot read the child order of ast.NewGroupNode")
		return
	}
	// 2. struct field -> ctor param (composite literal), accessor -> struct field
	fieldParam := map[string]string{}
	ast.Inspect(ctor.Decl.Body, func(x ast.Node) bool {
		kv, ok := x.(*ast.KeyValueExpr)
		if !ok {
			return true
		}
		ast.Inspect(kv.Value, func(y ast.Node) bool {
			if id, ok := y.(*ast.Ident); ok {
				if nm, isP := params[ainfo.Uses[id]]; isP {
					fieldParam[render(kv.Key)] = nm
				}
			}
			return true
		})
		return true
	})
	accParam := map[string]string{}
	for i := 0; i < gn.NumMethods(); i++ {
		m := gn.Method(i)
		d := w.decls[m]
		if d == nil || d.Body == nil || d.Type.Params.NumFields() != 0 {
			continue
		}
		ast.Inspect(d.Body, func(x ast.Node) bool {
			r, ok := x.(*ast.ReturnStmt)
			if !ok || len(r.Results) != 1 {
				return true
			}
			e := ast.Unparen(r.Results[0])
			for {
				sel, ok := e.(*ast.SelectorExpr)
				if !ok {
					break
				}
				if p, ok := fieldParam[sel.Sel.Name]; ok {
					if _, isRecv := ast.Unparen(sel.X).(*ast.Ident); isRecv {
						accParam[m.Name()] = p
					}
				}
				e = ast.Unparen(sel.X)
			}
			return true
		})
	}
	// 3. the reserved-comments branch of the generator
	claims := map[string]bool{"newLoc": true, "newLocWithComments": true, "newBlockLocWithComments": true}
	declParam := ""
	if gen.Decl.Type.Params.NumFields() >= 3 {
		declParam = gen.Decl.Type.Params.List[2].Names[0].Name
	}
	nBranch, nChecked := 0, 0
	gparents := parentMap(gen.Decl)
	ast.Inspect(gen.Decl.Body, func(x ast.Node) bool {
		ifs, ok := x.(*ast.IfStmt)
		if !ok || len(ifs.Body.List) == 0 {
			return true
		}
		first, ok := ifs.Body.List[0].(*ast.ExprStmt)
		if !ok {
			return true
		}
		fc, ok := first.X.(*ast.CallExpr)
		if !ok || len(fc.Args) < 1 {
			return true
		}
		fs, ok := ast.Unparen(fc.Fun).(*ast.SelectorExpr)
		if !ok || fs.Sel.Name != "newLocWithoutComments" || render(fc.Args[0]) != declParam {
			return true
		}
		nBranch++
		ast.Inspect(ifs.Body, func(y ast.Node) bool {
			c, ok := y.(*ast.CallExpr)
			if !ok || len(c.Args) < 1 {
				return true
			}
			s, ok := ast.Unparen(c.Fun).(*ast.SelectorExpr)
			if !ok || !(claims[s.Sel.Name] || s.Sel.Name == "newLocWithoutComments") {
				return true
			}
			ac, ok := ast.Unparen(c.Args[0]).(*ast.CallExpr)
			if !ok {
				return true
			}
			as, ok := ast.Unparen(ac.Fun).(*ast.SelectorExpr)
			if !ok || render(as.X) != declParam {
				return true
			}
			p, known := accParam[as.Sel.Name]
			if !known {
				return true
			}
			idx := -1
			for i, m := range mayBeFirst {
				if m == p {
					idx = i
				}
			}
			if idx < 0 {
				return true
			}
			nChecked++
			key := "reserved-comments|" + gen.Name + "|" + as.Sel.Name
			if !claims[s.Sel.Name] {
				w.ok(key, c.Pos(), "the location of "+as.Sel.Name+"() (constructor child '"+p+"', possibly the first token) is emitted without comments")
				return true
			}
			// guarded by an earlier may-be-first child being present?
			guarded := false
			for cur := gparents[c]; cur != nil && cur != ast.Node(ifs); cur = gparents[cur] {
				g, ok := cur.(*ast.IfStmt)
				if !ok {
					continue
				}
				be, ok := ast.Unparen(g.Cond).(*ast.BinaryExpr)
				if !ok || be.Op != token.NEQ || !isNilIdent(sinfo, be.Y) {
					continue
				}
				if gc, ok := ast.Unparen(be.X).(*ast.CallExpr); ok {
					if gs, ok := ast.Unparen(gc.Fun).(*ast.SelectorExpr); ok && render(gs.X) == declParam {
						if gp, ok := accParam[gs.Sel.Name]; ok {
							for i := 0; i < idx; i++ {
								if mayBeFirst[i] == gp {
									guarded = true
								}
							}
						}
					}
				}
			}
			if guarded {
				w.ok(key, c.Pos(), as.Sel.Name+"() claims comments only when an earlier child is present, so it is not the first token")
			} else {
				w.violation(key, c.Pos(), fmt.Sprintf("in the branch that reserves the declaration's comments for the group message (newLocWithoutComments(%s, …)), the location of %s.%s() is created with %s, which claims comments in extra-comments mode; %s is the declaration's first token whenever %v is absent (child order of ast.NewGroupNode: %v), so in extra-comments mode it takes the leading comment that the group message location carries in standard mode: the two modes then differ by a *moved* comment, not only by added ones", declParam, declParam, as.Sel.Name, s.Sel.Name, as.Sel.Name, mayBeFirst[:idx], mayBeFirst))
			}
			return true
		})
		return true
	})
	w.floor("reserved-comments branches in generateSourceCodeInfoForField", nBranch, 1)
	w.floor("first-token candidates located in the reserved-comments branch", nChecked, 2)
}
