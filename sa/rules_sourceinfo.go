package main

import (
	"fmt"
	"go/ast"
	"go/token"
	"go/types"
	"sort"
	"strings"
)

// RX: mode-flag confinement and path index discipline in sourceinfo (C23).
func rxSourceInfo(w *World) {
	w.rule("RX")
	p := w.pkg("sourceinfo")
	locs := w.field("sourceinfo", "sourceCodeInfo", "locs")
	extraC := w.field("sourceinfo", "sourceCodeInfo", "extraComments")
	extraO := w.field("sourceinfo", "sourceCodeInfo", "extraOptionLocs")
	newLoc := w.fn("sourceinfo", "(*sourceCodeInfo).newLoc")
	given := w.fn("sourceinfo", "(*sourceCodeInfo).newLocWithGivenComments")
	without := w.fn("sourceinfo", "(*sourceCodeInfo).newLocWithoutComments")
	genOpt := w.fn("sourceinfo", "generateSourceCodeInfoForOption")
	children := w.fn("sourceinfo", "generateSourceInfoForOptionChildren")
	if p == nil || locs == nil || extraC == nil || extraO == nil || newLoc == nil || given == nil || without == nil || genOpt == nil || children == nil {
		return
	}
	info := p.TypesInfo
	isLocAppend := func(x ast.Node) bool {
		as, ok := x.(*ast.AssignStmt)
		if !ok {
			return false
		}
		for _, l := range as.Lhs {
			if selField(info, l) == locs {
				return true
			}
		}
		return false
	}
	// RX1: who may append locations
	writers := map[*types.Func]bool{newLoc.Obj: true, given.Obj: true, without.Obj: true}
	nW := 0
	for _, b := range allFuncBodies(p) {
		if b.Lit != nil {
			continue
		}
		ast.Inspect(b.Body, func(x ast.Node) bool {
			if isLocAppend(x) {
				nW++
				if writers[b.Obj] {
					w.okTrivial("loc-writer|"+b.Label, x.Pos(), "locations are appended by the three newLoc* primitives")
				} else if b.Obj.Name() == "GenerateSourceInfo" {
					w.okTrivial("loc-writer|"+b.Label, x.Pos(), "top-level driver")
				} else {
					w.violation("loc-writer|"+b.Label, x.Pos(), "sourceCodeInfo.locs written outside the newLoc* primitives: the per-mode location count can no longer be decided")
				}
			}
			return true
		})
	}
	w.floor("appends to sourceCodeInfo.locs", nW, 3)

	// exactly one append, outside any loop/conditional, in each primitive that appends
	for _, fr := range []*FuncRef{given, without} {
		cnt, nested := 0, false
		parents := parentMap(fr.Decl.Body)
		ast.Inspect(fr.Decl.Body, func(x ast.Node) bool {
			if isLocAppend(x) {
				cnt++
				for a := parents[x]; a != nil && a != ast.Node(fr.Decl.Body); a = parents[a] {
					switch a.(type) {
					case *ast.IfStmt, *ast.ForStmt, *ast.RangeStmt, *ast.SwitchStmt, *ast.CaseClause:
						nested = true
					}
				}
			}
			return true
		})
		hasReturn := false
		ast.Inspect(fr.Decl.Body, func(x ast.Node) bool {
			if _, ok := x.(*ast.ReturnStmt); ok {
				hasReturn = true
			}
			return true
		})
		if cnt == 1 && !nested && !hasReturn {
			w.ok("one-location|"+fr.Name, fr.Decl.Pos(), "appends exactly one location on every path (one unconditional append, no early return)")
		} else {
			w.violation("one-location|"+fr.Name, fr.Decl.Pos(), fmt.Sprintf("does not append exactly one location on every path (appends=%d, conditional=%v, early return=%v): the location list would differ between modes", cnt, nested, hasReturn))
		}
	}
	// location literals use Path: slices.Clone(path) and a span built from the node's own info
	nLit := 0
	for _, fr := range []*FuncRef{newLoc, given, without} {
		ast.Inspect(fr.Decl.Body, func(x ast.Node) bool {
			cl, ok := x.(*ast.CompositeLit)
			if !ok {
				return true
			}
			tv, ok := info.Types[cl]
			if !ok || !strings.HasSuffix(tv.Type.String(), "SourceCodeInfo_Location") {
				return true
			}
			nLit++
			var pathV, spanV string
			for _, el := range cl.Elts {
				if kv, ok := el.(*ast.KeyValueExpr); ok {
					switch render(kv.Key) {
					case "Path":
						pathV = types.ExprString(kv.Value)
					case "Span":
						spanV = types.ExprString(kv.Value)
					}
				}
			}
			key := "location-literal|" + fr.Name
			if pathV == "slices.Clone(path)" && strings.HasPrefix(spanV, "makeSpan(") {
				w.ok(key, cl.Pos(), "Path is a copy of the path parameter and Span is makeSpan of the node's start/end")
			} else {
				w.violation(key, cl.Pos(), "location built with Path="+pathV+" Span="+spanV+": expected Path: slices.Clone(path), Span: makeSpan(start, end)")
			}
			return true
		})
	}
	w.floor("SourceCodeInfo_Location literals", nLit, 3)

	// RX2: extraComments is read only in newLoc (both arms produce exactly one location for the same
	// node and path) and in maybeDonate (which appends nothing)
	nRead := 0
	for _, b := range allFuncBodies(p) {
		if b.Lit != nil {
			continue
		}
		ast.Inspect(b.Body, func(x ast.Node) bool {
			e, ok := x.(ast.Expr)
			if !ok || selField(info, e) != extraC {
				return true
			}
			// writes in the option's apply method
			if b.Obj.Name() == "apply" {
				return true
			}
			nRead++
			key := "extra-comments-read|" + b.Label
			switch {
			case b.Obj == newLoc.Obj:
				// both arms: one location event
				var ifs *ast.IfStmt
				ast.Inspect(b.Body, func(y ast.Node) bool {
					if i, ok := y.(*ast.IfStmt); ok && ifs == nil {
						found := false
						ast.Inspect(i.Cond, func(z ast.Node) bool {
							if ze, ok := z.(ast.Expr); ok && selField(info, ze) == extraC {
								found = true
							}
							return true
						})
						if found {
							ifs = i
						}
					}
					return true
				})
				events := func(blk ast.Node) (int, string) {
					n, path := 0, ""
					ast.Inspect(blk, func(y ast.Node) bool {
						if isLocAppend(y) {
							n++
							path = "path"
						}
						if c, ok := y.(*ast.CallExpr); ok {
							if f := callee(info, c); f == given.Obj || f == without.Obj {
								n++
								path = render(c.Args[len(c.Args)-1])
							}
						}
						return true
					})
					return n, path
				}
				if ifs == nil || ifs.Else == nil {
					w.violation(key, x.Pos(), "newLoc no longer has the two-armed shape `if !extraComments {…} else {…}`")
					return true
				}
				n1, p1 := events(ifs.Body)
				n2, p2 := events(ifs.Else)
				if n1 == 1 && n2 == 1 && p1 == p2 {
					w.ok(key, x.Pos(), "both arms of the extraComments test produce exactly one location for the same path: the mode only decides whether comments are attached")
				} else {
					w.violation(key, x.Pos(), fmt.Sprintf("the two arms of the extraComments test produce %d and %d locations (paths %q / %q): extra-comments mode would have different locations than standard mode", n1, n2, p1, p2))
				}
			case b.Obj.Name() == "maybeDonate":
				appends := false
				ast.Inspect(b.Body, func(y ast.Node) bool {
					if isLocAppend(y) {
						appends = true
					}
					if c, ok := y.(*ast.CallExpr); ok {
						if f := callee(info, c); f != nil && writers[f] {
							appends = true
						}
					}
					return true
				})
				if appends {
					w.violation(key, x.Pos(), "maybeDonate reads extraComments and creates locations")
				} else {
					w.ok(key, x.Pos(), "maybeDonate only decides comment attribution; it creates no location")
				}
			default:
				w.undecided(key, x.Pos(), "extraComments is read in a function that is not in the reviewed set {newLoc, maybeDonate}: show that the location list does not depend on it")
			}
			return true
		})
	}
	w.floor("reads of sourceCodeInfo.extraComments", nRead, 2)

	// RX3: extraOptionLocs only gates generateSourceInfoForOptionChildren inside generateSourceCodeInfoForOption
	nO := 0
	for _, b := range allFuncBodies(p) {
		if b.Lit != nil || b.Obj.Name() == "apply" {
			continue
		}
		parents := parentMap(b.Body)
		ast.Inspect(b.Body, func(x ast.Node) bool {
			e, ok := x.(ast.Expr)
			if !ok || selField(info, e) != extraO {
				return true
			}
			nO++
			key := "extra-option-locs-read|" + b.Label
			ifs, isIf := parents[x].(*ast.IfStmt)
			okShape := b.Obj == genOpt.Obj && isIf && ifs.Else == nil && len(ifs.Body.List) == 1
			if okShape {
				es, ok := ifs.Body.List[0].(*ast.ExprStmt)
				if ok {
					c, ok := es.X.(*ast.CallExpr)
					okShape = ok && callee(info, c) == children.Obj
				} else {
					okShape = false
				}
			}
			if okShape {
				w.ok(key, x.Pos(), "the flag only adds the call generateSourceInfoForOptionChildren(…) after the option's own location: it can only add locations inside option values")
			} else {
				w.violation(key, x.Pos(), "extraOptionLocs is used other than as `if sci.extraOptionLocs { generateSourceInfoForOptionChildren(…) }` in generateSourceCodeInfoForOption")
			}
			return true
		})
	}
	w.floor("reads of sourceCodeInfo.extraOptionLocs", nO, 1)

	// RX4: index-space discipline. In `append(path, tags.T, idx)` the index variable idx counts the
	// elements of repeated field T: one variable must not serve two tags, and it must be incremented
	// in the block where it is used.
	nTriples := 0
	for _, b := range allFuncBodies(p) {
		if b.Lit != nil || !strings.HasPrefix(b.Obj.Name(), "generateSource") {
			continue
		}
		varTags := map[string]map[string]token.Pos{}
		parents := parentMap(b.Body)
		ast.Inspect(b.Body, func(x ast.Node) bool {
			c, ok := x.(*ast.CallExpr)
			if !ok || !isBuiltinCall(info, c, "append") || len(c.Args) != 3 {
				return true
			}
			ts, ok := ast.Unparen(c.Args[1]).(*ast.SelectorExpr)
			if !ok || render(ts.X) != "tags" {
				return true
			}
			idx := ast.Unparen(c.Args[2])
			if st, ok := idx.(*ast.StarExpr); ok {
				idx = st.X
			}
			id, ok := idx.(*ast.Ident)
			if !ok {
				return true
			}
			if _, isVar := info.Uses[id].(*types.Var); !isVar {
				return true
			}
			nTriples++
			if varTags[id.Name] == nil {
				varTags[id.Name] = map[string]token.Pos{}
			}
			varTags[id.Name][ts.Sel.Name] = c.Pos()
			// incremented in the enclosing statement list (loop variables of a range are exempt)
			if obj := info.Uses[id]; obj != nil {
				isLoopVar := false
				for a := parents[x]; a != nil; a = parents[a] {
					if rs, ok := a.(*ast.RangeStmt); ok {
						if k, ok := rs.Key.(*ast.Ident); ok && info.Defs[k] == obj {
							isLoopVar = true
						}
					}
				}
				if !isLoopVar {
					var stmt ast.Node = x
					for stmt != nil {
						if _, ok := parents[stmt].(*ast.BlockStmt); ok {
							break
						}
						if _, ok := parents[stmt].(*ast.CaseClause); ok {
							break
						}
						stmt = parents[stmt]
					}
					inc := false
					if stmt != nil {
						if list, i := containingList(parents, stmt); list != nil {
							for j := i; j < len(list); j++ {
								ast.Inspect(list[j], func(y ast.Node) bool {
									if ids, ok := y.(*ast.IncDecStmt); ok && ids.Tok == token.INC {
										e := ast.Unparen(ids.X)
										if st, ok := e.(*ast.StarExpr); ok {
											e = st.X
										}
										if render(e) == id.Name {
											inc = true
										}
									}
									return true
								})
							}
						}
					}
					key := "index-incremented|" + b.Label + "|" + id.Name + "@" + ts.Sel.Name
					if inc {
						w.ok(key, c.Pos(), "index "+id.Name+" is advanced after being used for tags."+ts.Sel.Name)
					} else {
						w.violation(key, c.Pos(), "index "+id.Name+" used for tags."+ts.Sel.Name+" is not incremented afterwards in the same block: consecutive elements get the same path index")
					}
				}
			}
			return true
		})
		var vs []string
		for v := range varTags {
			vs = append(vs, v)
		}
		sort.Strings(vs)
		for _, v := range vs {
			var ts []string
			for t := range varTags[v] {
				ts = append(ts, t)
			}
			sort.Strings(ts)
			key := "index-space|" + b.Label + "|" + v
			if len(ts) == 1 {
				w.ok(key, varTags[v][ts[0]], "index variable "+v+" indexes only tags."+ts[0])
			} else {
				w.violation(key, varTags[v][ts[len(ts)-1]], "index variable "+v+" is used as the path index of several repeated fields ("+strings.Join(ts, ", ")+"): an index into one list is not a valid index into another, so some location paths name elements that do not exist")
			}
		}
	}
	w.floor("(tag, index) path extensions in sourceinfo", nTriples, 15)
}
