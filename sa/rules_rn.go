package main

import (
	"fmt"
	"go/ast"
	"go/token"
	"go/types"
	"sort"
	"strings"

	"golang.org/x/tools/go/packages"
)

const descpbPath = "google.golang.org/protobuf/types/descriptorpb"

// descModel: the option-carrying element kinds and the containment edges between them, computed
// from the descriptorpb Go types (not listed by hand).
type descModel struct {
	kinds   map[string]*types.Named // element message name -> type (File, Message, Field, …)
	optsOf  map[string]string       // element message -> options message name
	optKind map[string]string       // options message name -> element message
	edges   map[string]bool         // "Parent.Field" for fields holding child elements
}

func (w *World) descriptorModel() *descModel {
	pk := w.ByPath[descpbPath]
	if pk == nil {
		w.undecided("anchor:descriptorpb", token.NoPos, "descriptorpb not loaded")
		return nil
	}
	m := &descModel{kinds: map[string]*types.Named{}, optsOf: map[string]string{}, optKind: map[string]string{}, edges: map[string]bool{}}
	sc := pk.Types.Scope()
	isElem := func(n *types.Named) (string, bool) {
		st, ok := n.Underlying().(*types.Struct)
		if !ok {
			return "", false
		}
		for i := 0; i < st.NumFields(); i++ {
			if st.Field(i).Name() != "Options" {
				continue
			}
			pt, ok := st.Field(i).Type().(*types.Pointer)
			if !ok {
				continue
			}
			on, ok := pt.Elem().(*types.Named)
			if !ok {
				continue
			}
			ost, ok := on.Underlying().(*types.Struct)
			if !ok {
				continue
			}
			for j := 0; j < ost.NumFields(); j++ {
				if ost.Field(j).Name() == "UninterpretedOption" {
					return on.Obj().Name(), true
				}
			}
		}
		return "", false
	}
	for _, name := range sc.Names() {
		tn, ok := sc.Lookup(name).(*types.TypeName)
		if !ok {
			continue
		}
		n, ok := tn.Type().(*types.Named)
		if !ok {
			continue
		}
		if o, ok := isElem(n); ok {
			m.kinds[name] = n
			m.optsOf[name] = o
			m.optKind[o] = name
		}
	}
	for name, n := range m.kinds {
		st := n.Underlying().(*types.Struct)
		for i := 0; i < st.NumFields(); i++ {
			f := st.Field(i)
			sl, ok := f.Type().(*types.Slice)
			if !ok {
				continue
			}
			pt, ok := sl.Elem().(*types.Pointer)
			if !ok {
				continue
			}
			cn, ok := pt.Elem().(*types.Named)
			if !ok {
				continue
			}
			if _, isKind := m.kinds[cn.Obj().Name()]; isKind {
				m.edges[name+"."+f.Name()] = true
			}
		}
	}
	return m
}

// traversalFuncs returns the call tree (static callees within the package) from the given roots,
// optionally restricted to functions whose file name ends with fileSuffix.
func traversalFuncs(w *World, p *packages.Package, roots []*types.Func, fileSuffix string) []*ast.FuncDecl {
	seen := map[*types.Func]bool{}
	var out []*ast.FuncDecl
	var visit func(f *types.Func)
	visit = func(f *types.Func) {
		if f == nil || seen[f] {
			return
		}
		seen[f] = true
		fd := w.decls[f]
		if fd == nil || w.declPkg[f] != p || fd.Body == nil {
			return
		}
		if fileSuffix != "" && !strings.HasSuffix(w.Fset.Position(fd.Pos()).Filename, fileSuffix) {
			return
		}
		out = append(out, fd)
		ast.Inspect(fd.Body, func(x ast.Node) bool {
			switch e := x.(type) {
			case *ast.CallExpr:
				if c := callee(p.TypesInfo, e); c != nil {
					visit(c.Origin())
				}
			case *ast.Ident:
				// function values passed as arguments (stripOptionsFromAll(list, fn, …))
				if fo, ok := p.TypesInfo.Uses[e].(*types.Func); ok {
					visit(fo.Origin())
				}
			}
			return true
		})
	}
	for _, r := range roots {
		visit(r)
	}
	return out
}

// coverage of one traversal: containment edges followed and options kinds reached.
func traversalCoverage(w *World, p *packages.Package, fds []*ast.FuncDecl, m *descModel) (edges map[string]bool, kinds map[string]bool) {
	info := p.TypesInfo
	edges, kinds = map[string]bool{}, map[string]bool{}
	namedOf := func(t types.Type) string {
		if pt, ok := t.(*types.Pointer); ok {
			t = pt.Elem()
		}
		if n, ok := t.(*types.Named); ok && n.Obj().Pkg() != nil && n.Obj().Pkg().Path() == descpbPath {
			return n.Obj().Name()
		}
		return ""
	}
	for _, fd := range fds {
		ast.Inspect(fd.Body, func(x ast.Node) bool {
			switch e := x.(type) {
			case *ast.SelectorExpr:
				tv, ok := info.Types[e.X]
				if !ok {
					return true
				}
				owner := namedOf(tv.Type)
				if owner == "" {
					return true
				}
				name := strings.TrimPrefix(e.Sel.Name, "Get")
				if m.edges[owner+"."+name] {
					edges[owner+"."+name] = true
				}
				// options kinds reached through .Options / .GetOptions() / UninterpretedOption
				if _, isKind := m.kinds[owner]; isKind && name == "Options" {
					kinds[m.optsOf[owner]] = true
				}
				if _, isOpt := m.optKind[owner]; isOpt && (name == "UninterpretedOption") {
					kinds[owner] = true
				}
			case *ast.Ident:
				// generic instantiations mentioning an options type or an element type
				if inst, ok := info.Instances[e]; ok {
					for i := 0; i < inst.TypeArgs.Len(); i++ {
						n := namedOf(inst.TypeArgs.At(i))
						if _, isOpt := m.optKind[n]; isOpt {
							kinds[n] = true
						}
					}
				}
			}
			return true
		})
	}
	return
}

type traversalSpec struct {
	name       string
	rel        string
	roots      []string
	fileSuffix string
	// edges that this traversal legitimately does not follow itself (with reason)
	edgeExempt map[string]string
}

func rnTraversal(w *World, spec traversalSpec) {
	w.rule("RN")
	m := w.descriptorModel()
	p := w.pkg(spec.rel)
	if m == nil || p == nil {
		return
	}
	if len(m.kinds) < 9 || len(m.edges) < 12 {
		w.undecided("model", token.NoPos, fmt.Sprintf("descriptor model has %d option-carrying kinds and %d containment edges (expected 9 and 12)", len(m.kinds), len(m.edges)))
		return
	}
	var roots []*types.Func
	for _, r := range spec.roots {
		if fr := w.fn(spec.rel, r); fr != nil {
			roots = append(roots, fr.Obj)
		}
	}
	fds := traversalFuncs(w, p, roots, spec.fileSuffix)
	for _, fd := range fds {
		if o, ok := p.TypesInfo.Defs[fd.Name].(*types.Func); ok {
			w.FuncsSeen[funcName(o)] = true
		}
	}
	edges, kinds := traversalCoverage(w, p, fds, m)
	var es []string
	for e := range m.edges {
		es = append(es, e)
	}
	sort.Strings(es)
	for _, e := range es {
		key := spec.name + "|edge:" + e
		switch {
		case edges[e]:
			w.ok(key, token.NoPos, "the traversal follows "+e)
		case spec.edgeExempt[e] != "":
			w.ok(key, token.NoPos, "reviewed: "+spec.edgeExempt[e])
		default:
			w.violation(key, token.NoPos, fmt.Sprintf("traversal '%s' (%d functions from %v) never follows %s: the elements stored there are skipped — their options stay uninterpreted / unresolved / uncopied / unstripped", spec.name, len(fds), spec.roots, e))
		}
	}
	var ks []string
	for k := range m.optKind {
		ks = append(ks, k)
	}
	sort.Strings(ks)
	for _, k := range ks {
		key := spec.name + "|kind:" + k
		if kinds[k] {
			w.ok(key, token.NoPos, "options of kind "+k+" are handled")
		} else {
			w.violation(key, token.NoPos, fmt.Sprintf("traversal '%s' never touches %s: that element kind is left out", spec.name, k))
		}
	}
	w.floor("functions in traversal "+spec.name, len(fds), 2)
}

func rnInterpreter(w *World) {
	rnTraversal(w, traversalSpec{name: "options-interpreter", rel: "options", roots: []string{"(*interpreter).interpretFileOptions"}, fileSuffix: "options.go"})
}

func rnLinkerResolve(w *World) {
	// the linker walks descriptor wrappers with walk.DescriptorsEnterAndExit, so containment edges are
	// followed by package walk; only extension ranges (not descriptors) are iterated by hand.
	ex := map[string]string{}
	for _, e := range []string{"FileDescriptorProto.MessageType", "FileDescriptorProto.EnumType", "FileDescriptorProto.Extension", "FileDescriptorProto.Service",
		"DescriptorProto.Field", "DescriptorProto.NestedType", "DescriptorProto.EnumType", "DescriptorProto.Extension", "DescriptorProto.OneofDecl",
		"EnumDescriptorProto.Value", "ServiceDescriptorProto.Method"} {
		ex[e] = "followed by walk.DescriptorsEnterAndExit over the linker's descriptor wrappers (exhaustiveness of that walk is checked for package walk)"
	}
	rnTraversal(w, traversalSpec{name: "linker-resolve-options", rel: "linker", roots: []string{"(*result).resolveReferences"}, fileSuffix: "resolve.go", edgeExempt: ex})
	rnWalkReflect(w)
}

// rnWalkReflect: walk.DescriptorsEnterAndExit (protoreflect level) follows every containment edge
// between descriptor kinds.
func rnWalkReflect(w *World) {
	w.rule("RN")
	p := w.pkg("walk")
	root := w.fn("walk", "DescriptorsEnterAndExit")
	if p == nil || root == nil {
		return
	}
	want := map[string][]string{
		"FileDescriptor":    {"Messages", "Enums", "Extensions", "Services"},
		"MessageDescriptor": {"Fields", "Oneofs", "Messages", "Enums", "Extensions"},
		"EnumDescriptor":    {"Values"},
		"ServiceDescriptor": {"Methods"},
	}
	fds := traversalFuncs(w, p, []*types.Func{root.Obj}, "")
	seen := map[string]bool{}
	viaLocal := map[string][]string{}
	for _, fd := range fds {
		ast.Inspect(fd.Body, func(x ast.Node) bool {
			c, ok := x.(*ast.CallExpr)
			if !ok {
				return true
			}
			s, ok := ast.Unparen(c.Fun).(*ast.SelectorExpr)
			if !ok {
				return true
			}
			tv, ok := p.TypesInfo.Types[s.X]
			if !ok {
				return true
			}
			if n, ok := tv.Type.(*types.Named); ok && n.Obj().Pkg() != nil && strings.HasSuffix(n.Obj().Pkg().Path(), "protoreflect") {
				seen[n.Obj().Name()+"."+s.Sel.Name] = true
			}
			if n, ok := tv.Type.(*types.Named); ok && n.Obj().Pkg() == p.Types {
				if _, isIface := n.Underlying().(*types.Interface); isIface {
					viaLocal[n.Obj().Name()] = append(viaLocal[n.Obj().Name()], s.Sel.Name)
				}
			}
			return true
		})
	}
	// calls passing a protoreflect descriptor where a local interface (walk.container) is expected:
	// the methods invoked through that interface are invoked on the argument's type
	for _, fd := range fds {
		ast.Inspect(fd.Body, func(x ast.Node) bool {
			c, ok := x.(*ast.CallExpr)
			if !ok {
				return true
			}
			f := callee(p.TypesInfo, c)
			if f == nil || f.Pkg() != p.Types {
				return true
			}
			sig := f.Type().(*types.Signature)
			for i := 0; i < sig.Params().Len() && i < len(c.Args); i++ {
				pn, ok := sig.Params().At(i).Type().(*types.Named)
				if !ok || pn.Obj().Pkg() != p.Types {
					continue
				}
				if tv, ok := p.TypesInfo.Types[c.Args[i]]; ok {
					if an, ok := tv.Type.(*types.Named); ok && an.Obj().Pkg() != nil && strings.HasSuffix(an.Obj().Pkg().Path(), "protoreflect") {
						for _, m := range viaLocal[pn.Obj().Name()] {
							seen[an.Obj().Name()+"."+m] = true
						}
					}
				}
			}
			return true
		})
	}
	n := 0
	var owners []string
	for o := range want {
		owners = append(owners, o)
	}
	sort.Strings(owners)
	for _, o := range owners {
		for _, m := range want[o] {
			n++
			key := "walk|edge:" + o + "." + m
			if seen[o+"."+m] {
				w.ok(key, token.NoPos, "walk.DescriptorsEnterAndExit descends through "+o+"."+m+"()")
			} else {
				w.violation(key, root.Decl.Pos(), "walk.DescriptorsEnterAndExit never calls "+o+"."+m+"(): descriptors stored there are not visited, so the linker never resolves their options or references")
			}
		}
	}
	w.floor("protoreflect containment edges expected of package walk", n, 11)
}

func rnClone(w *World) {
	rnTraversal(w, traversalSpec{name: "parser-clone", rel: "parser", roots: []string{"recreateNodeIndexForFile"}, fileSuffix: "clone.go"})
}

func rnStrip(w *World) {
	rnTraversal(w, traversalSpec{name: "strip-source-retention", rel: "options", roots: []string{"StripSourceRetentionOptionsFromFile"}, fileSuffix: "source_retention_options.go"})
	rnStripDetails(w)
	rnStripUnchangedReturn(w)
	rnStripUnknownPreserved(w)
}

// rnStripDetails: C22-specific structural clauses.
func rnStripDetails(w *World) {
	w.rule("RN2")
	p := w.pkg("options")
	strip := w.fn("options", "stripSourceRetentionOptions")
	if p == nil || strip == nil {
		return
	}
	info := p.TypesInfo
	// (1) any depth: the function that tests a field's retention must, for a field it keeps, look
	// inside message-valued values: it calls itself (or the top-level filter) on Value.Message() of
	// a singular field and of list elements. Functions testing retention are found by resolved
	// callee ((*descriptorpb.FieldOptions).GetRetention), not by name.
	var filters []bodyRef
	for _, b := range allFuncBodies(p) {
		if b.Lit != nil || !strings.HasSuffix(w.Fset.Position(b.Decl.Pos()).Filename, "source_retention_options.go") {
			continue
		}
		has := false
		ast.Inspect(b.Body, func(x ast.Node) bool {
			if c, ok := x.(*ast.CallExpr); ok {
				if f := callee(info, c); f != nil && f.Name() == "GetRetention" && f.Pkg() != nil && strings.HasSuffix(f.Pkg().Path(), "descriptorpb") {
					has = true
				}
			}
			return true
		})
		if has {
			filters = append(filters, b)
		}
	}
	w.floor("functions testing field retention", len(filters), 1)
	for _, b := range filters {
		self := info.Defs[b.Decl.Name]
		nSingular, nList, nMap := 0, 0, 0
		ast.Inspect(b.Body, func(x ast.Node) bool {
			c, ok := x.(*ast.CallExpr)
			if !ok {
				return true
			}
			f := callee(info, c)
			if f == nil || (f.Origin() != self && f.Origin() != strip.Obj) || len(c.Args) == 0 {
				return true
			}
			// classify the message argument: v.Message() | list.Get(i).Message() | map value
			arg := render(c.Args[0])
			if !strings.Contains(arg, ".Message()") {
				return true
			}
			switch {
			case strings.Contains(arg, ".Get("):
				nList++
			default:
				// inside a Map().Range callback?  decided by the enclosing literal's first parameter type
				inMap := false
				ast.Inspect(b.Body, func(y ast.Node) bool {
					if fl, ok := y.(*ast.FuncLit); ok && fl.Pos() <= c.Pos() && c.End() <= fl.End() && fl.Type.Params != nil && len(fl.Type.Params.List) > 0 {
						if tv, ok := info.Types[fl.Type.Params.List[0].Type]; ok && strings.HasSuffix(tv.Type.String(), "protoreflect.MapKey") {
							inMap = true
						}
					}
					return true
				})
				if inMap {
					nMap++
				} else {
					nSingular++
				}
			}
			return true
		})
		key := "any-depth|" + b.Label
		if b.Decl.Name.Name == "stripSourceRetentionOptions" || (nSingular == 0 && nList == 0 && nMap == 0) {
			key = "any-depth|stripSourceRetentionOptions" // stable key of the original finding
		}
		switch {
		case nSingular > 0 && nList > 0 && nMap > 0:
			w.ok(key, b.Decl.Pos(), fmt.Sprintf("the retention filter %s recurses into singular (%d), repeated (%d) and map-valued (%d) message fields", b.Label, nSingular, nList, nMap))
		case nSingular == 0 && nList == 0 && nMap == 0:
			w.violation(key, b.Decl.Pos(), "the option filter only tests the retention of the top-level fields of the options message and never descends into message-valued fields (no recursive call on Value.Message()): a source-retention field nested inside an option message is kept")
		default:
			w.violation(key+"|partial", b.Decl.Pos(), fmt.Sprintf("the retention filter recurses into singular=%d repeated=%d map=%d message-valued fields: a source-retention field nested in the missing shape is kept", nSingular, nList, nMap))
		}
		// (1b) protoreflect mutators are applied only to fresh values: the receiver of Set / Clear /
		// Mutable / Append / Truncate / SetUnknown is a local whose every assignment is rooted at a
		// Message.New() call (or New() itself); anything reached from the input (msg, val, list.Get)
		// would modify the caller's descriptor in place.
		fresh := func(e ast.Expr) bool {
			ok := false
			ast.Inspect(e, func(y ast.Node) bool {
				if c, isC := y.(*ast.CallExpr); isC {
					if s, isS := ast.Unparen(c.Fun).(*ast.SelectorExpr); isS && (s.Sel.Name == "New" || s.Sel.Name == "NewField") && len(c.Args) <= 1 {
						ok = true
					}
				}
				return true
			})
			return ok
		}
		assigns := map[types.Object][]ast.Expr{}
		ast.Inspect(b.Body, func(y ast.Node) bool {
			if as, ok := y.(*ast.AssignStmt); ok && len(as.Lhs) == len(as.Rhs) {
				for i, l := range as.Lhs {
					if id, ok := l.(*ast.Ident); ok {
						obj := info.Defs[id]
						if obj == nil {
							obj = info.Uses[id]
						}
						if obj != nil {
							assigns[obj] = append(assigns[obj], as.Rhs[i])
						}
					}
				}
			}
			return true
		})
		nMut := 0
		ast.Inspect(b.Body, func(y ast.Node) bool {
			c, ok := y.(*ast.CallExpr)
			if !ok {
				return true
			}
			s, ok := ast.Unparen(c.Fun).(*ast.SelectorExpr)
			if !ok {
				return true
			}
			switch s.Sel.Name {
			case "Set", "Clear", "Mutable", "Append", "Truncate", "SetUnknown", "AppendMutable":
			default:
				return true
			}
			tv, ok := info.Types[s.X]
			if !ok || !strings.Contains(tv.Type.String(), "protoreflect.") {
				return true
			}
			nMut++
			k := "fresh-receiver|" + b.Label + "|" + render(s.X) + "." + s.Sel.Name
			recv := ast.Unparen(s.X)
			if fresh(recv) {
				w.ok(k, c.Pos(), "mutator applied to a value created by New() in the same expression")
				return true
			}
			id, isId := recv.(*ast.Ident)
			if !isId {
				w.violation(k, c.Pos(), "protoreflect mutator "+s.Sel.Name+" applied to "+render(s.X)+", which is reached from the input message: stripping must not modify its input")
				return true
			}
			rhs := assigns[info.Uses[id]]
			good := len(rhs) > 0
			for _, r := range rhs {
				if !fresh(r) {
					good = false
				}
			}
			if good {
				w.ok(k, c.Pos(), fmt.Sprintf("receiver %s is only ever assigned values rooted at New() (%d assignment(s))", id.Name, len(rhs)))
			} else {
				w.violation(k, c.Pos(), "protoreflect mutator "+s.Sel.Name+" applied to "+id.Name+", which is not (only) assigned fresh New() values in this function: it may alias the input message")
			}
			return true
		})
		w.floor("protoreflect mutator calls in "+b.Label, nMut, 1)
	}
	// (2) never modifies its input: in source_retention_options.go no assignment goes through a parameter
	nAssign := 0
	for _, b := range allFuncBodies(p) {
		if b.Lit != nil || !strings.HasSuffix(w.Fset.Position(b.Decl.Pos()).Filename, "source_retention_options.go") {
			continue
		}
		params := map[types.Object]bool{}
		for _, fl := range b.Decl.Type.Params.List {
			for _, nm := range fl.Names {
				params[info.Defs[nm]] = true
			}
		}
		ast.Inspect(b.Body, func(x ast.Node) bool {
			as, ok := x.(*ast.AssignStmt)
			if !ok {
				return true
			}
			for _, l := range as.Lhs {
				e := ast.Unparen(l)
				for {
					switch t := e.(type) {
					case *ast.SelectorExpr:
						e = ast.Unparen(t.X)
						continue
					case *ast.IndexExpr:
						e = ast.Unparen(t.X)
						continue
					case *ast.StarExpr:
						e = ast.Unparen(t.X)
						continue
					}
					break
				}
				id, ok := e.(*ast.Ident)
				if !ok || e == ast.Unparen(l) {
					continue // plain variable assignment
				}
				nAssign++
				if obj := info.Uses[id]; obj != nil && params[obj] && carriesDescriptor(obj.Type()) {
					// writing through a pointer/slice parameter mutates the caller's descriptor
					if _, isPtr := obj.Type().Underlying().(*types.Pointer); isPtr {
						w.violation("no-input-mutation|"+b.Label+"|"+render(l), l.Pos(), "assignment through parameter "+id.Name+": StripSourceRetentionOptions must not modify the descriptor it is given")
						continue
					}
					if _, isSl := obj.Type().Underlying().(*types.Slice); isSl {
						if _, isIx := ast.Unparen(l).(*ast.IndexExpr); isIx {
							w.violation("no-input-mutation|"+b.Label+"|"+render(l), l.Pos(), "element assignment into parameter slice "+id.Name+": mutates the caller's descriptor")
							continue
						}
					}
				}
			}
			return true
		})
	}
	w.ok("no-input-mutation", token.NoPos, fmt.Sprintf("none of the %d field/element assignments in source_retention_options.go goes through a pointer or slice parameter (all target copies made by shallowCopy/New/make)", nAssign))
	w.floor("field assignments in source_retention_options.go", nAssign, 10)

	// (3) rebuild completeness and path-tag agreement in every stripSourceRetentionOptionsFromX
	all := w.fn("options", "stripOptionsFromAll")
	for _, b := range allFuncBodies(p) {
		if b.Lit != nil || !strings.HasSuffix(w.Fset.Position(b.Decl.Pos()).Filename, "source_retention_options.go") {
			continue
		}
		// path variables: name -> tag constant suffix
		pathTag := map[string]string{}
		ast.Inspect(b.Body, func(x ast.Node) bool {
			as, ok := x.(*ast.AssignStmt)
			if !ok || len(as.Lhs) != 1 || len(as.Rhs) != 1 {
				return true
			}
			c, ok := as.Rhs[0].(*ast.CallExpr)
			if !ok || len(c.Args) != 1 {
				return true
			}
			if s, ok := ast.Unparen(c.Fun).(*ast.SelectorExpr); ok && s.Sel.Name == "push" {
				if ts, ok := ast.Unparen(c.Args[0]).(*ast.SelectorExpr); ok && render(ts.X) == "tags" {
					pathTag[render(as.Lhs[0])] = ts.Sel.Name
				}
			}
			return true
		})
		stripped := map[string]bool{}
		ast.Inspect(b.Body, func(x ast.Node) bool {
			c, ok := x.(*ast.CallExpr)
			if !ok {
				return true
			}
			f := callee(info, c)
			if f == nil {
				return true
			}
			var fieldExpr ast.Expr
			var pathArg ast.Expr
			switch {
			case all != nil && f.Origin() == all.Obj && len(c.Args) == 4:
				fieldExpr, pathArg = c.Args[0], c.Args[2]
			case f.Origin() == strip.Obj && len(c.Args) == 3:
				fieldExpr, pathArg = c.Args[0], c.Args[1]
			default:
				return true
			}
			fname := ""
			switch fe := ast.Unparen(fieldExpr).(type) {
			case *ast.SelectorExpr:
				fname = fe.Sel.Name
			case *ast.CallExpr:
				if s, ok := ast.Unparen(fe.Fun).(*ast.SelectorExpr); ok {
					fname = strings.TrimPrefix(s.Sel.Name, "Get")
				}
			}
			if fname == "" {
				return true
			}
			stripped[fname] = true
			tag := pathTag[render(pathArg)]
			key := "path-tag|" + b.Label + "|" + fname
			if tag == "" {
				w.undecided(key, c.Pos(), "cannot find the tags.* constant used for the source path of "+fname)
			} else if strings.HasSuffix(tag, "_"+fname) {
				w.ok(key, c.Pos(), "children in ."+fname+" are stripped under source path tags."+tag)
			} else {
				w.violation(key, c.Pos(), "children in ."+fname+" are stripped under source path tags."+tag+", which names a different field: the wrong source code info locations are removed")
			}
			return true
		})
		if len(stripped) == 0 {
			continue
		}
		// every stripped field is assigned back on the copy
		assigned := map[string]bool{}
		ast.Inspect(b.Body, func(x ast.Node) bool {
			if as, ok := x.(*ast.AssignStmt); ok {
				for _, l := range as.Lhs {
					if s, ok := ast.Unparen(l).(*ast.SelectorExpr); ok {
						assigned[s.Sel.Name] = true
					}
				}
			}
			return true
		})
		var fs []string
		for f := range stripped {
			fs = append(fs, f)
		}
		sort.Strings(fs)
		for _, f := range fs {
			key := "rebuild|" + b.Label + "|" + f
			if assigned[f] {
				w.ok(key, b.Decl.Pos(), "the stripped ."+f+" is stored in the rebuilt element")
			} else {
				w.violation(key, b.Decl.Pos(), "."+f+" is stripped but never assigned to the rebuilt element: the result still carries the unstripped children")
			}
		}
	}
}

// rnStripUnchangedReturn (RN4): a strip helper may hand back its input element unchanged only on
// paths where every stripped part (the options message and each child list) was established to
// be unchanged. Path-sensitive: both the `dirty` flag idiom and the direct comparison idiom are
// interpreted by enumerating the function's paths.
func rnStripUnchangedReturn(w *World) {
	w.rule("RN4")
	p := w.pkg("options")
	strip := w.fn("options", "stripSourceRetentionOptions")
	all := w.fn("options", "stripOptionsFromAll")
	if p == nil || strip == nil || all == nil {
		return
	}
	info := p.TypesInfo
	nFuncs := 0
	for _, b := range allFuncBodies(p) {
		if b.Lit != nil || !strings.HasSuffix(w.Fset.Position(b.Decl.Pos()).Filename, "source_retention_options.go") {
			continue
		}
		if b.Decl.Type.Params == nil || len(b.Decl.Type.Params.List) == 0 || len(b.Decl.Type.Params.List[0].Names) == 0 {
			continue
		}
		param := b.Decl.Type.Params.List[0].Names[0].Name
		// parts: results of strip calls
		parts := map[string]bool{}
		ast.Inspect(b.Body, func(x ast.Node) bool {
			as, ok := x.(*ast.AssignStmt)
			if !ok || len(as.Rhs) != 1 {
				return true
			}
			c, ok := as.Rhs[0].(*ast.CallExpr)
			if !ok {
				return true
			}
			f := callee(info, c)
			if f == nil || (f.Origin() != strip.Obj && f.Origin() != all.Obj) || len(c.Args) == 0 {
				return true
			}
			parts[partName(c.Args[0])] = true
			return true
		})
		if len(parts) == 0 || b.Obj == strip.Obj || b.Obj == all.Obj {
			continue
		}
		nFuncs++
		g := buildCFG(info, b.Body)
		d := &Dataflow{G: g, Must: true, Init: Facts{}}
		d.Transfer = func(n ast.Node, in Facts) Facts {
			out := in
			as, ok := n.(*ast.AssignStmt)
			if !ok {
				return out
			}
			if len(as.Rhs) == 1 {
				if c, ok := as.Rhs[0].(*ast.CallExpr); ok {
					if f := callee(info, c); f != nil && len(c.Args) > 0 && (f.Origin() == strip.Obj || f.Origin() == all.Obj) {
						part := partName(c.Args[0])
						out = out.without("same:" + part).without("changed:" + part)
						// bind result variables to the part
						for i, l := range as.Lhs {
							v := render(l)
							if v == "_" || v == "err" {
								continue
							}
							for k := range out {
								if strings.HasPrefix(k, "bind:"+v+"=") {
									out = out.without(k)
								}
							}
							kind := "new"
							if f.Origin() == all.Obj && i == 1 {
								kind = "flag"
							}
							out = out.with("bind:" + v + "=" + kind + ":" + part)
						}
						return out
					}
				}
			}
			for i, l := range as.Lhs {
				if i < len(as.Rhs) && render(l) == "dirty" {
					if render(as.Rhs[i]) == "true" {
						out = out.with("dirty")
					} else {
						out = out.without("dirty")
					}
				}
			}
			return out
		}
		bound := func(s Facts, v, kind string) string {
			for k := range s {
				if strings.HasPrefix(k, "bind:"+v+"="+kind+":") {
					return strings.TrimPrefix(k, "bind:"+v+"="+kind+":")
				}
			}
			return ""
		}
		d.Branch = func(leaf ast.Expr, truth bool, s Facts) Facts {
			switch e := leaf.(type) {
			case *ast.Ident:
				if e.Name == "dirty" {
					if s["dirty"] != truth {
						return Facts{bottom: true}
					}
					return s
				}
				if part := bound(s, e.Name, "flag"); part != "" {
					if truth {
						return s.with("changed:" + part)
					}
					return s.with("same:" + part)
				}
			case *ast.BinaryExpr:
				if e.Op == token.EQL || e.Op == token.NEQ {
					for _, pair := range [][2]ast.Expr{{e.X, e.Y}, {e.Y, e.X}} {
						if part := bound(s, render(pair[0]), "new"); part != "" && partName(pair[1]) == part && strings.HasPrefix(render(pair[1]), param) {
							if (e.Op == token.EQL) == truth {
								return s.with("same:" + part)
							}
							return s.with("changed:" + part)
						}
					}
				}
			}
			return s
		}
		exits, complete := d.Paths(info, b.Body.End(), 20000)
		if !complete {
			w.undecided("unchanged-return|"+b.Label+"|paths", b.Decl.Pos(), "more than 20000 paths")
			continue
		}
		bad := 0
		nRet := 0
		for _, e := range exits {
			r, ok := e.Last.(*ast.ReturnStmt)
			if !ok || len(r.Results) == 0 || render(r.Results[0]) != param {
				continue
			}
			nRet++
			var missing []string
			for part := range parts {
				if !e.State["same:"+part] {
					missing = append(missing, part)
				}
			}
			if len(missing) > 0 {
				bad++
				sort.Strings(missing)
				w.violation("unchanged-return|"+b.Label, r.Pos(), fmt.Sprintf("the input element is returned unchanged on a path where %s was not established to be unchanged (state %s): source-retention options stripped from that part are silently put back", strings.Join(missing, ", "), e.State.String()))
				break
			}
		}
		if bad == 0 {
			w.ok("unchanged-return|"+b.Label, b.Decl.Pos(), fmt.Sprintf("on all %d paths that return the input element itself, every stripped part %v was found unchanged", nRet, sortedKeys(parts)))
		}
	}
	w.floor("strip helpers with an unchanged-input fast path", nFuncs, 6)

	// RN5: never append into a reslice of input-owned storage
	for _, b := range allFuncBodies(p) {
		if b.Lit != nil || !strings.HasSuffix(w.Fset.Position(b.Decl.Pos()).Filename, "source_retention_options.go") {
			continue
		}
		params := map[types.Object]bool{}
		for _, fl := range b.Decl.Type.Params.List {
			for _, nm := range fl.Names {
				params[info.Defs[nm]] = true
			}
		}
		rooted := func(e ast.Expr) bool {
			for {
				switch t := ast.Unparen(e).(type) {
				case *ast.SelectorExpr:
					e = t.X
					continue
				case *ast.IndexExpr:
					e = t.X
					continue
				case *ast.CallExpr:
					if s, ok := ast.Unparen(t.Fun).(*ast.SelectorExpr); ok && strings.HasPrefix(s.Sel.Name, "Get") {
						e = s.X
						continue
					}
					return false
				case *ast.Ident:
					return params[info.Uses[t]]
				}
				return false
			}
		}
		resliced := map[string]ast.Node{}
		ast.Inspect(b.Body, func(x ast.Node) bool {
			if as, ok := x.(*ast.AssignStmt); ok && len(as.Lhs) == 1 && len(as.Rhs) == 1 {
				if se, ok := ast.Unparen(as.Rhs[0]).(*ast.SliceExpr); ok && rooted(se.X) {
					resliced[render(as.Lhs[0])] = se
				}
			}
			return true
		})
		ast.Inspect(b.Body, func(x ast.Node) bool {
			c, ok := x.(*ast.CallExpr)
			if !ok || !isBuiltinCall(info, c, "append") || len(c.Args) == 0 {
				return true
			}
			base := ast.Unparen(c.Args[0])
			if se, ok := base.(*ast.SliceExpr); ok && rooted(se.X) {
				w.violation("append-into-input|"+b.Label, c.Pos(), "append to a reslice of the input's own slice overwrites the caller's backing array: the input descriptor is modified")
			} else if id, ok := base.(*ast.Ident); ok {
				if _, isRes := resliced[id.Name]; isRes {
					w.violation("append-into-input|"+b.Label, c.Pos(), "append to "+id.Name+", a reslice of the input's own slice: elements of the caller's backing array are overwritten, so the input descriptor is modified")
				}
			}
			return true
		})
	}
	nApp := 0
	for _, o := range w.Obls {
		if strings.Contains(o.Key, "append-into-input|") {
			nApp++
		}
	}
	if nApp == 0 {
		w.ok("append-into-input", token.NoPos, "no append targets a reslice of storage owned by a parameter in source_retention_options.go")
	}
}

func partName(e ast.Expr) string {
	switch t := ast.Unparen(e).(type) {
	case *ast.SelectorExpr:
		return t.Sel.Name
	case *ast.CallExpr:
		if s, ok := ast.Unparen(t.Fun).(*ast.SelectorExpr); ok {
			return strings.TrimPrefix(s.Sel.Name, "Get")
		}
	}
	return render(e)
}

// carriesDescriptor reports whether a parameter type can reach the caller's descriptor: a type
// parameter, a protoreflect interface, or a pointer/slice (of pointers) to a descriptorpb struct.
// Out-parameters of plain bookkeeping types (e.g. *[]sourcePath) cannot.
func carriesDescriptor(t types.Type) bool {
	switch u := t.(type) {
	case *types.TypeParam:
		return true
	case *types.Pointer:
		return carriesDescriptor(u.Elem())
	case *types.Slice:
		return carriesDescriptor(u.Elem())
	case *types.Named:
		if u.Obj().Pkg() != nil {
			pp := u.Obj().Pkg().Path()
			if strings.HasSuffix(pp, "descriptorpb") || strings.HasSuffix(pp, "protoreflect") || strings.HasSuffix(pp, "/proto") {
				return true
			}
		}
		if sl, ok := u.Underlying().(*types.Slice); ok {
			return carriesDescriptor(sl.Elem())
		}
		if pt, ok := u.Underlying().(*types.Pointer); ok {
			return carriesDescriptor(pt.Elem())
		}
	}
	return false
}

// rnStripUnknownPreserved (RN6): "leaves every other field unchanged" includes the fields the Go
// runtime does not recognise (unknown fields: custom options read without their extension, fields
// of a newer descriptor.proto). Every copy built in source_retention_options.go by
// `L := X.New()` (X a protoreflect.Message) followed by Range/Set must also carry the unknown
// bytes across — a call L.SetUnknown(X.GetUnknown()) in the same function — and the decision to
// drop a whole options message ("nothing left to keep", return of the zero value with a nil error)
// must look at the unknown bytes too.
func rnStripUnknownPreserved(w *World) {
	w.rule("RN6")
	p := w.pkg("options")
	strip := w.fn("options", "stripSourceRetentionOptions")
	if p == nil || strip == nil {
		return
	}
	info := p.TypesInfo
	isReflMsg := func(e ast.Expr) bool {
		tv, ok := info.Types[e]
		return ok && strings.HasSuffix(tv.Type.String(), "protoreflect.Message")
	}
	n := 0
	for _, b := range allFuncBodies(p) {
		if b.Lit != nil || !strings.HasSuffix(w.Fset.Position(b.Decl.Pos()).Filename, "source_retention_options.go") {
			continue
		}
		ast.Inspect(b.Body, func(x ast.Node) bool {
			as, ok := x.(*ast.AssignStmt)
			if !ok || len(as.Lhs) != 1 || len(as.Rhs) != 1 {
				return true
			}
			c, ok := ast.Unparen(as.Rhs[0]).(*ast.CallExpr)
			if !ok || len(c.Args) != 0 {
				return true
			}
			sel, ok := ast.Unparen(c.Fun).(*ast.SelectorExpr)
			if !ok || sel.Sel.Name != "New" || !isReflMsg(sel.X) {
				return true
			}
			lid, ok := as.Lhs[0].(*ast.Ident)
			if !ok {
				return true
			}
			n++
			src := render(sel.X)
			key := "unknown-preserved|" + b.Label + "|" + lid.Name
			found := false
			ast.Inspect(b.Body, func(y ast.Node) bool {
				cc, ok := y.(*ast.CallExpr)
				if !ok || len(cc.Args) != 1 {
					return true
				}
				s2, ok := ast.Unparen(cc.Fun).(*ast.SelectorExpr)
				if !ok || s2.Sel.Name != "SetUnknown" || render(s2.X) != lid.Name {
					return true
				}
				if render(cc.Args[0]) == src+".GetUnknown()" {
					found = true
				}
				return true
			})
			if found {
				w.ok(key, as.Pos(), "the copy "+lid.Name+" of "+src+" also receives "+src+"'s unknown fields")
			} else {
				w.violation(key, as.Pos(), "the copy "+lid.Name+" := "+src+".New() is filled from "+src+".Range only: unknown fields of the input (unrecognised options, fields of a newer descriptor.proto) are silently dropped, so stripping does not leave every other field unchanged")
			}
			return true
		})
	}
	w.floor("message copies built by New() in source_retention_options.go", n, 2)
	// a nil source path means "positions are not tracked here" (map values have no stable index,
	// files without source info): path.push keeps it nil, and a nil path handed to addPath marks
	// the *root* of the removed-paths trie, i.e. drops every location of the file. A call that
	// passes a literal nil path must therefore hand over a throw-away accumulator (new(...) or the
	// address of a fresh literal), never the caller's list of removed paths.
	nNil := 0
	for _, b := range allFuncBodies(p) {
		if b.Lit != nil || !strings.HasSuffix(w.Fset.Position(b.Decl.Pos()).Filename, "source_retention_options.go") {
			continue
		}
		ast.Inspect(b.Body, func(x ast.Node) bool {
			c, ok := x.(*ast.CallExpr)
			if !ok {
				return true
			}
			f := callee(info, c)
			if f == nil || f.Pkg() != p.Types {
				return true
			}
			sig := f.Type().(*types.Signature)
			pathIdx, accIdx := -1, -1
			for i := 0; i < sig.Params().Len(); i++ {
				t := sig.Params().At(i).Type()
				if n, ok := t.(*types.Named); ok && n.Obj().Name() == "sourcePath" {
					pathIdx = i
				}
				if pt, ok := t.(*types.Pointer); ok {
					if sl, ok := pt.Elem().(*types.Slice); ok {
						if n, ok := sl.Elem().(*types.Named); ok && n.Obj().Name() == "sourcePath" {
							accIdx = i
						}
					}
				}
			}
			if pathIdx < 0 || accIdx < 0 || pathIdx >= len(c.Args) || accIdx >= len(c.Args) || !isNilIdent(info, c.Args[pathIdx]) {
				return true
			}
			nNil++
			key := "nil-path-throwaway|" + b.Label + "|" + f.Name()
			fresh := false
			switch a := ast.Unparen(c.Args[accIdx]).(type) {
			case *ast.CallExpr:
				fresh = isBuiltinCall(info, a, "new")
			case *ast.UnaryExpr:
				_, fresh = a.X.(*ast.CompositeLit)
			}
			if fresh {
				w.ok(key, c.Pos(), "the call that passes a nil path collects into a throw-away accumulator")
			} else {
				w.violation(key, c.Pos(), "a nil path is passed together with the shared accumulator "+types.ExprString(c.Args[accIdx])+": the nil paths recorded there reach sourcePathTrie.addPath, whose empty-path case marks the root as removed — every source code info location of the file is dropped")
			}
			return true
		})
	}
	w.floor("calls passing a literal nil source path", nNil, 1)
	// the whole-message drop must consider unknown bytes
	nDrop := 0
	ast.Inspect(strip.Decl.Body, func(x ast.Node) bool {
		ifs, ok := x.(*ast.IfStmt)
		if !ok {
			return true
		}
		drops := false
		for _, st := range ifs.Body.List {
			if r, ok := st.(*ast.ReturnStmt); ok && len(r.Results) == 2 && render(r.Results[0]) == "zero" && isNilIdent(info, r.Results[1]) {
				drops = true
			}
		}
		if !drops {
			return true
		}
		nDrop++
		if strings.Contains(render(ifs.Cond), "GetUnknown()") {
			w.ok("drop-considers-unknown|stripSourceRetentionOptions", ifs.Pos(), "the options message is dropped entirely only when no unknown bytes remain either")
		} else {
			w.violation("drop-considers-unknown|stripSourceRetentionOptions", ifs.Pos(), "the options message is replaced by nil when no *known* field remains ("+render(ifs.Cond)+"): unrecognised options stored as unknown fields are dropped with it")
		}
		return true
	})
	w.floor("whole-message drop sites in stripSourceRetentionOptions", nDrop, 1)
}
