package main

import (
	"fmt"
	"go/ast"
	"go/token"
	"go/types"
	"sort"
	"strings"

	"golang.org/x/tools/go/cfg"
)

// RQ7: constructor nil-contract (C12: "parsing returns a non-nil AST without panicking").
//
// The error-tolerant grammar keeps building AST nodes after it has reported a syntax error; the
// values it then hands to the ast.New* constructors can be nil: a literal nil in the compiled
// action, or the result of a helper that returns nil on its error path (requireSemicolon returns
// a nil semicolon after reporting "expecting ';'"). A constructor that receives such a value must
// neither panic on it (`if p == nil { panic(..) }`) nor store it unconditionally among the node's
// children (a typed nil in the child list panics in the next walk). Sources of nil are computed
// from the code: literal nil arguments, and identifiers assigned from a call whose callee has a
// `return nil, …` at that result position.
//
// RQ8: NodeInfo accessors index FileInfo.items with the indexes stored in the NodeInfo; those are 0
// for an out-of-range token, and items is empty when parsing was aborted before the first token.
// Every such index expression must be dominated by an early return guarded by a predicate that is
// true when items is empty.
func rq7CtorNilContract(w *World) {
	w.rule("RQ7")
	pp, ap := w.pkg("parser"), w.pkg("ast")
	if pp == nil || ap == nil {
		return
	}
	pinfo, ainfo := pp.TypesInfo, ap.TypesInfo
	// function summaries: result positions that may be nil
	mayNil := map[*types.Func]map[int]bool{}
	for _, b := range allFuncBodies(pp) {
		if b.Lit != nil {
			continue
		}
		ast.Inspect(b.Body, func(x ast.Node) bool {
			if _, isLit := x.(*ast.FuncLit); isLit {
				return false
			}
			r, ok := x.(*ast.ReturnStmt)
			if !ok {
				return true
			}
			for i, e := range r.Results {
				if isNilIdent(pinfo, e) {
					// only pointer-typed results matter
					sig := b.Obj.Type().(*types.Signature)
					if i < sig.Results().Len() {
						if _, isPtr := sig.Results().At(i).Type().Underlying().(*types.Pointer); isPtr {
							if mayNil[b.Obj] == nil {
								mayNil[b.Obj] = map[int]bool{}
							}
							mayNil[b.Obj][i] = true
						}
					}
				}
			}
			return true
		})
	}
	// constructor declarations in package ast
	ctorDecl := map[*types.Func]bodyRef{}
	for _, b := range allFuncBodies(ap) {
		if b.Lit == nil && b.Decl.Recv == nil && strings.HasPrefix(b.Obj.Name(), "New") {
			ctorDecl[b.Obj] = b
		}
	}
	// call sites: for each constructor, the distinct vectors of arguments that are nil
	type site struct {
		ctor   *types.Func
		nils   string // comma-joined indexes of nil arguments
		idx    map[int]bool
		source string
	}
	sites := map[string]*site{}
	for _, f := range pp.Syntax {
		fn := w.Fset.Position(f.Pos()).Filename
		if !strings.HasSuffix(fn, "proto.y.go") && !strings.HasSuffix(fn, "/ast.go") {
			continue
		}
		ast.Inspect(f, func(x ast.Node) bool {
			var body []ast.Stmt
			switch s := x.(type) {
			case *ast.CaseClause:
				body = s.Body
			case *ast.FuncDecl:
				if s.Body != nil {
					body = s.Body.List
				}
			default:
				return true
			}
			nilIdents := map[types.Object]string{}
			visit := func(fn func(y ast.Node) bool) {
				for _, st := range body {
					ast.Inspect(st, func(y ast.Node) bool {
						if _, isCC := y.(*ast.CaseClause); isCC {
							return false // nested clauses are visited on their own
						}
						return fn(y)
					})
				}
			}
			visit(func(y ast.Node) bool {
				as, ok := y.(*ast.AssignStmt)
				if !ok || len(as.Rhs) != 1 {
					return true
				}
				c, ok := ast.Unparen(as.Rhs[0]).(*ast.CallExpr)
				if !ok {
					return true
				}
				cal := callee(pinfo, c)
				if cal == nil || mayNil[cal] == nil {
					return true
				}
				for i, l := range as.Lhs {
					if id, ok := l.(*ast.Ident); ok && mayNil[cal][i] {
						obj := pinfo.Defs[id]
						if obj == nil {
							obj = pinfo.Uses[id]
						}
						if obj != nil {
							nilIdents[obj] = cal.Name()
						}
					}
				}
				return true
			})
			visit(func(y ast.Node) bool {
				c, ok := y.(*ast.CallExpr)
				if !ok {
					return true
				}
				cal := callee(pinfo, c)
				if cal == nil {
					return true
				}
				if _, isCtor := ctorDecl[cal]; !isCtor {
					return true
				}
				st := &site{ctor: cal, idx: map[int]bool{}}
				var parts, why []string
				for i, a := range c.Args {
					if isNilIdent(pinfo, a) {
						st.idx[i] = true
						parts = append(parts, fmt.Sprint(i))
						why = append(why, fmt.Sprintf("argument %d is a literal nil", i))
					} else if id, ok := ast.Unparen(a).(*ast.Ident); ok {
						if from, isNil := nilIdents[pinfo.Uses[id]]; isNil {
							st.idx[i] = true
							parts = append(parts, fmt.Sprint(i))
							why = append(why, fmt.Sprintf("argument %d (%s) is the result of %s, nil on its error path", i, id.Name, from))
						}
					}
				}
				if len(parts) == 0 {
					return true
				}
				st.nils = strings.Join(parts, ",")
				st.source = strings.Join(why, "; ") + " at " + w.pos(c.Pos())
				k := cal.Name() + "|" + st.nils
				if _, seen := sites[k]; !seen {
					sites[k] = st
				}
				return true
			})
			_, isFD := x.(*ast.FuncDecl)
			return isFD // descend into functions to find the case clauses
		})
	}
	var keys []string
	for k := range sites {
		keys = append(keys, k)
	}
	sort.Strings(keys)
	w.floor("(constructor, nil-argument vector) pairs in the grammar actions", len(keys), 20)
	for _, k := range keys {
		st := sites[k]
		b := ctorDecl[st.ctor]
		// parameter objects
		var params []types.Object
		for _, fl := range b.Decl.Type.Params.List {
			for _, nm := range fl.Names {
				params = append(params, ainfo.Defs[nm])
			}
		}
		nilOf := map[types.Object]bool{}
		var names []string
		for i, po := range params {
			if st.idx[i] && po != nil {
				switch po.Type().Underlying().(type) {
				case *types.Pointer, *types.Interface:
					nilOf[po] = true
					names = append(names, po.Name())
				}
			}
		}
		if len(nilOf) == 0 {
			continue
		}
		key := "ctor-nil-contract|ast." + st.ctor.Name() + "|" + strings.Join(names, ",")
		parents := parentMap(b.Decl)
		// three-valued evaluation of nil tests under "the listed parameters are nil, nothing is
		// known about the others"
		var eval func(e ast.Expr) tri
		eval = func(e ast.Expr) tri {
			e = ast.Unparen(e)
			switch x := e.(type) {
			case *ast.BinaryExpr:
				switch x.Op {
				case token.LAND:
					l, r := eval(x.X), eval(x.Y)
					if l == triFalse || r == triFalse {
						return triFalse
					}
					if l == triTrue && r == triTrue {
						return triTrue
					}
					return triUnknown
				case token.LOR:
					l, r := eval(x.X), eval(x.Y)
					if l == triTrue || r == triTrue {
						return triTrue
					}
					if l == triFalse && r == triFalse {
						return triFalse
					}
					return triUnknown
				case token.EQL, token.NEQ:
					var id *ast.Ident
					if isNilIdent(ainfo, x.Y) {
						id, _ = ast.Unparen(x.X).(*ast.Ident)
					} else if isNilIdent(ainfo, x.X) {
						id, _ = ast.Unparen(x.Y).(*ast.Ident)
					}
					if id != nil && nilOf[ainfo.Uses[id]] {
						return triOf(x.Op == token.EQL)
					}
				}
			case *ast.UnaryExpr:
				if x.Op == token.NOT {
					switch eval(x.X) {
					case triTrue:
						return triFalse
					case triFalse:
						return triTrue
					}
				}
			}
			return triUnknown
		}
		// path condition of a node: conjunction over enclosing ifs (with polarity); early-exit
		// guards before it are ignored (they only remove paths)
		definitelyReached := func(n ast.Node) bool {
			child := n
			for cur := parents[n]; cur != nil; child, cur = cur, parents[cur] {
				switch x := cur.(type) {
				case *ast.IfStmt:
					if child == ast.Node(x.Body) && eval(x.Cond) != triTrue {
						return false
					}
					if x.Else != nil && child == ast.Node(x.Else) && eval(x.Cond) != triFalse {
						return false
					}
				case *ast.ForStmt, *ast.RangeStmt, *ast.SwitchStmt, *ast.TypeSwitchStmt, *ast.FuncLit:
					return false
				}
			}
			return true
		}
		isNilParam := func(e ast.Expr) bool {
			id, ok := ast.Unparen(e).(*ast.Ident)
			if !ok || !nilOf[ainfo.Uses[id]] {
				return false
			}
			_, isPtr := ainfo.Uses[id].Type().Underlying().(*types.Pointer)
			return isPtr
		}
		bad := ""
		ast.Inspect(b.Body, func(y ast.Node) bool {
			if bad != "" {
				return false
			}
			switch s := y.(type) {
			case *ast.CallExpr:
				if isBuiltinCall(ainfo, s, "panic") && definitelyReached(s) {
					bad = fmt.Sprintf("the constructor's panic at %s is reached for exactly this combination", w.pos(s.Pos()))
				}
				// a nil *T handed to a parameter of interface type becomes a typed nil: a `p == nil`
				// test inside the callee is false for it, so whatever the callee does for "absent"
				// is skipped (a helper that appends the terminator unless it is nil appends it)
				if cf := callee(ainfo, s); cf != nil && definitelyReached(s) {
					if sig, ok := cf.Type().(*types.Signature); ok {
						for i, a := range s.Args {
							if !isNilParam(a) {
								continue
							}
							pi := i
							if sig.Variadic() && pi >= sig.Params().Len()-1 {
								pi = sig.Params().Len() - 1
							}
							if pi >= sig.Params().Len() {
								continue
							}
							pt := sig.Params().At(pi).Type()
							if sl, ok := pt.(*types.Slice); ok && sig.Variadic() && pi == sig.Params().Len()-1 {
								pt = sl.Elem()
							}
							if _, isIface := pt.Underlying().(*types.Interface); isIface {
								bad = fmt.Sprintf("%s (a nil pointer) is passed to %s at %s, whose parameter is an interface: it arrives as a typed nil that no `== nil` test in the callee recognises, and ends up in the child list", render(a), cf.Name(), w.pos(s.Pos()))
							}
						}
					}
				}
				if isBuiltinCall(ainfo, s, "append") && len(s.Args) >= 2 {
					for _, a := range s.Args[1:] {
						if isNilParam(a) && definitelyReached(s) {
							bad = fmt.Sprintf("%s is appended to the child list at %s without a nil test: a typed nil child panics in the next walk", render(a), w.pos(s.Pos()))
						}
					}
				}
			case *ast.CompositeLit:
				if tv, ok := ainfo.Types[s]; ok {
					if sl, isSl := tv.Type.Underlying().(*types.Slice); isSl {
						if _, isIface := sl.Elem().Underlying().(*types.Interface); isIface {
							for _, el := range s.Elts {
								if isNilParam(el) && definitelyReached(s) {
									bad = fmt.Sprintf("%s is placed in the child list literal at %s without a nil test", render(el), w.pos(s.Pos()))
								}
							}
						}
					}
				}
			}
			return true
		})
		if bad == "" {
			w.ok(key, b.Decl.Pos(), "tolerates the nil argument(s) the grammar can pass ("+st.source+")")
		} else {
			w.violation(key, b.Decl.Pos(), "the grammar calls this constructor with nil for "+strings.Join(names, ", ")+" ("+st.source+"), and "+bad+": Parse panics on that malformed input instead of returning the AST and the reported error")
		}
	}
}

func rq8NodeInfoGuards(w *World) {
	w.rule("RQ8")
	ap := w.pkg("ast")
	ni := w.typ("ast", "NodeInfo")
	fi := w.typ("ast", "FileInfo")
	if ap == nil || ni == nil || fi == nil {
		return
	}
	info := ap.TypesInfo
	itemsField := w.field("ast", "FileInfo", "items")
	if itemsField == nil {
		return
	}
	// predicates of FileInfo whose truth is implied by len(items)==0
	emptyPred := map[*types.Func]bool{}
	for _, b := range allFuncBodies(ap) {
		if b.Lit != nil || b.Decl.Recv == nil || len(b.Body.List) == 0 {
			continue
		}
		r, ok := b.Body.List[len(b.Body.List)-1].(*ast.ReturnStmt)
		if !ok || len(r.Results) != 1 {
			continue
		}
		// top-level disjuncts
		var disj []ast.Expr
		var split func(e ast.Expr)
		split = func(e ast.Expr) {
			e = ast.Unparen(e)
			if be, ok := e.(*ast.BinaryExpr); ok && be.Op == token.LOR {
				split(be.X)
				split(be.Y)
				return
			}
			disj = append(disj, e)
		}
		split(r.Results[0])
		for _, d := range disj {
			be, ok := d.(*ast.BinaryExpr)
			if !ok || be.Op != token.EQL {
				continue
			}
			c, ok := ast.Unparen(be.X).(*ast.CallExpr)
			if !ok || !isBuiltinCall(info, c, "len") || len(c.Args) != 1 {
				continue
			}
			if selField(info, c.Args[0]) == itemsField {
				if tv, ok := info.Types[be.Y]; ok && tv.Value != nil && tv.Value.String() == "0" {
					emptyPred[b.Obj] = true
				}
			}
		}
	}
	n := 0
	for _, b := range allFuncBodies(ap) {
		if b.Lit != nil || b.Decl.Recv == nil {
			continue
		}
		rt := info.TypeOf(b.Decl.Recv.List[0].Type)
		if rt == nil || !types.Identical(rt, ni) {
			continue
		}
		parents := parentMap(b.Decl)
		ast.Inspect(b.Body, func(x ast.Node) bool {
			ix, ok := x.(*ast.IndexExpr)
			if !ok || selField(info, ix.X) != itemsField {
				return true
			}
			n++
			key := "items-index-guarded|" + b.Label + "|" + types.ExprString(ix)
			// find the enclosing top-level statement and look for an earlier guard
			var top ast.Node = ix
			for parents[top] != nil && parents[top] != ast.Node(b.Body) {
				top = parents[top]
			}
			guarded := false
			for _, st := range b.Body.List {
				if st == top {
					break
				}
				ifs, ok := st.(*ast.IfStmt)
				if !ok || ifs.Else != nil || len(ifs.Body.List) == 0 {
					continue
				}
				if _, isRet := ifs.Body.List[len(ifs.Body.List)-1].(*ast.ReturnStmt); !isRet {
					continue
				}
				ast.Inspect(ifs.Cond, func(y ast.Node) bool {
					if c, ok := y.(*ast.CallExpr); ok {
						if f := callee(info, c); f != nil && emptyPred[f] {
							guarded = true
						}
						if isBuiltinCall(info, c, "len") && len(c.Args) == 1 && selField(info, c.Args[0]) == itemsField {
							guarded = true
						}
					}
					return true
				})
			}
			if guarded {
				w.ok(key, ix.Pos(), "dominated by an early return that fires when the file has no items")
			} else {
				w.violation(key, ix.Pos(), "NodeInfo."+b.Decl.Name.Name+" indexes FileInfo.items without a guard that fires when items is empty: for the AST of a parse aborted before its first token (lexer error at offset 0) NodeInfo(file)."+b.Decl.Name.Name+"() panics with index out of range — e.g. inside a reporter that reads the position of a warning")
			}
			return true
		})
	}
	w.floor("FileInfo.items index expressions in NodeInfo methods", n, 5)
}

// RQ10 (C12: "converting the AST to a descriptor proto never panics"): constant-index expressions
// in the AST→descriptor conversion and basic validation (parser/result.go, parser/validate.go).
// These functions run with keep-going reporters: after an error has been *reported* execution
// continues, so "the empty case was already reported above" is not a guard. Every x[K] with a
// constant K on a slice or string must be dominated by a length test of the same expression that
// implies len(x) > K (must-dataflow with branch facts from len(x) > c, >= c, != 0, == 0), or be in
// the reviewed table below.
func rq10ConstIndexGuards(w *World) {
	constIndexGuards(w, "RQ10", []string{"parser"}, func(fn string) bool {
		return strings.HasSuffix(fn, "parser/result.go") || strings.HasSuffix(fn, "parser/validate.go") || strings.HasSuffix(fn, "parser/lexer.go") || strings.HasSuffix(fn, "parser/parser.go") || strings.HasSuffix(fn, "parser/ast.go")
	}, map[string]string{
		"parser.(*result).asGroupDescriptors|group.Name.Val[0]": "an identifier token is never empty (the lexer only produces _NAME for at least one identifier character)",
		"parser.(*protoLex).Lex|token[0]":                       "the number branch is entered on a digit that readNumber leaves in the marked text, so the token has at least one character",
	}, 5, "these functions keep running after an error was reported (keep-going reporter), so an earlier 'is empty' report does not protect the index — ResultFromAST panics with index out of range")
}

// constIndexGuards: every x[K] with constant K on a slice or string in the selected files must be
// dominated by a length test of the same expression implying len(x) > K, or be in the reviewed
// table (key: function|expression).
func constIndexGuards(w *World, rule string, rels []string, fileOK func(string) bool, reviewed map[string]string, floor int, consequence string) {
	w.rule(rule)
	n := 0
	for _, rel := range rels {
		p := w.pkg(rel)
		if p == nil {
			continue
		}
		info := p.TypesInfo
		for _, b := range allFuncBodies(p) {
			if b.Lit != nil {
				continue
			}
			if !fileOK(w.Fset.Position(b.Decl.Pos()).Filename) {
				continue
			}
			type site struct {
				ix *ast.IndexExpr
				k  int64
			}
			var sites []site
			ast.Inspect(b.Body, func(x ast.Node) bool {
				ix, ok := x.(*ast.IndexExpr)
				if !ok {
					return true
				}
				tv, ok := info.Types[ix.Index]
				if !ok || tv.Value == nil {
					return true
				}
				t := info.TypeOf(ix.X)
				if t == nil {
					return true
				}
				switch u := t.Underlying().(type) {
				case *types.Slice:
				case *types.Basic:
					if u.Info()&types.IsString == 0 {
						return true
					}
				default:
					return true
				}
				if tvx, ok := info.Types[ix.X]; ok && tvx.Value != nil {
					return true // constant string
				}
				var k int64
				fmt.Sscan(tv.Value.ExactString(), &k)
				sites = append(sites, site{ix, k})
				return true
			})
			if len(sites) == 0 {
				continue
			}
			g := buildCFG(info, b.Body)
			parents := parentMap(b.Decl)
			d := &Dataflow{G: g, Must: true, Init: Facts{}}
			d.Transfer = func(nd ast.Node, in Facts) Facts {
				out := in
				if as, ok := nd.(*ast.AssignStmt); ok {
					for _, l := range as.Lhs {
						ls := types.ExprString(l)
						for k := range out {
							if strings.HasPrefix(k, "lengt:") {
								e := strings.SplitN(strings.TrimPrefix(k, "lengt:"), "§", 2)[0]
								if e == ls || strings.HasPrefix(e, ls+".") || strings.HasPrefix(e, ls+"[") {
									out = out.without(k)
								}
							}
						}
					}
					// constructions that establish a minimum length:
					//   x = append(x, e1, …, en)           len(x) > n-1
					//   x := make([]T, C + <non-negative>)  len(x) > C-1
					if len(as.Lhs) == 1 && len(as.Rhs) == 1 {
						ls := types.ExprString(as.Lhs[0])
						if c, ok := ast.Unparen(as.Rhs[0]).(*ast.CallExpr); ok {
							if isBuiltinCall(info, c, "append") && len(c.Args) >= 2 && !c.Ellipsis.IsValid() {
								for m := 0; m < len(c.Args)-1; m++ {
									out = out.with(fmt.Sprintf("lengt:%s§%d", ls, m))
								}
							}
							if isBuiltinCall(info, c, "make") && len(c.Args) >= 2 {
								var minLen int64 = -1
								var walk func(e ast.Expr) (int64, bool)
								walk = func(e ast.Expr) (int64, bool) {
									e = ast.Unparen(e)
									if tv, ok := info.Types[e]; ok && tv.Value != nil {
										var v int64
										fmt.Sscan(tv.Value.ExactString(), &v)
										return v, true
									}
									if lc, ok := e.(*ast.CallExpr); ok && isBuiltinCall(info, lc, "len") {
										return 0, true
									}
									if be, ok := e.(*ast.BinaryExpr); ok && be.Op == token.ADD {
										a, ok1 := walk(be.X)
										b, ok2 := walk(be.Y)
										return a + b, ok1 && ok2
									}
									return 0, false
								}
								if v, ok := walk(c.Args[1]); ok {
									minLen = v
								}
								for m := int64(0); m < minLen; m++ {
									out = out.with(fmt.Sprintf("lengt:%s§%d", ls, m))
								}
							}
						}
					}
				}
				return out
			}
			d.Branch = func(leaf ast.Expr, truth bool, s Facts) Facts {
				be, ok := ast.Unparen(leaf).(*ast.BinaryExpr)
				if !ok {
					return s
				}
				// string emptiness tests: x != "" / x == ""
				if tv, isC := info.Types[be.Y]; isC && tv.Value != nil && tv.Value.ExactString() == `""` {
					if (be.Op == token.NEQ) == truth && (be.Op == token.NEQ || be.Op == token.EQL) {
						return s.with(fmt.Sprintf("lengt:%s§0", types.ExprString(be.X)))
					}
					return s
				}
				c, ok := ast.Unparen(be.X).(*ast.CallExpr)
				if !ok || !isBuiltinCall(info, c, "len") || len(c.Args) != 1 {
					return s
				}
				tv, ok := info.Types[be.Y]
				if !ok || tv.Value == nil {
					return s
				}
				var cst int64
				fmt.Sscan(tv.Value.ExactString(), &cst)
				op := be.Op
				if !truth {
					switch op {
					case token.GTR:
						op = token.LEQ
					case token.GEQ:
						op = token.LSS
					case token.LSS:
						op = token.GEQ
					case token.LEQ:
						op = token.GTR
					case token.EQL:
						op = token.NEQ
					case token.NEQ:
						op = token.EQL
					}
				}
				// greatest m with len > m established
				var m int64 = -1
				switch op {
				case token.GTR:
					m = cst
				case token.GEQ:
					m = cst - 1
				case token.NEQ:
					if cst == 0 {
						m = 0
					}
				case token.EQL:
					m = cst - 1
				}
				out := s
				for j := int64(0); j <= m && j < 8; j++ {
					out = out.with(fmt.Sprintf("lengt:%s§%d", types.ExprString(c.Args[0]), j))
				}
				return out
			}
			d.Run()
			seen := map[*ast.IndexExpr]bool{}
			d.Walk(func(_ *cfg.Block, nd ast.Node, before Facts) {
				ast.Inspect(nd, func(y ast.Node) bool {
					if _, isLit := y.(*ast.FuncLit); isLit {
						return false
					}
					ix, ok := y.(*ast.IndexExpr)
					if !ok || seen[ix] {
						return true
					}
					for _, st := range sites {
						if st.ix != ix {
							continue
						}
						seen[ix] = true
						n++
						key := "const-index|" + b.Label + "|" + types.ExprString(ix)
						st8 := d.withinExprState(nd, ix, before)
						guarded := st8[fmt.Sprintf("lengt:%s§%d", types.ExprString(ix.X), st.k)]
						if !guarded {
							// `switch len(x) { case K: … x[k] … }` with every K > k
							for cur := parents[ast.Node(ix)]; cur != nil && !guarded; cur = parents[cur] {
								cc, ok := cur.(*ast.CaseClause)
								if !ok || len(cc.List) == 0 {
									continue
								}
								sw, ok := parents[parents[cur]].(*ast.SwitchStmt)
								if !ok || sw.Tag == nil {
									continue
								}
								lc, ok := ast.Unparen(sw.Tag).(*ast.CallExpr)
								if !ok || !isBuiltinCall(info, lc, "len") || len(lc.Args) != 1 || types.ExprString(lc.Args[0]) != types.ExprString(ix.X) {
									continue
								}
								all := true
								for _, e := range cc.List {
									tv, ok := info.Types[e]
									var kv int64
									if !ok || tv.Value == nil {
										all = false
										continue
									}
									fmt.Sscan(tv.Value.ExactString(), &kv)
									if kv <= st.k {
										all = false
									}
								}
								guarded = all
							}
						}
						if !guarded {
							// aliases: x is a local only ever assigned other slice variables (x := a; x, y = y, x);
							// guarded if every root it can stand for has the fact
							if id, ok := ast.Unparen(ix.X).(*ast.Ident); ok {
								roots := aliasRoots(info, b.Body, info.Uses[id])
								if len(roots) > 0 {
									all := true
									for _, r := range roots {
										if !st8[fmt.Sprintf("lengt:%s§%d", r, st.k)] {
											all = false
										}
									}
									guarded = all
								}
							}
						}
						if guarded {
							w.ok(key, ix.Pos(), fmt.Sprintf("dominated by a length test establishing len(%s) > %d", types.ExprString(ix.X), st.k))
						} else if why, ok := reviewed[b.Label+"|"+types.ExprString(ix)]; ok {
							w.ok(key, ix.Pos(), "reviewed: "+why)
						} else {
							w.violation(key, ix.Pos(), fmt.Sprintf("%s is indexed at %d without a dominating test that len(%s) > %d: %s", types.ExprString(ix.X), st.k, types.ExprString(ix.X), st.k, consequence))
						}
					}
					return true
				})
			})
			for _, st := range sites {
				if !seen[st.ix] {
					n++
					// inside a function literal or unreachable block: decide syntactically as undecided
					w.undecided("const-index|"+b.Label+"|"+types.ExprString(st.ix), st.ix.Pos(), "constant index inside a function literal or unreachable code: not analysed")
				}
			}
		}
	}
	w.floor("constant-index expressions in "+strings.Join(rels, ", "), n, floor)
}

// aliasRoots: the variables a local slice variable can stand for when all its assignments copy
// other identifiers (v := a; v, w = w, v). Returns nil if any assignment is not a plain identifier.
func aliasRoots(info *types.Info, body *ast.BlockStmt, obj types.Object) []string {
	if obj == nil {
		return nil
	}
	src := map[types.Object][]types.Object{}
	plain := map[types.Object]bool{}
	ast.Inspect(body, func(x ast.Node) bool {
		as, ok := x.(*ast.AssignStmt)
		if !ok || len(as.Lhs) != len(as.Rhs) {
			return true
		}
		for i, l := range as.Lhs {
			id, ok := l.(*ast.Ident)
			if !ok {
				continue
			}
			o := info.Defs[id]
			if o == nil {
				o = info.Uses[id]
			}
			if o == nil {
				continue
			}
			if rid, ok := ast.Unparen(as.Rhs[i]).(*ast.Ident); ok && info.Uses[rid] != nil {
				src[o] = append(src[o], info.Uses[rid])
				if _, seen := plain[o]; !seen {
					plain[o] = true
				}
			} else {
				plain[o] = false
			}
		}
		return true
	})
	if !plain[obj] {
		return nil
	}
	seen := map[types.Object]bool{}
	var roots []string
	var walk func(o types.Object)
	walk = func(o types.Object) {
		if seen[o] {
			return
		}
		seen[o] = true
		if plain[o] {
			for _, s := range src[o] {
				walk(s)
			}
			return
		}
		roots = append(roots, o.Name())
	}
	walk(obj)
	return roots
}

// RQ11 (C12, C13): the lexer consumes input only through the rune reader's own methods. The
// newline accounting of rule RQ follows readRune/unreadRune; an assignment to the reader's
// position from anywhere else (skipping ahead with bytes.Index, say) consumes bytes — and the
// newlines among them — behind its back, so later positions are computed against a line table
// that misses lines. Who-may-write: runeReader.pos (and mark) are assigned only in methods of
// runeReader.
func rq11ReaderPositionOwner(w *World) {
	w.rule("RQ11")
	p := w.pkg("parser")
	rr := w.typ("parser", "runeReader")
	if p == nil || rr == nil {
		return
	}
	info := p.TypesInfo
	st, ok := rr.Underlying().(*types.Struct)
	if !ok {
		return
	}
	fields := map[*types.Var]bool{}
	for i := 0; i < st.NumFields(); i++ {
		if bt, ok := st.Field(i).Type().Underlying().(*types.Basic); ok && bt.Info()&types.IsInteger != 0 {
			fields[st.Field(i)] = true // pos, mark
		}
	}
	n, bad := 0, 0
	for _, b := range allFuncBodies(p) {
		if b.Lit != nil {
			continue
		}
		owner := false
		if b.Decl.Recv != nil && len(b.Decl.Recv.List) == 1 {
			t := info.TypeOf(b.Decl.Recv.List[0].Type)
			if pt, ok := t.(*types.Pointer); ok {
				t = pt.Elem()
			}
			owner = t != nil && types.Identical(t, rr)
		}
		ast.Inspect(b.Body, func(x ast.Node) bool {
			var lhs []ast.Expr
			switch s := x.(type) {
			case *ast.AssignStmt:
				lhs = s.Lhs
			case *ast.IncDecStmt:
				lhs = []ast.Expr{s.X}
			}
			for _, l := range lhs {
				if v := selField(info, l); v != nil && fields[v] {
					n++
					if !owner {
						bad++
						w.violation("reader-position-owner|"+b.Label+"|"+types.ExprString(l), l.Pos(), "runeReader."+v.Name()+" is assigned outside the rune reader's own methods: input is consumed without passing through readRune, so the newlines in the skipped bytes never reach the line table (and rule RQ's per-read accounting does not see them)")
					}
				}
			}
			return true
		})
	}
	w.floor("assignments to the rune reader's position fields", n, 3)
	if bad == 0 {
		w.ok("reader-position-owner", rr.Obj().Pos(), fmt.Sprintf("all %d assignments to the reader's position fields are in runeReader's own methods", n))
	}
}
