package main

import (
	"fmt"
	"go/ast"
	"go/token"
	"go/types"
	"os"
	"sort"
	"strings"

	"golang.org/x/tools/go/cfg"
)

// ---- RD-inc: leader typestate in (*task).run ---------------------------------------------
//
// After winning t.result.CompareAndSwap(nil, output) the leader has published a pending result.
// On every way out (return output, return nil, panic) the deferred handler must close
// output.done; an exit that only un-publishes (CAS(output, nil)) wakes followers of the same Run
// through their cancelled context but leaves followers of other Runs asleep; an exit that does
// neither leaves the entry pending forever.

func rdIncremental(w *World) {
	w.rule("RDinc")
	p := w.pkg(incRel)
	run := w.fn(incRel, "(*task).run")
	resultFld := w.field(incRel, "task", "result")
	done := w.field(incRel, "result", "done")
	closedFn := w.fn(incRel, "closed")
	if p == nil || run == nil || resultFld == nil || done == nil || closedFn == nil {
		return
	}
	info := p.TypesInfo
	body := run.Decl.Body
	// the named result
	if run.Decl.Type.Results == nil || len(run.Decl.Type.Results.List) != 1 || len(run.Decl.Type.Results.List[0].Names) != 1 {
		w.undecided("shape|named-result", run.Decl.Pos(), "task.run no longer has a single named result; the typestate tracks the published object through it")
		return
	}
	outName := run.Decl.Type.Results.List[0].Names[0].Name

	isElect := func(c *ast.CallExpr) bool {
		m, ok := methodOnField(info, c, resultFld)
		return ok && m == "CompareAndSwap" && len(c.Args) == 2 && isNilIdent(info, c.Args[0]) && render(c.Args[1]) == outName
	}
	isUnpub := func(c *ast.CallExpr) bool {
		m, ok := methodOnField(info, c, resultFld)
		return ok && m == "CompareAndSwap" && len(c.Args) == 2 && isNilIdent(info, c.Args[1]) && render(c.Args[0]) == outName
	}
	isCloseDone := func(c *ast.CallExpr) bool {
		return isBuiltinCall(info, c, "close") && len(c.Args) == 1 && selField(info, c.Args[0]) == done && render(ast.Unparen(c.Args[0]).(*ast.SelectorExpr).X) == outName
	}
	// locate the leader handler: a deferred func literal containing close(output.done)
	var handler *ast.FuncLit
	var handlerStmt *ast.DeferStmt
	for _, st := range body.List {
		ds, ok := st.(*ast.DeferStmt)
		if !ok {
			continue
		}
		fl, ok := ds.Call.Fun.(*ast.FuncLit)
		if !ok {
			continue
		}
		has := false
		ast.Inspect(fl.Body, func(x ast.Node) bool {
			if c, ok := x.(*ast.CallExpr); ok && isCloseDone(c) {
				has = true
			}
			return true
		})
		if has {
			handler, handlerStmt = fl, ds
		}
	}
	if handler == nil {
		w.violation("handler|missing", body.Pos(), "task.run has no deferred function that closes output.done: followers are never woken")
		return
	}

	// main body: must-facts published / handler / unpub
	g := buildCFG(info, body)
	d := &Dataflow{G: g, Must: true, Init: Facts{}}
	d.Transfer = func(n ast.Node, in Facts) Facts {
		if n == ast.Node(handlerStmt) {
			return in.with("handler")
		}
		if _, ok := n.(*ast.DeferStmt); ok {
			return in
		}
		out := in
		inspectPost(n, func(x ast.Node) {
			if c, ok := x.(*ast.CallExpr); ok && isUnpub(c) && out["published"] {
				out = out.with("unpub")
			}
		})
		return out
	}
	d.Branch = func(leaf ast.Expr, truth bool, s Facts) Facts {
		if c, ok := leaf.(*ast.CallExpr); ok && isElect(c) && truth {
			return s.with("published")
		}
		return s
	}
	d.Run()

	type exitKind struct {
		name string
		init Facts
		pos  token.Pos
	}
	var kinds []exitKind
	nCallsUnprotected := 0
	d.Walk(func(_ *cfg.Block, n ast.Node, before Facts) {
		if !before["published"] {
			return
		}
		if r, ok := n.(*ast.ReturnStmt); ok {
			if !before["handler"] {
				w.violation("handler|not-installed-at-return", r.Pos(), "a return after publication is reachable before the leader handler is deferred")
				return
			}
			k := exitKind{pos: r.Pos(), init: Facts{"published": true}}
			switch {
			case len(r.Results) == 1 && isNilIdent(info, r.Results[0]):
				k.name = "return-nil"
				k.init["varnil"] = true
			case len(r.Results) == 0 || (len(r.Results) == 1 && render(r.Results[0]) == outName):
				k.name = "return-output"
				k.init["varnonnil"] = true
			default:
				w.undecided("exit|unknown-return", r.Pos(), "return of "+render(r.Results[0])+" after publication: cannot tell whether the named result still denotes the published object")
				return
			}
			if before["unpub"] {
				k.init["unpub"] = true
			}
			kinds = append(kinds, k)
			return
		}
		if n == ast.Node(handlerStmt) {
			return
		}
		if !before["handler"] {
			inspectPost(n, func(x ast.Node) {
				if c, ok := x.(*ast.CallExpr); ok {
					if isElect(c) {
						return
					}
					nCallsUnprotected++
					w.violation("handler|call-before-install:"+render(c.Fun), c.Pos(), "a call executes between publication of the pending result and installation of the leader handler: a panic here leaves the entry pending forever")
				}
			})
		}
	})
	if nCallsUnprotected == 0 {
		w.ok("handler|installed-right-after-publication", handlerStmt.Pos(), "no call can execute between winning the election and deferring the leader handler")
	}
	// a panic can happen at any call after the handler is installed
	kinds = append(kinds, exitKind{name: "panic", init: Facts{"published": true, "varnonnil": true, "panicking": true}, pos: handlerStmt.Pos()})

	// interpret the handler for each exit kind
	type outcome struct{ closed, unpub bool } // unpub: closed or un-published on every path into this exit
	results := map[string][]outcome{}
	posOf := map[string]token.Pos{}
	for _, k := range kinds {
		hg := buildCFG(info, handler.Body)
		hd := &Dataflow{G: hg, Must: true, Init: k.init}
		hd.Transfer = func(n ast.Node, in Facts) Facts {
			out := in
			if as, ok := n.(*ast.AssignStmt); ok {
				for i, l := range as.Lhs {
					if render(l) == outName && i < len(as.Rhs) {
						if isNilIdent(info, as.Rhs[i]) {
							out = out.without("varnonnil").with("varnil")
						} else {
							out = out.without("varnonnil").without("varnil")
						}
					}
					if i < len(as.Rhs) {
						if c, ok := ast.Unparen(as.Rhs[i]).(*ast.CallExpr); ok && isBuiltinCall(info, c, "recover") {
							out = out.with("rec:" + render(l))
						}
					}
				}
			}
			inspectPost(n, func(x ast.Node) {
				c, ok := x.(*ast.CallExpr)
				if !ok {
					return
				}
				if isUnpub(c) && out["varnonnil"] {
					out = out.with("unpub").with("safe")
				}
				if isCloseDone(c) && out["varnonnil"] {
					out = out.with("closed").with("safe")
				}
			})
			return out
		}
		hd.Branch = func(leaf ast.Expr, truth bool, s Facts) Facts {
			if be, ok := leaf.(*ast.BinaryExpr); ok && (be.Op == token.NEQ || be.Op == token.EQL) && isNilIdent(info, be.Y) {
				isNonNil := (be.Op == token.NEQ) == truth
				x := render(be.X)
				if s["rec:"+x] {
					if isNonNil != s["panicking"] {
						return Facts{bottom: true}
					}
					return s
				}
				if x == outName {
					if isNonNil {
						if s["varnil"] {
							return Facts{bottom: true}
						}
						return s.with("varnonnil")
					}
					if s["varnonnil"] {
						return Facts{bottom: true}
					}
					return s.with("varnil")
				}
			}
			if c, ok := leaf.(*ast.CallExpr); ok {
				if f := callee(info, c); f != nil && f.Origin() == closedFn.Obj && len(c.Args) == 1 && selField(info, c.Args[0]) == done && truth {
					return s.with("closed").with("safe")
				}
			}
			return s
		}
		if k.init["unpub"] {
			hd.Init = k.init.with("safe")
		}
		hexits, complete := hd.Paths(info, handler.Body.End(), 256)
		if !complete {
			w.undecided("handler|too-many-paths", handler.Pos(), "the leader handler has more than 256 paths; the path-sensitive interpretation is incomplete")
		}
		for _, e := range hexits {
			results[k.name] = append(results[k.name], outcome{e.State["closed"], e.State["safe"]})
		}
		if _, ok := posOf[k.name]; !ok {
			posOf[k.name] = k.pos
		}
	}
	var names []string
	for n := range results {
		names = append(names, n)
	}
	sort.Strings(names)
	for _, name := range names {
		nClosed, nUnpub, nNeither := 0, 0, 0
		for _, o := range results[name] {
			switch {
			case o.closed:
				nClosed++
			case o.unpub:
				nUnpub++
			default:
				nNeither++
			}
		}
		if nNeither > 0 {
			w.violation("task.run|"+name+"|pending-forever", posOf[name], fmt.Sprintf("on the %s exit the leader handler can finish having neither closed output.done nor un-published the result (%d of %d handler paths): the cache entry stays pending and every later Run that needs this key blocks until its own context ends", name, nNeither, len(results[name])))
		} else {
			w.ok("task.run|"+name+"|pending-forever", posOf[name], fmt.Sprintf("on the %s exit every handler path closes done or un-publishes (%d paths)", name, len(results[name])))
		}
		if nUnpub > 0 {
			w.violation("task.run|"+name+"|unpublish-without-close", posOf[name], fmt.Sprintf("on the %s exit %d handler path(s) un-publish the result without closing output.done: a follower that belongs to a different concurrent Run (whose context is not cancelled) is never woken", name, nUnpub))
		} else {
			w.ok("task.run|"+name+"|unpublish-without-close", posOf[name], "every handler path for this exit closes output.done")
		}
	}
	w.floor("leader exit kinds of task.run", len(names), 3)
}

// ---- RE-inc: semaphore hold accounting ------------------------------------------------------

type holdSpec struct {
	fn     string            // function anchor
	assume map[string]bool   // boolean parameters fixed for this case
	entry  map[string]string // variable -> "held" | "free"
	exit   map[string]string // required at normal exits
	failOK bool              // exits reached through a failed acquire / cancelled join may be unbalanced
	label  string
}

func reIncremental(w *World) {
	w.rule("REinc")
	p := w.pkg(incRel)
	acquire := w.fn(incRel, "(*Task).acquire")
	release := w.fn(incRel, "(*Task).release")
	transfer := w.fn(incRel, "(*Task).transferFrom")
	holding := w.field(incRel, "Task", "holding")
	if p == nil || acquire == nil || release == nil || transfer == nil || holding == nil {
		return
	}
	info := p.TypesInfo
	// who-may-write Task.holding
	okWriters := map[*types.Func]bool{acquire.Obj: true, release.Obj: true, transfer.Obj: true}
	nw := 0
	for _, b := range allFuncBodies(p) {
		if b.Lit != nil {
			continue
		}
		ast.Inspect(b.Body, func(x ast.Node) bool {
			if as, ok := x.(*ast.AssignStmt); ok {
				for _, l := range as.Lhs {
					if selField(info, l) == holding {
						nw++
						if okWriters[b.Obj] {
							w.okTrivial("holding-writer|"+b.Label, l.Pos(), "Task.holding is written by the semaphore primitives only")
						} else {
							w.violation("holding-writer|"+b.Label, l.Pos(), "Task.holding written outside acquire/release/transferFrom")
						}
					}
				}
			}
			return true
		})
	}
	w.floor("writes of Task.holding", nw, 3)
	// sema.Acquire / Release only inside acquire/release
	sema := w.field(incRel, "Executor", "sema")
	for _, b := range allFuncBodies(p) {
		if b.Lit != nil {
			continue
		}
		ast.Inspect(b.Body, func(x ast.Node) bool {
			if c, ok := x.(*ast.CallExpr); ok {
				f := callee(info, c)
				if (isFunc(f, "golang.org/x/sync/semaphore", "Weighted", "Acquire") || isFunc(f, "golang.org/x/sync/semaphore", "Weighted", "Release")) && selField(info, recvExpr(c)) == sema {
					if (f.Name() == "Acquire" && b.Obj == acquire.Obj) || (f.Name() == "Release" && b.Obj == release.Obj) {
						w.okTrivial("sema-site|"+b.Label, c.Pos(), "global semaphore touched only by Task.acquire/release")
					} else {
						w.violation("sema-site|"+b.Label, c.Pos(), "Executor.sema."+f.Name()+" called outside Task."+strings.ToLower(f.Name())+": the holding flag no longer mirrors the permit")
					}
				}
			}
			return true
		})
	}

	specs := []holdSpec{
		{fn: "Run", entry: map[string]string{"root": "free"}, exit: map[string]string{"root": "free"}, failOK: true, label: "Run"},
		{fn: "(*task).run", assume: map[string]bool{"async": true}, entry: map[string]string{"callee": "free"}, exit: map[string]string{"callee": "free"}, failOK: true, label: "task.run[async]"},
		{fn: "(*task).run", assume: map[string]bool{"async": false}, entry: map[string]string{"caller": "held", "callee": "free"}, exit: map[string]string{"caller": "held", "callee": "free"}, failOK: true, label: "task.run[sync]"},
		{fn: "(*task).waitUntilDone", assume: map[string]bool{"async": true}, entry: map[string]string{"caller": "free"}, exit: map[string]string{"caller": "free"}, label: "waitUntilDone[async]"},
		{fn: "(*task).waitUntilDone", assume: map[string]bool{"async": false}, entry: map[string]string{"caller": "held"}, exit: map[string]string{"caller": "held"}, failOK: true, label: "waitUntilDone[sync]"},
		{fn: "Resolve", entry: map[string]string{"caller": "held"}, exit: map[string]string{"caller": "held"}, failOK: true, label: "Resolve"},
	}
	for _, sp := range specs {
		fr := w.fn(incRel, sp.fn)
		if fr == nil {
			continue
		}
		reHoldFunc(w, info, fr, sp, acquire.Obj, release.Obj, transfer.Obj)
	}
}

func reHoldFunc(w *World, info *types.Info, fr *FuncRef, sp holdSpec, acquire, release, transfer *types.Func) {
	body := fr.Decl.Body
	g := buildCFG(info, body)
	init := Facts{}
	for v, st := range sp.entry {
		init[st+":"+v] = true
	}
	set := func(s Facts, v, st string) Facts {
		return s.without("held:" + v).without("free:" + v).with(st + ":" + v)
	}
	type deferred struct {
		idx  int
		call *ast.CallExpr
	}
	var defers []deferred
	apply := func(s Facts, c *ast.CallExpr, key string, pos token.Pos, report bool) Facts {
		f := callee(info, c)
		if f == nil {
			return s
		}
		recv := ""
		if r := recvExpr(c); r != nil {
			recv = render(r)
		}
		switch f {
		case release:
			if report && s["free:"+recv] {
				w.violation(sp.label+"|release-while-free:"+recv, pos, recv+".release() on a path where "+recv+" does not hold the permit: release aborts the Run (errBadRelease) unless the context is already cancelled")
			}
			return set(s, recv, "free")
		case transfer:
			if len(c.Args) == 1 {
				from := render(c.Args[0])
				if report && (s["held:"+recv] || s["free:"+from]) {
					w.violation(sp.label+"|bad-transfer:"+recv+"<-"+from, pos, "transferFrom with "+recv+" already holding or "+from+" not holding: aborts the Run")
				}
				s = set(s, recv, "held")
				return set(s, from, "free")
			}
		}
		return s
	}
	d := &Dataflow{G: g, Must: true, Init: init}
	d.Transfer = func(n ast.Node, in Facts) Facts {
		if ds, ok := n.(*ast.DeferStmt); ok {
			f := callee(info, ds.Call)
			if f == release || f == transfer {
				idx := -1
				for i, df := range defers {
					if df.call == ds.Call {
						idx = i
					}
				}
				if idx < 0 {
					idx = len(defers)
					defers = append(defers, deferred{idx, ds.Call})
				}
				return in.with(fmt.Sprintf("deferred:%d", idx))
			}
			return in
		}
		out := in
		inspectPost(n, func(x ast.Node) {
			if c, ok := x.(*ast.CallExpr); ok {
				out = apply(out, c, "", c.Pos(), false)
			}
		})
		return out
	}
	d.Branch = func(leaf ast.Expr, truth bool, s Facts) Facts {
		if id, ok := leaf.(*ast.Ident); ok {
			if v, fixed := sp.assume[id.Name]; fixed {
				if v != truth {
					return Facts{bottom: true}
				}
				return s
			}
		}
		if c, ok := leaf.(*ast.CallExpr); ok {
			f := callee(info, c)
			if f == acquire {
				recv := render(recvExpr(c))
				if truth {
					return set(s, recv, "held")
				}
				return set(s, recv, "free").with("acqfail")
			}
			// join.Acquire(ctx, n) != nil handled below through BinaryExpr
		}
		if be, ok := leaf.(*ast.BinaryExpr); ok && isNilIdent(info, be.Y) {
			if c, ok := ast.Unparen(be.X).(*ast.CallExpr); ok && isFunc(callee(info, c), "golang.org/x/sync/semaphore", "Weighted", "Acquire") {
				if (be.Op == token.NEQ) == truth {
					return s.with("acqfail")
				}
			}
		}
		return s
	}
	d.Run()
	if os.Getenv("VERIF_DEBUG") != "" {
		for _, b := range g.Blocks {
			fmt.Printf("DBG %s block %d kind=%v in=%v succs=%d nodes=%d\n", sp.label, b.Index, b.Kind, d.in[b], len(b.Succs), len(b.Nodes))
		}
	}
	// report misuse at call sites
	nOps := 0
	d.Walk(func(_ *cfg.Block, n ast.Node, before Facts) {
		if _, ok := n.(*ast.DeferStmt); ok {
			return
		}
		cur := before
		inspectPost(n, func(x ast.Node) {
			if c, ok := x.(*ast.CallExpr); ok {
				f := callee(info, c)
				if f == acquire {
					nOps++
					recv := render(recvExpr(c))
					if cur["held:"+recv] {
						w.violation(sp.label+"|acquire-while-held:"+recv, c.Pos(), recv+".acquire() while already holding the permit: aborts the Run (errBadAcquire)")
					}
				}
				if f == release || f == transfer {
					nOps++
				}
				cur = apply(cur, c, "", c.Pos(), true)
			}
		})
	})
	bad := 0
	// user code (Query.Execute) may panic: at that point the deferred operations registered so far
	// must already restore the exit state, otherwise the permit is lost with the panicking task
	d.Walk(func(_ *cfg.Block, n ast.Node, before Facts) {
		inspectPost(n, func(x ast.Node) {
			c, ok := x.(*ast.CallExpr)
			if !ok {
				return
			}
			f := callee(info, c)
			if f == nil || f.Name() != "Execute" {
				return
			}
			s := before
			for i := len(defers) - 1; i >= 0; i-- {
				if s[fmt.Sprintf("deferred:%d", i)] {
					s = apply(s, defers[i].call, "", c.Pos(), false)
				}
			}
			for v, st := range sp.exit {
				if !s[st+":"+v] {
					bad++
					w.violation(sp.label+"|panic-unsafe:"+v, c.Pos(), fmt.Sprintf("if Query.Execute panics here, the deferred operations registered so far leave %s not %s (state after defers %s): the hand-back of the semaphore permit is not deferred, so a panicking query leaks or double-counts a permit", v, st, s.String()))
				}
			}
		})
	})
	for _, e := range d.Exits(info, body.End()) {
		if e.Kind == "panic" {
			continue
		}
		s := e.State
		// run deferred operations LIFO
		for i := len(defers) - 1; i >= 0; i-- {
			if s[fmt.Sprintf("deferred:%d", i)] {
				s = apply(s, defers[i].call, "", e.Pos, false)
			}
		}
		if s["acqfail"] && sp.failOK {
			// the run context is cancelled: permits may legitimately not be re-acquired; but nothing
			// may still be held by a variable required free
			for v, st := range sp.exit {
				if st == "free" && s["held:"+v] {
					bad++
					w.violation(sp.label+"|leak-on-cancel:"+v, e.Pos, v+" still holds the permit on a cancellation exit")
				}
			}
			continue
		}
		for v, st := range sp.exit {
			if !s[st+":"+v] {
				bad++
				w.violation(sp.label+"|unbalanced:"+v, e.Pos, fmt.Sprintf("%s exits with %s not %s (state %s): the global semaphore permit is leaked or double-released", sp.label, v, st, s.String()))
			}
		}
	}
	if bad == 0 {
		w.ok(sp.label+"|balanced", body.Pos(), fmt.Sprintf("every normal exit restores the entry hold state %v (%d semaphore operations, %d deferred); the only unbalanced exits follow a failed acquire (cancelled context)", sp.exit, nOps, len(defers)))
	}
}

// ---- RF-inc / RG-inc -------------------------------------------------------------------------

func rfIncremental(w *World) {
	rfPackage(w, incRel, 2, 2, map[string]string{})
}

func rgIncremental(w *World) {
	w.rule("RG")
	p := w.pkg(incRel)
	run := w.fn(incRel, "(*task).run")
	anyExec := w.fn(incRel, "(*AnyQuery).Execute")
	start := w.fn(incRel, "(*task).start")
	if p == nil || run == nil || anyExec == nil || start == nil {
		return
	}
	info := p.TypesInfo
	n := 0
	for _, b := range allFuncBodies(p) {
		if b.Lit != nil {
			continue
		}
		ast.Inspect(b.Body, func(x ast.Node) bool {
			gs, ok := x.(*ast.GoStmt)
			if !ok {
				return true
			}
			n++
			key := "go|" + b.Label
			fl, _ := gs.Call.Fun.(*ast.FuncLit)
			switch {
			case b.Obj == start.Obj:
				okShape := false
				if fl != nil && len(fl.Body.List) == 1 {
					if es, ok := fl.Body.List[0].(*ast.ExprStmt); ok {
						if c, ok := es.X.(*ast.CallExpr); ok && len(c.Args) == 1 {
							if _, ok := isCallTo(info, ast.Unparen(c.Args[0]), run.Obj); ok {
								okShape = true
							}
						}
					}
				}
				if okShape {
					w.ok(key, gs.Pos(), "the worker goroutine only calls done(t.run(…)); panic containment is task.run's deferred handler (checked below)")
				} else {
					w.violation(key, gs.Pos(), "worker goroutine does more than done(t.run(…)): code outside task.run's recover handler runs on an executor goroutine")
				}
			case b.Label == "incremental.(*Executor).EvictWithCleanup":
				// reviewed exception: debug-only eviction logger; sleeps, forces a GC, logs, exits
				blocking := false
				if fl != nil {
					ast.Inspect(fl.Body, func(y ast.Node) bool {
						switch s := y.(type) {
						case *ast.SelectStmt, *ast.SendStmt:
							blocking = true
						case *ast.UnaryExpr:
							if s.Op == token.ARROW {
								blocking = true
							}
						case *ast.ForStmt:
							if s.Cond == nil {
								blocking = true
							}
						}
						return true
					})
				}
				if blocking {
					w.violation(key, gs.Pos(), "the debug eviction logger goroutine contains a blocking operation or unbounded loop")
				} else {
					w.ok(key, gs.Pos(), "reviewed exception: debug-only eviction logger (spawned only when internal.Debug && evictGCDeadline > 0); sleeps a configured duration, logs, exits")
				}
			default:
				w.violation(key, gs.Pos(), "unexpected goroutine in the incremental executor: not in the reviewed table")
			}
			return true
		})
	}
	w.floor("go statements in experimental/incremental", n, 2)

	// in task.run the recover handler is deferred before Execute and its panic branch cancels the run with ErrPanic carrying the value
	isExec := func(x ast.Node) bool { _, ok := isCallTo(info, x, anyExec.Obj); return ok }
	isRecoverDefer := func(x ast.Node) bool {
		ds, ok := x.(*ast.DeferStmt)
		if !ok {
			return false
		}
		fl, ok := ds.Call.Fun.(*ast.FuncLit)
		if !ok {
			return false
		}
		has := false
		ast.Inspect(fl.Body, func(y ast.Node) bool {
			if c, ok := y.(*ast.CallExpr); ok && isBuiltinCall(info, c, "recover") {
				has = true
			}
			return true
		})
		return has
	}
	nb, bad := mustPrecede(info, run.Decl.Body, isRecoverDefer, isExec)
	if nb >= 1 && len(bad) == 0 {
		w.ok("recover-before-execute", run.Decl.Pos(), "user code (Query.Execute) runs only after a deferred recover handler is installed in task.run")
	} else {
		w.violation("recover-before-execute", run.Decl.Pos(), "Query.Execute can run without a deferred recover handler: a panicking query kills the process")
	}
	// ErrPanic carries the recovered value and cancels the run
	found := false
	ast.Inspect(run.Decl.Body, func(x ast.Node) bool {
		c, ok := x.(*ast.CallExpr)
		if !ok || len(c.Args) != 1 {
			return true
		}
		s, ok := ast.Unparen(c.Fun).(*ast.SelectorExpr)
		if !ok || s.Sel.Name != "cancel" {
			return true
		}
		ue, ok := ast.Unparen(c.Args[0]).(*ast.UnaryExpr)
		if !ok {
			return true
		}
		cl, ok := ue.X.(*ast.CompositeLit)
		if !ok {
			return true
		}
		if tv, ok := info.Types[cl]; ok && strings.HasSuffix(tv.Type.String(), ".ErrPanic") {
			for _, el := range cl.Elts {
				if kv, ok := el.(*ast.KeyValueExpr); ok && render(kv.Key) == "Panic" {
					// value must be the variable assigned from recover()
					v := render(kv.Value)
					isRec := false
					ast.Inspect(run.Decl.Body, func(y ast.Node) bool {
						if as, ok := y.(*ast.AssignStmt); ok && len(as.Rhs) == 1 && render(as.Lhs[0]) == v {
							if rc, ok := as.Rhs[0].(*ast.CallExpr); ok && isBuiltinCall(info, rc, "recover") {
								isRec = true
							}
						}
						return true
					})
					if isRec {
						found = true
					}
				}
			}
		}
		return true
	})
	if found {
		w.ok("panic-cancels-run", run.Decl.Pos(), "the recover branch cancels the Run with an ErrPanic whose Panic field is the recovered value")
	} else {
		w.violation("panic-cancels-run", run.Decl.Pos(), "no caller.cancel(&ErrPanic{Panic: <recovered value>}) found in task.run's handler")
	}
}

// RC3b (C34): the cycle search is exhaustive. checkCycle decides "is the caller reachable from this
// task through dependency edges" by a breadth-first walk; a cycle that exists must be found no
// matter which of the tasks on it have already completed (a query that tolerated an earlier cycle
// error completes while still holding an edge to a pending ancestor). In the callback that visits
// the dependencies of a node, every path must either enqueue the dependency or be the path on
// which the dependency is already in the visited map: a further skip condition (completed,
// cached, same run …) prunes edges a real cycle may run through, and the caller is handed a value
// with no cycle error. Must-dataflow over the callback: fact "covered" from the enqueue call and
// from the `ok` edge of the comma-ok lookup of the visited map; every return needs it.
func rc3bExhaustiveCycleSearch(w *World) {
	w.rule("RC")
	cc := w.fn(incRel, "(*task).checkCycle")
	if cc == nil {
		return
	}
	info := cc.Pkg.TypesInfo
	var lit *ast.FuncLit
	// the search loop may live in checkCycle itself or in a helper of the package it calls
	for _, body := range append([]*ast.BlockStmt{cc.Decl.Body}, samePkgCalleeBodies(w, cc)...) {
		ast.Inspect(body, func(x ast.Node) bool {
			c, ok := x.(*ast.CallExpr)
			if !ok || len(c.Args) != 1 {
				return true
			}
			if s, ok := ast.Unparen(c.Fun).(*ast.SelectorExpr); ok && s.Sel.Name == "Range" {
				if fl, ok := c.Args[0].(*ast.FuncLit); ok && lit == nil {
					lit = fl
				}
			}
			return true
		})
	}
	if lit == nil {
		w.undecided("RC3b|checkCycle|callback", cc.Decl.Pos(), "no deps.Range(func…) callback found in checkCycle")
		return
	}
	// the comma-ok variables of map lookups
	okVars := map[types.Object]bool{}
	ast.Inspect(lit.Body, func(x ast.Node) bool {
		as, ok := x.(*ast.AssignStmt)
		if !ok || len(as.Lhs) != 2 || len(as.Rhs) != 1 {
			return true
		}
		ix, ok := ast.Unparen(as.Rhs[0]).(*ast.IndexExpr)
		if !ok {
			return true
		}
		if _, isMap := info.TypeOf(ix.X).Underlying().(*types.Map); !isMap {
			return true
		}
		if id, ok := as.Lhs[1].(*ast.Ident); ok {
			o := info.Defs[id]
			if o == nil {
				o = info.Uses[id]
			}
			if o != nil {
				okVars[o] = true
			}
		}
		return true
	})
	g := buildCFG(info, lit.Body)
	d := &Dataflow{G: g, Must: true, Init: Facts{}}
	d.Transfer = func(n ast.Node, in Facts) Facts {
		out := in
		ast.Inspect(n, func(y ast.Node) bool {
			if c, ok := y.(*ast.CallExpr); ok {
				if s, ok := ast.Unparen(c.Fun).(*ast.SelectorExpr); ok && (s.Sel.Name == "PushBack" || s.Sel.Name == "PushFront") {
					out = out.with("covered")
				}
			}
			return true
		})
		return out
	}
	d.Branch = func(leaf ast.Expr, truth bool, s Facts) Facts {
		if id, ok := ast.Unparen(leaf).(*ast.Ident); ok && okVars[info.Uses[id]] && truth {
			return s.with("covered")
		}
		return s
	}
	d.Run()
	nRet, bad := 0, 0
	for _, e := range d.Exits(info, lit.End()) {
		if e.Kind == "panic" {
			continue
		}
		nRet++
		if !e.State["covered"] {
			bad++
			w.violation("RC3b|checkCycle|skip-path", e.Pos, "the dependency-visiting callback of checkCycle can return without enqueueing the dependency on a path where it was not found in the visited map: edges are pruned from the cycle search, so a cycle running through the skipped task (e.g. one that already completed after tolerating an earlier cycle error) is not reported and the caller gets a value with no ErrCycle")
		}
	}
	w.floor("exits of the checkCycle dependency callback", nRet, 1)
	if bad == 0 {
		w.ok("RC3b|checkCycle|exhaustive", lit.Pos(), fmt.Sprintf("on all %d exit(s) of the callback the dependency was enqueued or already visited", nRet))
	}
}

// samePkgCalleeBodies lists the bodies of the functions of f's package that f calls statically.
func samePkgCalleeBodies(w *World, f *FuncRef) []*ast.BlockStmt {
	var out []*ast.BlockStmt
	seen := map[*types.Func]bool{f.Obj: true}
	info := f.Pkg.TypesInfo
	ast.Inspect(f.Decl.Body, func(x ast.Node) bool {
		if c, ok := x.(*ast.CallExpr); ok {
			if g := callee(info, c); g != nil && g.Pkg() == f.Pkg.Types && !seen[g.Origin()] {
				seen[g.Origin()] = true
				if d := w.decls[g.Origin()]; d != nil && d.Body != nil {
					out = append(out, d.Body)
				}
			}
		}
		return true
	})
	return out
}
