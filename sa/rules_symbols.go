package main

import (
	"fmt"
	"go/ast"
	"go/token"
	"go/types"
	"strings"

	"golang.org/x/tools/go/cfg"
)

// Atomicity rules over linker/symbols.go (C05, C16, C17): beyond race freedom (RA), a shared
// insert-only table needs every insertion to be validated in the critical section that performs it.
//
//  RA4a insert-if-absent: a keyed write m[k] = v to a guarded map in a function that takes the
//       write lock itself is reached only on paths where, since that lock was acquired, a comma-ok
//       lookup of the same key (in a guarded map of the same value) came back absent.
//  RA4b two-pass commit: a call of a commit helper (a caller-holds function performing keyed
//       writes) is preceded, in the same uninterrupted write-locked section, by its check helper on
//       the same receiver and by the "already imported" re-check of the commit's argument.
//  RA4c no stale values across re-locking: a local assigned from a guarded read is not used after a
//       later Lock/RLock acquisition unless it was re-assigned after it.

var symCommitHelpers = map[string][]string{
	// commit helper -> accepted check helpers
	"commitFileLocked": {"checkFileLocked", "checkResultLocked"},
}

func ra4Symbols(w *World) {
	w.rule("RA4")
	p := w.pkg("linker")
	if p == nil {
		return
	}
	info := p.TypesInfo
	guarded := map[*types.Var]bool{}
	for _, f := range []string{"children", "files", "symbols", "exts"} {
		if v := w.field("linker", "packageSymbols", f); v != nil {
			guarded[v] = true
		}
	}
	if v := w.field("linker", "Symbols", "extDecls"); v != nil {
		guarded[v] = true
	}
	filesFld := w.field("linker", "packageSymbols", "files")

	isGuardedIndex := func(e ast.Expr) (base, field, key string, ok bool) {
		ix, isIx := ast.Unparen(e).(*ast.IndexExpr)
		if !isIx {
			return
		}
		v := selField(info, ix.X)
		if v == nil || !guarded[v] {
			return
		}
		sel := ast.Unparen(ix.X).(*ast.SelectorExpr)
		return render(sel.X), v.Name(), render(ix.Index), true
	}
	hasGuardedRead := func(e ast.Node) bool {
		found := false
		ast.Inspect(e, func(x ast.Node) bool {
			if ex, ok := x.(ast.Expr); ok {
				if v := selField(info, ex); v != nil && guarded[v] {
					found = true
				}
			}
			return true
		})
		return found
	}

	nKeyedWrites, nCommitCalls, nFuncs := 0, 0, 0
	for _, b := range allFuncBodies(p) {
		if b.Lit != nil {
			continue
		}
		pos := w.Fset.Position(b.Decl.Pos())
		if !strings.HasSuffix(pos.Filename, "symbols.go") {
			continue
		}
		nFuncs++
		w.FuncsSeen[b.Label] = true
		// does this function take a lock itself?
		takesLock := false
		ast.Inspect(b.Body, func(x ast.Node) bool {
			if c, ok := x.(*ast.CallExpr); ok {
				if k := mutexMethod(callee(info, c)); k == "Lock" || k == "RLock" {
					takesLock = true
				}
			}
			return true
		})
		// keyed writes anywhere in the declaration (including closures)
		var keyed []ast.Node
		ast.Inspect(b.Body, func(x ast.Node) bool {
			if as, ok := x.(*ast.AssignStmt); ok {
				for _, l := range as.Lhs {
					if _, _, _, ok := isGuardedIndex(l); ok {
						keyed = append(keyed, l)
					}
				}
			}
			return true
		})
		short := b.Obj.Name()
		if len(keyed) > 0 && !takesLock {
			if _, isCommit := symCommitHelpers[short]; isCommit {
				w.ok("commit-helper|"+b.Label, b.Decl.Pos(), fmt.Sprintf("caller-holds commit helper with %d keyed write(s); its call sites carry the validation obligation (RA4b)", len(keyed)))
			} else {
				w.violation("commit-helper|"+b.Label, b.Decl.Pos(), "function inserts into the shared table without taking the lock and is not a registered commit helper: its insertions are not tied to a validation in the same critical section")
			}
			nKeyedWrites += len(keyed)
			continue
		}

		g := buildCFG(info, b.Body)
		d := &Dataflow{G: g, Must: true, Init: Facts{}}
		dropSection := func(s Facts) Facts {
			out := Facts{}
			for k := range s {
				if strings.HasPrefix(k, "absent:") || strings.HasPrefix(k, "okvar:") || strings.HasPrefix(k, "checked:") || strings.HasPrefix(k, "herr:") || k == "hclean" {
					continue
				}
				out[k] = true
			}
			return out
		}
		d.Transfer = func(n ast.Node, in Facts) Facts {
			if _, ok := n.(*ast.DeferStmt); ok {
				return in
			}
			out := in
			inspectPost(n, func(x ast.Node) {
				c, ok := x.(*ast.CallExpr)
				if !ok {
					return
				}
				f := callee(info, c)
				switch mutexMethod(f) {
				case "Lock":
					out = dropSection(out).with("W:" + render(recvExpr(c)))
				case "RLock":
					out = dropSection(out).with("R:" + render(recvExpr(c)))
				case "Unlock":
					out = dropSection(out).without("W:" + render(recvExpr(c)))
				case "RUnlock":
					out = dropSection(out).without("R:" + render(recvExpr(c)))
				}
				if f != nil {
					for _, checks := range symCommitHelpers {
						for _, ck := range checks {
							if f.Name() == ck && recvExpr(c) != nil {
								base := render(recvExpr(c))
								if out["W:"+base+".mu"] {
									out = out.with("checked:" + base)
								}
							}
						}
					}
				}
			})
			if as, ok := n.(*ast.AssignStmt); ok {
				// any assignment to a variable invalidates okvar facts about it
				for _, l := range as.Lhs {
					if id, ok := l.(*ast.Ident); ok {
						for k := range out {
							if strings.HasPrefix(k, "okvar:"+id.Name+"=") {
								out = out.without(k)
							}
						}
						out = out.without("herr:" + id.Name)
					}
				}
				if len(as.Lhs) == 1 && len(as.Rhs) == 1 {
					if c, ok := ast.Unparen(as.Rhs[0]).(*ast.CallExpr); ok && isFunc(callee(info, c), modPath+"/reporter", "Handler", "Error") {
						out = out.with("herr:" + render(as.Lhs[0]))
					}
				}
				if len(as.Lhs) == 2 && len(as.Rhs) == 1 {
					if base, _, key, ok := isGuardedIndex(as.Rhs[0]); ok {
						if out["W:"+base+".mu"] || out["W:"+base+".extDeclsMu"] {
							out = out.with("okvar:" + render(as.Lhs[1]) + "=" + base + "[" + key + "]")
						}
					}
				}
				// the comma-ok lookup may live in a helper of the same receiver:
				// `existing, child, ok = s.lookupPackageLocked(pkg)` whose body starts with
				// `entry, found = s.<table>[<param>]` and returns found as its last result
				if len(as.Lhs) >= 2 && len(as.Rhs) == 1 {
					if c, ok := ast.Unparen(as.Rhs[0]).(*ast.CallExpr); ok && len(c.Args) == 1 && recvExpr(c) != nil {
						if hf := callee(info, c); hf != nil {
							if hd := w.decls[hf.Origin()]; hd != nil && hd.Body != nil && len(hd.Body.List) > 0 && hd.Type.Params.NumFields() == 1 && len(hd.Type.Params.List[0].Names) == 1 {
								pname := hd.Type.Params.List[0].Names[0].Name
								if first, ok := hd.Body.List[0].(*ast.AssignStmt); ok && len(first.Lhs) == 2 && len(first.Rhs) == 1 {
									if _, _, hkey, ok := isGuardedIndex(first.Rhs[0]); ok && hkey == pname {
										okName := render(first.Lhs[1])
										returnsOK := false
										ast.Inspect(hd.Body, func(y ast.Node) bool {
											if r, isR := y.(*ast.ReturnStmt); isR {
												returnsOK = len(r.Results) == 0 || render(r.Results[len(r.Results)-1]) == okName
											}
											return true
										})
										base := render(recvExpr(c))
										if returnsOK && (out["W:"+base+".mu"] || out["W:"+base+".extDeclsMu"]) {
											out = out.with("okvar:" + render(as.Lhs[len(as.Lhs)-1]) + "=" + base + "[" + render(c.Args[0]) + "]")
										}
									}
								}
							}
						}
					}
				}
			}
			return out
		}
		d.Branch = func(leaf ast.Expr, truth bool, s Facts) Facts {
			if be, ok := leaf.(*ast.BinaryExpr); ok && isNilIdent(info, be.Y) && s["herr:"+render(be.X)] {
				if (be.Op == token.NEQ && !truth) || (be.Op == token.EQL && truth) {
					s = s.with("hclean")
				}
			}
			if id, ok := leaf.(*ast.Ident); ok && !truth {
				for k := range s {
					if strings.HasPrefix(k, "okvar:"+id.Name+"=") {
						s = s.with("absent:" + strings.TrimPrefix(k, "okvar:"+id.Name+"="))
					}
				}
			}
			return s
		}
		d.Run()
		d.Walk(func(_ *cfg.Block, n ast.Node, before Facts) {
			if as, ok := n.(*ast.AssignStmt); ok {
				for _, l := range as.Lhs {
					base, field, key, ok := isGuardedIndex(l)
					if !ok {
						continue
					}
					nKeyedWrites++
					k := fmt.Sprintf("insert-if-absent|%s|%s.%s[%s]", b.Label, base, field, key)
					if before["absent:"+base+"["+key+"]"] {
						w.ok(k, l.Pos(), "the key was looked up and found absent since the write lock was taken, on every path to this insertion")
					} else {
						w.violation(k, l.Pos(), "insertion into the shared table is reachable on a path where, within the current write-locked section, the same key was not established to be absent: a concurrent insertion between check and act is overwritten or a collision is missed (state "+before.String()+")")
					}
				}
			}
			inspectPost(n, func(x ast.Node) {
				c, ok := x.(*ast.CallExpr)
				if !ok {
					return
				}
				f := callee(info, c)
				if f == nil {
					return
				}
				if _, isCommit := symCommitHelpers[f.Name()]; !isCommit || recvExpr(c) == nil {
					return
				}
				nCommitCalls++
				base := render(recvExpr(c))
				k := fmt.Sprintf("check-commit-atomic|%s|%s.%s", b.Label, base, f.Name())
				arg := ""
				if len(c.Args) > 0 {
					arg = render(c.Args[0])
				}
				var missing []string
				if !before["W:"+base+".mu"] {
					missing = append(missing, "write lock")
				}
				if !before["checked:"+base] {
					missing = append(missing, "conflict check in the same write-locked section")
				}
				if filesFld != nil && !before["absent:"+base+"["+arg+"]"] {
					missing = append(missing, "already-imported re-check of "+arg+" in the same section")
				}
				if !before["hclean"] {
					missing = append(missing, "handler.Error() == nil established after the check pass (a lenient reporter accepts collisions and lets the check pass return nil)")
				}
				if len(missing) == 0 {
					w.ok(k, c.Pos(), "commit is preceded, in one uninterrupted write-locked section, by the conflict check, the handler verdict and the already-imported re-check")
				} else {
					w.violation(k, c.Pos(), "commit of a file's symbols is not atomic with its validation; missing: "+strings.Join(missing, "; ")+" (state "+before.String()+")")
				}
			})
		})

		// RA4c stale values
		ds := &Dataflow{G: buildCFG(info, b.Body), Must: false, Init: Facts{}}
		ds.Transfer = func(n ast.Node, in Facts) Facts {
			if _, ok := n.(*ast.DeferStmt); ok {
				return in
			}
			out := in
			inspectPost(n, func(x ast.Node) {
				if c, ok := x.(*ast.CallExpr); ok {
					if k := mutexMethod(callee(info, c)); k == "Lock" || k == "RLock" {
						nw := Facts{}
						for f := range out {
							if strings.HasPrefix(f, "tainted:") {
								nw["stale:"+strings.TrimPrefix(f, "tainted:")] = true
							} else {
								nw[f] = true
							}
						}
						out = nw
					}
				}
			})
			if as, ok := n.(*ast.AssignStmt); ok {
				for _, l := range as.Lhs {
					if id, ok := l.(*ast.Ident); ok && id.Name != "_" {
						out = out.without("stale:" + id.Name).without("tainted:" + id.Name)
					}
				}
				if len(as.Rhs) == 1 && hasGuardedRead(as.Rhs[0]) {
					for _, l := range as.Lhs {
						if id, ok := l.(*ast.Ident); ok && id.Name != "_" {
							out = out.with("tainted:" + id.Name)
						}
					}
				} else if len(as.Rhs) == len(as.Lhs) {
					for i, l := range as.Lhs {
						if id, ok := l.(*ast.Ident); ok && id.Name != "_" && hasGuardedRead(as.Rhs[i]) {
							out = out.with("tainted:" + id.Name)
						}
					}
				}
			}
			return out
		}
		ds.Run()
		staleBad := 0
		ds.Walk(func(_ *cfg.Block, n ast.Node, before Facts) {
			lhs := map[*ast.Ident]bool{}
			if as, ok := n.(*ast.AssignStmt); ok {
				for _, l := range as.Lhs {
					if id, ok := l.(*ast.Ident); ok {
						lhs[id] = true
					}
				}
			}
			cur := before
			inspectPost(n, func(x ast.Node) {
				if id, ok := x.(*ast.Ident); ok && !lhs[id] && cur["stale:"+id.Name] {
					if _, isVar := info.Uses[id].(*types.Var); isVar {
						staleBad++
						w.violation("stale-after-relock|"+b.Label+"|"+id.Name, id.Pos(), "variable "+id.Name+" was read from the shared table in an earlier critical section and is used after the lock was re-acquired without being re-read: the double-check acts on a stale value")
					}
				}
			})
		})
		if staleBad == 0 && takesLock {
			w.ok("stale-after-relock|"+b.Label, b.Decl.Pos(), "no value read from the table in one critical section is used after a later lock acquisition without being re-read")
		}
	}
	w.floor("functions analysed in linker/symbols.go", nFuncs, 20)
	w.floor("keyed insertions into the symbol table", nKeyedWrites, 6)
	w.floor("commit helper call sites", nCommitCalls, 2)
	_ = token.NoPos
}

// RA4d / RA4e (C16): registering a file's extension numbers.
//
// RA4d — only the goroutine that actually committed the file registers its extension numbers.
// Symbols.Import checks "already imported?" under the read lock, and importFile / importResult
// re-check under the write lock and tell their caller whether *this* call committed the file. Two
// concurrent imports of one dependency can both pass the first check; the loser must stop after
// the second, otherwise it registers the same extension numbers again and reports the file as
// colliding with itself — a collision that compiling the same files together never reports. In
// each …WithExtensions function the AddExtension walk must be dominated by the "committed" result
// of the import call being true (branch facts).
//
// RA4e — the walk covers nested scopes. Extensions can be declared inside messages at any depth;
// the registration must visit every descriptor of the file (package walk's Descriptors /
// DescriptorsEnterAndExit), not only the file-level Extensions() list: a nested extension whose
// number is not registered is not found by LookupExtension, and a later file reusing the number
// is accepted although compiling both together reports the collision.
func ra4dExtensionRegistration(w *World) {
	w.rule("RA4")
	p := w.pkg("linker")
	addExt := w.fn("linker", "(*Symbols).AddExtension")
	if p == nil || addExt == nil {
		return
	}
	info := p.TypesInfo
	n := 0
	for _, name := range []string{"(*Symbols).importFileWithExtensions", "(*Symbols).importResultWithExtensions"} {
		fr := w.fn("linker", name)
		if fr == nil {
			continue
		}
		n++
		// the import call and the variable bound to its boolean result
		var committed types.Object
		ast.Inspect(fr.Decl.Body, func(x ast.Node) bool {
			as, ok := x.(*ast.AssignStmt)
			if !ok || len(as.Rhs) != 1 || len(as.Lhs) != 2 {
				return true
			}
			c, ok := ast.Unparen(as.Rhs[0]).(*ast.CallExpr)
			if !ok {
				return true
			}
			f := callee(info, c)
			if f == nil || !(strings.HasPrefix(f.Name(), "importFile") || strings.HasPrefix(f.Name(), "importResult")) {
				return true
			}
			if id, ok := as.Lhs[0].(*ast.Ident); ok {
				if t := info.TypeOf(id); t != nil {
					if bt, ok := t.Underlying().(*types.Basic); ok && bt.Kind() == types.Bool {
						committed = info.Defs[id]
						if committed == nil {
							committed = info.Uses[id]
						}
					}
				}
			}
			return true
		})
		// where AddExtension is called (directly, or inside a callback literal)
		var addCalls []*ast.CallExpr
		ast.Inspect(fr.Decl.Body, func(x ast.Node) bool {
			if c, ok := x.(*ast.CallExpr); ok {
				if f := callee(info, c); f != nil && f == addExt.Obj {
					addCalls = append(addCalls, c)
				}
			}
			return true
		})
		key := "register-only-after-commit|" + fr.Name
		if len(addCalls) == 0 {
			w.undecided(key, fr.Decl.Pos(), "no AddExtension call found")
			continue
		}
		if committed == nil {
			w.violation(key, fr.Decl.Pos(), "the import call's result no longer says whether this call committed the file: a goroutine that lost the double-checked race registers the file's extension numbers a second time and reports the file as colliding with itself")
		} else {
			g := buildCFG(info, fr.Decl.Body)
			d := &Dataflow{G: g, Must: true, Init: Facts{}, Transfer: func(n ast.Node, in Facts) Facts { return in }}
			d.Branch = func(leaf ast.Expr, truth bool, s Facts) Facts {
				if id, ok := ast.Unparen(leaf).(*ast.Ident); ok && info.Uses[id] == committed && truth {
					return s.with("committed")
				}
				return s
			}
			d.Run()
			okAll := true
			d.Walk(func(_ *cfg.Block, nd ast.Node, before Facts) {
				ast.Inspect(nd, func(y ast.Node) bool {
					c, ok := y.(*ast.CallExpr)
					if !ok {
						return true
					}
					for _, ac := range addCalls {
						if ac.Pos() >= c.Pos() && ac.End() <= c.End() && !before["committed"] {
							okAll = false
						}
					}
					return true
				})
			})
			if okAll {
				w.ok(key, fr.Decl.Pos(), "extension numbers are registered only on the path where the import call reported that it committed the file")
			} else {
				w.violation(key, fr.Decl.Pos(), "AddExtension can run although this call did not commit the file (lost the double-checked race): the same extension numbers are registered twice and a spurious collision is reported")
			}
		}
		// RA4e: AddExtension sits inside a callback handed to package walk
		key2 := "register-nested-extensions|" + fr.Name
		parents := parentMap(fr.Decl)
		inWalk := true
		for _, ac := range addCalls {
			found := false
			for cur := parents[ast.Node(ac)]; cur != nil; cur = parents[cur] {
				if c, ok := cur.(*ast.CallExpr); ok {
					if f := callee(info, c); f != nil && f.Pkg() != nil && strings.HasSuffix(f.Pkg().Path(), "/walk") && strings.HasPrefix(f.Name(), "Descriptors") {
						found = true
					}
				}
			}
			if !found {
				inWalk = false
			}
		}
		if inWalk {
			w.ok(key2, fr.Decl.Pos(), "extension numbers are registered from a walk over every descriptor of the file (nested scopes included)")
		} else {
			w.violation(key2, fr.Decl.Pos(), "AddExtension is not driven by package walk's traversal of all descriptors: extensions declared inside messages are skipped, their numbers are not registered, and a later file reusing one is accepted although compiling the files together reports the collision")
		}
	}
	w.floor("…WithExtensions import functions", n, 2)
}
