package main

import (
	"fmt"
	"go/ast"
	"go/types"
	"sort"
	"strings"
)

// RR4 (C11): the AST owns its source bytes. The slice handed to ast.NewFileInfo (and to the rune
// reader) is what every later NodeInfo.RawText / LeadingWhitespace / comment accessor slices, for
// as long as the AST lives. It must therefore come from storage the parser allocated itself —
// io.ReadAll, os.ReadFile, make, append to nil, bytes.Clone, a []byte(string) conversion — possibly
// re-sliced (x[a:b], bytes.TrimPrefix/TrimSpace…). A view of caller-owned storage
// ((*bytes.Buffer).Bytes/Next, (*bytes.Reader)…, a parameter, a type assertion of the reader)
// makes the AST's text change when the caller reuses its buffer. Origins are traced through local
// assignments and through the return statements of same-package callees (depth ≤ 3); an origin
// that is neither in the owned nor in the borrowed list is undecided.
func rr4OwnedSourceBytes(w *World) {
	w.rule("RR4")
	p := w.pkg("parser")
	nl := w.fn("parser", "newLexer")
	if p == nil || nl == nil {
		return
	}
	info := p.TypesInfo
	var infoData ast.Expr
	ast.Inspect(nl.Decl.Body, func(x ast.Node) bool {
		if c, ok := x.(*ast.CallExpr); ok {
			if f := callee(info, c); f != nil && f.Name() == "NewFileInfo" && len(c.Args) == 2 {
				infoData = c.Args[1]
			}
		}
		return true
	})
	if infoData == nil {
		w.undecided("owned-bytes|anchor", nl.Decl.Pos(), "no ast.NewFileInfo(name, data) call in newLexer")
		return
	}
	type origin struct {
		kind string // owned | borrowed | unknown
		desc string
		pos  ast.Node
	}
	var origins []origin
	ownedFuncs := map[string]bool{"io.ReadAll": true, "os.ReadFile": true, "bytes.Clone": true, "slices.Clone": true, "io/ioutil.ReadAll": true}
	viewFuncs := map[string]bool{"bytes.TrimPrefix": true, "bytes.TrimSuffix": true, "bytes.TrimSpace": true, "bytes.TrimLeft": true, "bytes.TrimRight": true, "bytes.Trim": true}
	var trace func(e ast.Expr, decl *ast.FuncDecl, depth int)
	visiting := map[*types.Var]bool{}
	assignsIn := func(decl *ast.FuncDecl, obj types.Object) []ast.Expr {
		var out []ast.Expr
		ast.Inspect(decl.Body, func(y ast.Node) bool {
			as, ok := y.(*ast.AssignStmt)
			if !ok {
				return true
			}
			for i, l := range as.Lhs {
				id, ok := l.(*ast.Ident)
				if !ok {
					continue
				}
				o := info.Defs[id]
				if o == nil {
					o = info.Uses[id]
				}
				if o != obj {
					continue
				}
				if len(as.Rhs) == len(as.Lhs) {
					out = append(out, as.Rhs[i])
				} else if len(as.Rhs) == 1 {
					out = append(out, as.Rhs[0])
				}
			}
			return true
		})
		return out
	}
	trace = func(e ast.Expr, decl *ast.FuncDecl, depth int) {
		e = ast.Unparen(e)
		if depth > 6 {
			origins = append(origins, origin{"unknown", "value flow too deep at " + render(e), e})
			return
		}
		switch x := e.(type) {
		case *ast.SliceExpr:
			trace(x.X, decl, depth+1)
		case *ast.Ident:
			obj := info.Uses[x]
			if obj == nil {
				obj = info.Defs[x]
			}
			if v, ok := obj.(*types.Var); ok {
				// parameter?
				for _, fl := range decl.Type.Params.List {
					for _, nm := range fl.Names {
						if info.Defs[nm] == v {
							origins = append(origins, origin{"borrowed", "parameter " + x.Name + " of " + decl.Name.Name, e})
							return
						}
					}
				}
				if visiting[v] {
					return // already being traced (x = f(x)): contributes nothing new
				}
				visiting[v] = true
				defer delete(visiting, v)
				rs := assignsIn(decl, v)
				if len(rs) == 0 {
					origins = append(origins, origin{"unknown", "variable " + x.Name + " has no assignment in " + decl.Name.Name, e})
					return
				}
				for _, r := range rs {
					trace(r, decl, depth+1)
				}
				return
			}
			origins = append(origins, origin{"unknown", "identifier " + x.Name, e})
		case *ast.CallExpr:
			if tv, ok := info.Types[x.Fun]; ok && tv.IsType() && len(x.Args) == 1 {
				// conversion: []byte(string) allocates; []byte(bytesLike) is a view
				if at := info.TypeOf(x.Args[0]); at != nil {
					if bt, ok := at.Underlying().(*types.Basic); ok && bt.Info()&types.IsString != 0 {
						origins = append(origins, origin{"owned", "[]byte(string) conversion", e})
						return
					}
				}
				trace(x.Args[0], decl, depth+1)
				return
			}
			if isBuiltinCall(info, x, "make") {
				origins = append(origins, origin{"owned", "make", e})
				return
			}
			if isBuiltinCall(info, x, "append") && len(x.Args) >= 1 {
				if isNilIdent(info, x.Args[0]) {
					origins = append(origins, origin{"owned", "append(nil, …)", e})
					return
				}
				if cv, ok := ast.Unparen(x.Args[0]).(*ast.CallExpr); ok {
					if tv, ok := info.Types[cv.Fun]; ok && tv.IsType() && len(cv.Args) == 1 && isNilIdent(info, cv.Args[0]) {
						origins = append(origins, origin{"owned", "append([]byte(nil), …)", e})
						return
					}
				}
				trace(x.Args[0], decl, depth+1)
				return
			}
			f := callee(info, x)
			if f == nil {
				origins = append(origins, origin{"unknown", "dynamic call " + render(x.Fun), e})
				return
			}
			full := ""
			if f.Pkg() != nil {
				full = f.Pkg().Path() + "." + f.Name()
			}
			sig := f.Type().(*types.Signature)
			if sig.Recv() != nil {
				// a method returning []byte of a value we do not own: a view into its storage
				origins = append(origins, origin{"borrowed", "result of method " + fullFuncName(f) + " on " + render(recvExpr(x)) + " (a view of that value's storage)", e})
				return
			}
			if ownedFuncs[full] {
				origins = append(origins, origin{"owned", full, e})
				return
			}
			if viewFuncs[full] && len(x.Args) >= 1 {
				trace(x.Args[0], decl, depth+1)
				return
			}
			if d := w.decls[f]; d != nil && d.Body != nil && f.Pkg() == p.Types {
				// same-package callee: follow its returns (first result)
				ast.Inspect(d.Body, func(y ast.Node) bool {
					if _, isLit := y.(*ast.FuncLit); isLit {
						return false
					}
					if r, ok := y.(*ast.ReturnStmt); ok && len(r.Results) >= 1 {
						trace(r.Results[0], d, depth+1)
					}
					return true
				})
				return
			}
			origins = append(origins, origin{"unknown", "result of " + full, e})
		case *ast.TypeAssertExpr:
			origins = append(origins, origin{"borrowed", "type assertion of " + render(x.X), e})
		default:
			origins = append(origins, origin{"unknown", "expression " + types.ExprString(e), e})
		}
	}
	trace(infoData, nl.Decl, 0)
	nOwned := 0
	seen := map[string]bool{}
	for _, o := range origins {
		k := o.kind + "|" + o.desc
		if seen[k] {
			continue
		}
		seen[k] = true
		key := "owned-bytes|" + o.desc
		switch o.kind {
		case "owned":
			nOwned++
			w.ok(key, o.pos.Pos(), "the bytes stored in the AST's FileInfo come from storage the parser allocated ("+o.desc+")")
		case "borrowed":
			w.violation(key, o.pos.Pos(), "the bytes stored in the AST's FileInfo can be a "+o.desc+": the caller may reuse that storage after Parse returns, and the AST would then print other bytes than the source it was parsed from")
		default:
			w.undecided(key, o.pos.Pos(), "cannot classify the origin of the FileInfo bytes: "+o.desc+" (owned origins: io.ReadAll, os.ReadFile, make, append(nil,…), bytes.Clone, []byte(string))")
		}
	}
	w.floor("owned origins of the FileInfo bytes", nOwned, 1)
}

// RR5 (C11): paired accumulators grow at the same end. The grammar collects the elements of a
// dotted name / comma list in accumulator structs of parallel slices (identSlices{idents, dots},
// rangeSlices{ranges, commas}, …) and the constructors interleave the two slices positionally.
// Within one grammar action or helper, every slice of one accumulator value must be extended at
// the same end: all appended, or all prepended (shift idiom `append(s, nil); copy(s[1:], s);
// s[0] = v`, slices.Insert(s, 0, v), append([]T{v}, s...)). A mixed update puts the separators
// out of source order, so printing the AST's tokens in order no longer reproduces the file.
func rr5PairedAccumulators(w *World) {
	w.rule("RR5")
	p := w.pkg("parser")
	if p == nil {
		return
	}
	info := p.TypesInfo
	isAccumulator := func(t types.Type) bool {
		if pt, ok := t.(*types.Pointer); ok {
			t = pt.Elem()
		}
		n, ok := t.(*types.Named)
		if !ok || n.Obj().Pkg() != p.Types {
			return false
		}
		st, ok := n.Underlying().(*types.Struct)
		if !ok || st.NumFields() < 2 {
			return false
		}
		for i := 0; i < st.NumFields(); i++ {
			if _, ok := st.Field(i).Type().Underlying().(*types.Slice); !ok {
				return false
			}
		}
		return true
	}
	type unit struct {
		label string
		body  []ast.Stmt
		pos   ast.Node
	}
	var units []unit
	for _, f := range p.Syntax {
		fn := w.Fset.Position(f.Pos()).Filename
		isGen := strings.HasSuffix(fn, "proto.y.go")
		if !isGen && !strings.HasSuffix(fn, "parser/ast.go") {
			continue
		}
		for _, d := range f.Decls {
			fd, ok := d.(*ast.FuncDecl)
			if !ok || fd.Body == nil {
				continue
			}
			if !isGen {
				units = append(units, unit{"parser." + fd.Name.Name, fd.Body.List, fd})
				continue
			}
			ast.Inspect(fd.Body, func(x ast.Node) bool {
				sw, ok := x.(*ast.SwitchStmt)
				if !ok || sw.Tag == nil || render(sw.Tag) != "protont" {
					return true
				}
				for _, cl := range sw.Body.List {
					cc := cl.(*ast.CaseClause)
					if len(cc.List) == 1 {
						units = append(units, unit{"action " + types.ExprString(cc.List[0]), cc.Body, cc})
					}
				}
				return false
			})
		}
	}
	nUnits, nPairs := 0, 0
	for _, u := range units {
		// field updates per base expression
		type upd struct {
			field string
			class string
			pos   ast.Node
		}
		byBase := map[string]map[string]*upd{}
		note := func(base ast.Expr, field, class string, pos ast.Node) {
			if !isAccumulator(info.TypeOf(base)) {
				return
			}
			b := types.ExprString(base)
			if byBase[b] == nil {
				byBase[b] = map[string]*upd{}
			}
			cur := byBase[b][field]
			if cur == nil {
				byBase[b][field] = &upd{field, class, pos}
				return
			}
			// combine: the shift idiom starts with an append(s, nil) that is re-classified by the
			// copy / s[0]= statements that follow
			switch {
			case cur.class == class:
			case cur.class == "grow" || class == "grow":
				if class != "grow" {
					cur.class = class
				}
			default:
				cur.class = "mixed"
			}
		}
		for _, st := range u.body {
			ast.Inspect(st, func(y ast.Node) bool {
				switch s := y.(type) {
				case *ast.AssignStmt:
					if len(s.Lhs) != 1 || len(s.Rhs) != 1 {
						return true
					}
					switch l := ast.Unparen(s.Lhs[0]).(type) {
					case *ast.SelectorExpr:
						// B.f = append(B.f, vs...) | slices.Insert(B.f, K, v) | append([]T{v}, B.f...)
						c, ok := ast.Unparen(s.Rhs[0]).(*ast.CallExpr)
						if !ok {
							if isAccumulator(info.TypeOf(l.X)) {
								note(l.X, l.Sel.Name, "other", s)
							}
							return true
						}
						self := types.ExprString(l)
						if isBuiltinCall(info, c, "append") && len(c.Args) >= 2 {
							if types.ExprString(c.Args[0]) == self {
								if len(c.Args) == 2 && isNilIdent(info, c.Args[1]) {
									note(l.X, l.Sel.Name, "grow", s) // first step of the shift idiom
								} else {
									note(l.X, l.Sel.Name, "back", s)
								}
								return true
							}
							if c.Ellipsis.IsValid() && types.ExprString(c.Args[len(c.Args)-1]) == self {
								note(l.X, l.Sel.Name, "front", s)
								return true
							}
						}
						if f := callee(info, c); f != nil && f.Pkg() != nil && f.Pkg().Path() == "slices" && f.Name() == "Insert" && len(c.Args) >= 3 && types.ExprString(c.Args[0]) == self {
							if tv, ok := info.Types[c.Args[1]]; ok && tv.Value != nil && tv.Value.String() == "0" {
								note(l.X, l.Sel.Name, "front", s)
							} else {
								note(l.X, l.Sel.Name, "other", s)
							}
							return true
						}
						if isAccumulator(info.TypeOf(l.X)) {
							note(l.X, l.Sel.Name, "other", s)
						}
					case *ast.IndexExpr:
						// B.f[0] = v : part of the shift idiom
						if sel, ok := ast.Unparen(l.X).(*ast.SelectorExpr); ok {
							if tv, ok := info.Types[l.Index]; ok && tv.Value != nil && tv.Value.String() == "0" {
								note(sel.X, sel.Sel.Name, "front", s)
							}
						}
					}
				}
				return true
			})
		}
		if len(byBase) == 0 {
			continue
		}
		var bases []string
		for b := range byBase {
			bases = append(bases, b)
		}
		sort.Strings(bases)
		for _, b := range bases {
			fs := byBase[b]
			if len(fs) < 2 {
				continue
			}
			nUnits++
			var names []string
			for f := range fs {
				names = append(names, f)
			}
			sort.Strings(names)
			classes := map[string][]string{}
			for _, f := range names {
				classes[fs[f].class] = append(classes[fs[f].class], f)
			}
			nPairs++
			key := "same-end|" + u.label + "|" + b
			var desc []string
			for _, f := range names {
				desc = append(desc, f+":"+fs[f].class)
			}
			switch {
			case len(classes) == 1 && (len(classes["back"]) > 0 || len(classes["front"]) > 0):
				w.ok(key, u.pos.Pos(), "all slices of the accumulator are extended at the same end ("+strings.Join(desc, ", ")+")")
			case len(classes["other"]) > 0 || len(classes["grow"]) > 0 || len(classes["mixed"]) > 0:
				w.undecided(key, u.pos.Pos(), "cannot classify how the accumulator's slices are extended ("+strings.Join(desc, ", ")+"): expected append / shift-insert / slices.Insert(…, 0, …)")
			default:
				w.violation(key, u.pos.Pos(), fmt.Sprintf("the parallel slices of accumulator %s are extended at different ends (%s): elements and their separators end up out of source order, so the AST's token order no longer reproduces the file", b, strings.Join(desc, ", ")))
			}
		}
	}
	w.floor("grammar actions / helpers updating two slices of one accumulator", nUnits, 20)
	_ = nPairs
}
