package main

import (
	"fmt"
	"go/ast"
	"go/token"
	"go/types"
	"sort"
	"strings"
)

// ---- RO: interface-override exhaustiveness (C04) --------------------------------------------

// Reviewed delegates: embedded protoreflect values that are real implementations, not placeholders.
var roRealDelegates = map[string]string{
	"extTypeDescriptor.ExtensionTypeDescriptor": "delegates to dynamicpb's extension type descriptor built from this field",
	"file.FileDescriptor":                       "wraps an already built descriptor (NewFile); pure delegation is the point",
}

// Sealed methods that cannot be implemented outside protobuf-go.
var roSealed = map[string]bool{"ProtoInternal": true, "ProtoType": true}

func roDescriptors(w *World) {
	w.rule("RO")
	p := w.pkg("linker")
	if p == nil {
		return
	}
	info := p.TypesInfo
	// where is each embedded field assigned, and from what?
	assignedFrom := map[*types.Var][]string{}
	record := func(v *types.Var, rhs ast.Expr) {
		if v == nil || !v.Embedded() {
			return
		}
		assignedFrom[v] = append(assignedFrom[v], render(rhs))
	}
	for _, f := range p.Syntax {
		ast.Inspect(f, func(x ast.Node) bool {
			switch s := x.(type) {
			case *ast.AssignStmt:
				for i, l := range s.Lhs {
					if i < len(s.Rhs) {
						record(selField(info, l), s.Rhs[i])
					}
				}
			case *ast.CompositeLit:
				tv, ok := info.Types[s]
				if !ok {
					return true
				}
				t := tv.Type
				if pt, ok := t.(*types.Pointer); ok {
					t = pt.Elem()
				}
				st, ok := t.Underlying().(*types.Struct)
				if !ok {
					return true
				}
				for _, el := range s.Elts {
					if kv, ok := el.(*ast.KeyValueExpr); ok {
						if id, ok := kv.Key.(*ast.Ident); ok {
							for i := 0; i < st.NumFields(); i++ {
								if st.Field(i).Name() == id.Name {
									record(st.Field(i), kv.Value)
								}
							}
						}
					}
				}
			}
			return true
		})
	}
	scope := p.Types.Scope()
	var typeNames []string
	for _, n := range scope.Names() {
		typeNames = append(typeNames, n)
	}
	sort.Strings(typeNames)
	nTypes, nMethods := 0, 0
	for _, n := range typeNames {
		tn, ok := scope.Lookup(n).(*types.TypeName)
		if !ok {
			continue
		}
		named, ok := tn.Type().(*types.Named)
		if !ok {
			continue
		}
		st, ok := named.Underlying().(*types.Struct)
		if !ok {
			continue
		}
		for i := 0; i < st.NumFields(); i++ {
			f := st.Field(i)
			if !f.Embedded() {
				continue
			}
			fn, ok := f.Type().(*types.Named)
			if !ok || fn.Obj().Pkg() == nil || fn.Obj().Pkg().Path() != "google.golang.org/protobuf/reflect/protoreflect" {
				continue
			}
			iface, ok := fn.Underlying().(*types.Interface)
			if !ok {
				continue
			}
			id := n + "." + f.Name()
			// placeholder or real delegate?
			placeholder := true
			for _, src := range assignedFrom[f] {
				if !strings.HasPrefix(src, "noOp") {
					placeholder = false
				}
			}
			if !placeholder {
				if why, ok := roRealDelegates[id]; ok {
					w.okTrivial("scope|"+id, f.Pos(), "out of scope, reviewed real delegate: "+why)
				} else {
					w.undecided("scope|"+id, f.Pos(), fmt.Sprintf("embedded %s is assigned from %v, which is neither a noOp placeholder nor a reviewed delegate: decide whether promoted methods may answer for it", fn.Obj().Name(), assignedFrom[f]))
				}
				continue
			}
			nTypes++
			ms := types.NewMethodSet(types.NewPointer(named))
			var promoted []string
			for j := 0; j < iface.NumMethods(); j++ {
				m := iface.Method(j)
				if !m.Exported() || roSealed[m.Name()] {
					continue
				}
				nMethods++
				sel := ms.Lookup(m.Pkg(), m.Name())
				if sel == nil || len(sel.Index()) != 1 {
					promoted = append(promoted, m.Name())
				}
			}
			key := "overrides|" + id
			if len(promoted) == 0 {
				w.ok(key, f.Pos(), fmt.Sprintf("all %d exported methods of protoreflect.%s are declared on %s itself (none is answered by the embedded placeholder)", iface.NumMethods(), fn.Obj().Name(), n))
			} else {
				sort.Strings(promoted)
				w.violation(key, f.Pos(), fmt.Sprintf("%s does not declare %s: calls are answered by the embedded placeholder (%v) — the no-op descriptor's attributes, or a nil-pointer panic — instead of this element's", n, strings.Join(promoted, ", "), assignedFrom[f]))
			}
		}
	}
	w.floor("placeholder-embedding descriptor types in linker", nTypes, 20)
	w.floor("protoreflect interface methods checked", nMethods, 170)
}

// ---- RL: copy-constructor completeness of parser.Clone (C09, C24) ----------------------------

func rlClone(w *World) {
	w.rule("RL")
	p := w.pkg("parser")
	clone := w.fn("parser", "Clone")
	resT := w.typ("parser", "result")
	if p == nil || clone == nil || resT == nil {
		return
	}
	info := p.TypesInfo
	st := resT.Underlying().(*types.Struct)
	sharedOK := map[string]string{
		"file":    "the AST is immutable after parsing and shared by design",
		"ifNoAST": "immutable placeholder node holding only the file name",
	}
	// the copy constructor: Clone and the helpers of clone.go it (transitively) calls that are not
	// the index re-creation functions — e.g. a cloneResult helper extracted from the *result branch
	scopeBodies := []*ast.BlockStmt{clone.Decl.Body}
	{
		seen := map[*types.Func]bool{clone.Obj: true}
		frontier := []*ast.BlockStmt{clone.Decl.Body}
		for depth := 0; depth < 2 && len(frontier) > 0; depth++ {
			var next []*ast.BlockStmt
			for _, fb := range frontier {
				ast.Inspect(fb, func(x ast.Node) bool {
					c, ok := x.(*ast.CallExpr)
					if !ok {
						return true
					}
					f := callee(info, c)
					if f == nil || f.Pkg() != p.Types || seen[f.Origin()] {
						return true
					}
					seen[f.Origin()] = true
					d := w.decls[f.Origin()]
					if d == nil || d.Body == nil || !strings.HasSuffix(w.Fset.Position(d.Pos()).Filename, "clone.go") {
						return true
					}
					if strings.HasPrefix(f.Name(), "recreateNodeIndex") || strings.HasPrefix(f.Name(), "updateNodeIndex") {
						return true
					}
					scopeBodies = append(scopeBodies, d.Body)
					next = append(next, d.Body)
					return true
				})
			}
			frontier = next
		}
	}
	// find composite literals of type result inside the copy constructor
	nLit := 0
	for _, curBody := range scopeBodies {
		ast.Inspect(curBody, func(x ast.Node) bool {
			cl, ok := x.(*ast.CompositeLit)
			if !ok {
				return true
			}
			tv, ok := info.Types[cl]
			if !ok || !types.Identical(tv.Type, resT) {
				return true
			}
			nLit++
			set := map[string]ast.Expr{}
			for _, el := range cl.Elts {
				if kv, ok := el.(*ast.KeyValueExpr); ok {
					set[render(kv.Key)] = kv.Value
				}
			}
			for i := 0; i < st.NumFields(); i++ {
				f := st.Field(i)
				key := "clone-field|result." + f.Name()
				v, ok := set[f.Name()]
				if !ok {
					w.violation(key, cl.Pos(), "parser.Clone's copy does not set result."+f.Name()+": the clone silently loses it (a result without an AST then has no placeholder node and node lookups panic)")
					continue
				}
				// shared or fresh?
				if sel, ok := ast.Unparen(v).(*ast.SelectorExpr); ok && selField(info, sel) == f {
					if why, ok := sharedOK[f.Name()]; ok {
						w.ok(key, kv(v), "shared with the original on purpose: "+why)
					} else {
						w.violation(key, v.Pos(), "result."+f.Name()+" is copied by reference from the original: the clone shares mutable state with it")
					}
					continue
				}
				if c, ok := ast.Unparen(v).(*ast.CallExpr); ok {
					if isBuiltinCall(info, c, "make") || isBuiltinCall(info, c, "new") {
						w.ok(key, v.Pos(), "bound to a fresh value (make/new)")
						continue
					}
				}
				if ta, ok := ast.Unparen(v).(*ast.TypeAssertExpr); ok {
					if c, ok := ast.Unparen(ta.X).(*ast.CallExpr); ok {
						if f := callee(info, c); f != nil && f.Pkg() != nil && f.Pkg().Path() == "google.golang.org/protobuf/proto" && f.Name() == "Clone" {
							w.ok(key, v.Pos(), "bound to a fresh value (proto.Clone)")
							continue
						}
					}
				}
				id, ok := ast.Unparen(v).(*ast.Ident)
				if !ok {
					w.undecided(key, v.Pos(), "cannot classify the value "+render(v)+" as fresh or shared")
					continue
				}
				// definition of the identifier within the function holding the literal
				fresh := ""
				ast.Inspect(curBody, func(y ast.Node) bool {
					switch s := y.(type) {
					case *ast.AssignStmt:
						for j, l := range s.Lhs {
							if lid, ok := l.(*ast.Ident); ok && lid.Name == id.Name && j < len(s.Rhs) {
								var c *ast.CallExpr
								ast.Inspect(s.Rhs[j], func(z ast.Node) bool {
									if cc, ok := z.(*ast.CallExpr); ok && c == nil {
										c = cc
									}
									return c == nil
								})
								if c != nil {
									if f := callee(info, c); f != nil && f.Pkg() != nil && f.Pkg().Path() == "google.golang.org/protobuf/proto" && f.Name() == "Clone" {
										fresh = "proto.Clone"
									}
									if isBuiltinCall(info, c, "make") {
										fresh = "make"
									}
								}
							}
						}
					case *ast.ValueSpec:
						for _, nm := range s.Names {
							if nm.Name == id.Name && len(s.Values) == 0 {
								if fresh == "" {
									fresh = "zero value"
								}
							}
						}
					}
					return true
				})
				if fresh != "" {
					w.ok(key, v.Pos(), "bound to a fresh value ("+fresh+")")
				} else {
					w.violation(key, v.Pos(), "result."+f.Name()+" is set from "+id.Name+", which is not a fresh copy (proto.Clone / make)")
				}
			}
			return true
		})
	}
	w.floor("result literals in parser.Clone", nLit, 1)

	// the original's proto may only be read through proto.Clone or as the read-only origProto argument
	protoF := w.field("parser", "result", "proto")
	recreate := w.fn("parser", "recreateNodeIndexForFile")
	nUses := 0
	for _, curBody := range scopeBodies {
		parents := parentMap(curBody)
		ast.Inspect(curBody, func(x ast.Node) bool {
			isSrc := false
			switch e := x.(type) {
			case *ast.SelectorExpr:
				isSrc = selField(info, e) == protoF
			case *ast.CallExpr:
				if s, ok := ast.Unparen(e.Fun).(*ast.SelectorExpr); ok && s.Sel.Name == "FileDescriptorProto" && len(e.Args) == 0 {
					isSrc = true
				}
			}
			if !isSrc {
				return true
			}
			nUses++
			key := "clone-proto-use|" + render(x.(ast.Expr))
			par := parents[x]
			for {
				if pe, ok := par.(*ast.ParenExpr); ok {
					par = parents[pe]
					continue
				}
				break
			}
			if c, ok := par.(*ast.CallExpr); ok {
				f := callee(info, c)
				if f != nil && f.Pkg() != nil && f.Pkg().Path() == "google.golang.org/protobuf/proto" && f.Name() == "Clone" {
					w.ok(key, x.Pos(), "the original descriptor proto is passed to proto.Clone")
					return true
				}
				if recreate != nil && f == recreate.Obj && len(c.Args) == 4 && c.Args[2] == x {
					w.ok(key, x.Pos(), "read-only origProto argument of recreateNodeIndexForFile")
					return true
				}
			}
			w.violation(key, x.Pos(), "the original result's descriptor proto escapes parser.Clone without being cloned: the copy shares mutable state with the resolver's value, which the linker then mutates")
			return true
		})
	}
	w.floor("uses of the original proto in parser.Clone", nUses, 2)

	// key-kind agreement between the put*Node writers and the clone's index re-creation
	writerKinds := map[string]bool{}
	nodesF := w.field("parser", "result", "nodes")
	for _, f := range p.Syntax {
		if !strings.HasSuffix(w.Fset.Position(f.Pos()).Filename, "result.go") {
			continue
		}
		ast.Inspect(f, func(x ast.Node) bool {
			as, ok := x.(*ast.AssignStmt)
			if !ok {
				return true
			}
			for _, l := range as.Lhs {
				if ix, ok := ast.Unparen(l).(*ast.IndexExpr); ok && selField(info, ix.X) == nodesF {
					if tv, ok := info.Types[ix.Index]; ok {
						writerKinds[tv.Type.String()] = true
					}
				}
			}
			return true
		})
	}
	cloneKinds := map[string]bool{}
	var tpUses []*types.TypeParam
	upd := w.fn("parser", "updateNodeIndex")
	updO := w.fn("parser", "updateNodeIndexWithOptions")
	for _, f := range p.Syntax {
		if !strings.HasSuffix(w.Fset.Position(f.Pos()).Filename, "clone.go") {
			continue
		}
		ast.Inspect(f, func(x ast.Node) bool {
			c, ok := x.(*ast.CallExpr)
			if !ok || len(c.Args) != 4 {
				return true
			}
			fobj := callee(info, c)
			if fobj == nil || upd == nil || updO == nil || (fobj.Origin() != upd.Obj && fobj.Origin() != updO.Obj) {
				return true
			}
			if tv, ok := info.Types[c.Args[2]]; ok {
				if tp, isTP := tv.Type.(*types.TypeParam); !isTP {
					cloneKinds[tv.Type.String()] = true
				} else {
					tpUses = append(tpUses, tp)
				}
			}
			return true
		})
	}
	// a re-indexing call on a value of type-parameter type inside a generic helper of clone.go
	// (other than the two primitives themselves): the kinds are the helper's instantiations
	for _, tp := range tpUses {
		for _, f := range p.Syntax {
			if !strings.HasSuffix(w.Fset.Position(f.Pos()).Filename, "clone.go") {
				continue
			}
			ast.Inspect(f, func(x ast.Node) bool {
				id, ok := x.(*ast.Ident)
				if !ok {
					return true
				}
				inst, ok := info.Instances[id]
				if !ok || inst.TypeArgs == nil {
					return true
				}
				fo, ok := info.Uses[id].(*types.Func)
				if !ok || (upd != nil && fo.Origin() == upd.Obj) || (updO != nil && fo.Origin() == updO.Obj) {
					return true
				}
				sig, ok := fo.Origin().Type().(*types.Signature)
				if !ok || sig.TypeParams() == nil {
					return true
				}
				for i := 0; i < sig.TypeParams().Len() && i < inst.TypeArgs.Len(); i++ {
					if sig.TypeParams().At(i) == tp {
						if _, still := inst.TypeArgs.At(i).(*types.TypeParam); !still {
							cloneKinds[inst.TypeArgs.At(i).String()] = true
						}
					}
				}
				return true
			})
		}
	}
	var all []string
	for k := range writerKinds {
		all = append(all, k)
	}
	for k := range cloneKinds {
		if !writerKinds[k] {
			all = append(all, k)
		}
	}
	sort.Strings(all)
	for _, k := range all {
		short := k[strings.LastIndex(k, ".")+1:]
		key := "node-kind|" + short
		switch {
		case writerKinds[k] && cloneKinds[k]:
			w.ok(key, token.NoPos, "nodes indexed under "+short+" are re-indexed by the clone")
		case writerKinds[k]:
			w.violation(key, clone.Decl.Pos(), "the parser indexes AST nodes under keys of type "+k+" but parser.Clone never re-creates entries of that kind: node lookups on the clone return nil for those elements")
		default:
			w.violation(key, clone.Decl.Pos(), "parser.Clone re-creates index entries of kind "+k+" which the parser never writes")
		}
	}
	w.floor("node-index key kinds", len(writerKinds), 14)
}

func kv(e ast.Expr) token.Pos { return e.Pos() }

// ---- RM: clone-before-link (C09) ----------------------------------------------------------------

func rmCompiler(w *World) {
	w.rule("RM")
	p := w.pkg("")
	apr := w.fn("", "(*task).asParseResult")
	sr := w.typ("", "SearchResult")
	if p == nil || apr == nil || sr == nil {
		return
	}
	info := p.TypesInfo
	st := sr.Underlying().(*types.Struct)
	sources := map[*types.Var]string{}
	for i := 0; i < st.NumFields(); i++ {
		switch st.Field(i).Name() {
		case "ParseResult":
			sources[st.Field(i)] = "parser.Clone"
		case "Proto":
			sources[st.Field(i)] = "proto.Clone"
		}
	}
	if len(sources) != 2 {
		w.undecided("anchor:SearchResult", token.NoPos, "SearchResult no longer has ParseResult and Proto fields")
		return
	}
	n := 0
	for _, fr := range []*FuncRef{apr, w.fn("", "(*task).asFile"), w.fn("", "(*executor).doCompile"), w.fn("", "(*task).asAST")} {
		if fr == nil {
			continue
		}
		parents := parentMap(fr.Decl.Body)
		ast.Inspect(fr.Decl.Body, func(x ast.Node) bool {
			sel, ok := x.(*ast.SelectorExpr)
			if !ok {
				return true
			}
			v := selField(info, sel)
			sanitizer, isSrc := sources[v]
			if !isSrc {
				return true
			}
			n++
			key := fmt.Sprintf("shared-input|%s|%s", fr.Name, render(sel))
			par := parents[x]
			switch pp := par.(type) {
			case *ast.BinaryExpr:
				if (pp.Op == token.EQL || pp.Op == token.NEQ) && (isNilIdent(info, pp.X) || isNilIdent(info, pp.Y)) {
					w.okTrivial(key+"|nil-test", x.Pos(), "nil comparison")
					return true
				}
			case *ast.SelectorExpr:
				// method call on the shared value: only the read-only name getters
				if c, ok := parents[pp].(*ast.CallExpr); ok && c.Fun == ast.Expr(pp) {
					switch pp.Sel.Name {
					case "GetName", "FileDescriptorProto":
						// FileDescriptorProto() result must itself only be used for GetName()
						if pp.Sel.Name == "FileDescriptorProto" {
							if ps, ok := parents[c].(*ast.SelectorExpr); !ok || ps.Sel.Name != "GetName" {
								w.violation(key+"|"+pp.Sel.Name, x.Pos(), "the resolver's parse result's descriptor proto is obtained and used for something other than reading its name")
								return true
							}
						}
						w.ok(key+"|"+pp.Sel.Name, x.Pos(), "read-only name check on the resolver-supplied value")
						return true
					}
				}
			case *ast.CallExpr:
				f := callee(info, pp)
				if f != nil && f.Pkg() != nil && f.Pkg().Name()+"."+f.Name() == sanitizer {
					w.ok(key+"|cloned", x.Pos(), "resolver-supplied value is passed to "+sanitizer+" before anything else sees it")
					return true
				}
			}
			w.violation(key+"|escapes", x.Pos(), "resolver-supplied "+render(sel)+" reaches code other than "+sanitizer+" / a name check: the linker and options interpreter mutate what they are given, so the resolver's value (shared across concurrent compilations) can be modified")
			return true
		})
	}
	w.floor("uses of SearchResult.ParseResult/Proto in the compile path", n, 6)
}

// rl3CloneReadOnly (RL3): the functions in parser/clone.go that re-create the node index only
// write clone.nodes; they never assign into either descriptor proto (proto.Clone already made the
// deep copy) and never skip an element (no continue/break/goto in their loops).
func rl3CloneReadOnly(w *World) {
	w.rule("RL3")
	p := w.pkg("parser")
	nodesF := w.field("parser", "result", "nodes")
	if p == nil || nodesF == nil {
		return
	}
	info := p.TypesInfo
	n := 0
	for _, b := range allFuncBodies(p) {
		if b.Lit != nil || !strings.HasSuffix(w.Fset.Position(b.Decl.Pos()).Filename, "clone.go") || b.Obj.Name() == "Clone" {
			continue
		}
		n++
		bad := 0
		ast.Inspect(b.Body, func(x ast.Node) bool {
			switch s := x.(type) {
			case *ast.AssignStmt:
				for _, l := range s.Lhs {
					e := ast.Unparen(l)
					if ix, ok := e.(*ast.IndexExpr); ok {
						if selField(info, ix.X) == nodesF {
							continue // the one sanctioned write
						}
						e = ix.X
					}
					if sel, ok := e.(*ast.SelectorExpr); ok {
						if tv, ok := info.Types[sel.X]; ok {
							t := tv.Type
							if pt, ok := t.(*types.Pointer); ok {
								t = pt.Elem()
							}
							if nn, ok := t.(*types.Named); ok && nn.Obj().Pkg() != nil && nn.Obj().Pkg().Path() == descpbPath {
								bad++
								w.violation("clone-readonly|"+b.Label+"|"+render(l), l.Pos(), "index re-creation assigns into a descriptor proto ("+render(l)+"): the clone's proto must stay exactly what proto.Clone produced — aliasing or rewriting parts of it breaks the correspondence between clone elements and the original's AST nodes")
							}
						}
					}
				}
			case *ast.CallExpr:
				// append(<repeated field of a descriptor proto>, …) writes into that proto's backing
				// array whenever it has spare capacity — for the original that is storage shared with
				// every other clone of the same result
				if isBuiltinCall(info, s, "append") && len(s.Args) > 0 {
					if sel, ok := ast.Unparen(s.Args[0]).(*ast.SelectorExpr); ok {
						if tv, ok := info.Types[sel.X]; ok {
							t := tv.Type
							if pt, ok := t.(*types.Pointer); ok {
								t = pt.Elem()
							}
							if nn, ok := t.(*types.Named); ok && nn.Obj().Pkg() != nil && nn.Obj().Pkg().Path() == descpbPath {
								bad++
								w.violation("clone-readonly|"+b.Label+"|append "+render(sel), s.Pos(), "index re-creation appends to "+render(sel)+", a repeated field of a descriptor proto: when the slice has spare capacity the elements are written into the proto's own backing array — storage of the original that every concurrent clone of the same result shares (data race, and the original is modified)")
							}
						}
					}
				}
			case *ast.BranchStmt:
				bad++
				w.violation("clone-noskip|"+b.Label, s.Pos(), "a "+s.Tok.String()+" in the index re-creation can skip an element: its AST node is then missing from the clone's index")
			}
			return true
		})
		if bad == 0 {
			w.ok("clone-readonly|"+b.Label, b.Decl.Pos(), "writes only clone.nodes; no assignment into and no append onto a descriptor proto's field; no loop skipping")
		}
	}
	w.floor("index re-creation functions in parser/clone.go", n, 6)
}
