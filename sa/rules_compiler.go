package main

import (
	"fmt"
	"go/ast"
	"go/token"
	"go/types"
	"strings"

	"golang.org/x/tools/go/cfg"
)

// Rules over /repo/compiler.go (package protocompile): C05, C06, C07, C08 (part), C09 (part), C19 (part).

// ---- RA: executor / result ---------------------------------------------------

func raCompiler(w *World) {
	w.rule("RA")
	p := w.pkg("")
	if p == nil {
		return
	}
	guards := []*guard{
		w.mkGuard("", "executor", "results", "mu", false),
		w.mkGuard("", "result", "blockedOn", "mu", false),
	}
	la := w.runGuardedBy(p, guards)
	w.floor("guarded accesses in protocompile (executor.results, result.blockedOn)", len(la.accesses), 5)
	// executor: c,h,s,cancel,sym are set once in the composite literal in Compile before any task
	// starts; descriptorProtoCheck is a sync.Once guarding descriptorProtoIsCustom (checked below).
	raTableComplete(w, "", "executor", []string{"c", "h", "s", "cancel", "sym", "mu", "descriptorProtoCheck", "descriptorProtoIsCustom"}, guards)
	// result: name, ready, explicitFile immutable after construction; res, err are published by
	// closing ready (rule RB).
	raTableComplete(w, "", "result", []string{"name", "ready", "explicitFile", "res", "err", "mu"}, guards)
	raImmutableAfterConstruction(w, "", "executor", []string{"c", "h", "s", "cancel", "sym"})
	raImmutableAfterConstruction(w, "", "result", []string{"name", "ready", "explicitFile"})
	raNoBlockingUnderLock(w, la, "protocompile")
	raOnceField(w)
}

// raImmutableAfterConstruction: the listed fields are never assigned outside composite literals.
func raImmutableAfterConstruction(w *World, rel, typ string, fields []string) {
	p := w.pkg(rel)
	if p == nil {
		return
	}
	set := map[*types.Var]string{}
	for _, f := range fields {
		if v := w.field(rel, typ, f); v != nil {
			set[v] = f
		}
	}
	bad := 0
	for _, file := range p.Syntax {
		ast.Inspect(file, func(n ast.Node) bool {
			var lhs []ast.Expr
			switch s := n.(type) {
			case *ast.AssignStmt:
				lhs = s.Lhs
			case *ast.IncDecStmt:
				lhs = []ast.Expr{s.X}
			case *ast.UnaryExpr:
				if s.Op == token.AND {
					lhs = []ast.Expr{s.X}
				}
			}
			for _, l := range lhs {
				if v := selField(p.TypesInfo, l); v != nil {
					if name, ok := set[v]; ok {
						bad++
						w.violation("immutable|"+typ+"."+name+"|"+w.enclosingFunc(p, l.Pos()), l.Pos(),
							typ+"."+name+" is treated as immutable after construction (read without a lock by concurrent tasks) but is assigned or has its address taken here")
					}
				}
			}
			return true
		})
	}
	if bad == 0 {
		w.ok("immutable|"+typ, token.NoPos, fmt.Sprintf("fields %v of %s are only set in composite literals (never assigned, never address-taken)", fields, typ))
	}
}

// raOnceField: executor.descriptorProtoIsCustom is written only inside the closure passed to
// descriptorProtoCheck.Do and read only after that Do call in the same function.
func raOnceField(w *World) {
	p := w.pkg("")
	fld := w.field("", "executor", "descriptorProtoIsCustom")
	once := w.field("", "executor", "descriptorProtoCheck")
	if p == nil || fld == nil || once == nil {
		return
	}
	info := p.TypesInfo
	n := 0
	for _, b := range allFuncBodies(p) {
		if b.Lit != nil {
			continue
		}
		// find Do call positions and the closures passed to them
		var doPos token.Pos
		inDo := map[*ast.FuncLit]bool{}
		ast.Inspect(b.Body, func(x ast.Node) bool {
			if c, ok := x.(*ast.CallExpr); ok {
				if f := callee(info, c); isFunc(f, "sync", "Once", "Do") && selField(info, recvExpr(c)) == once {
					doPos = c.Pos()
					for _, a := range c.Args {
						if fl, ok := a.(*ast.FuncLit); ok {
							inDo[fl] = true
						}
					}
				}
			}
			return true
		})
		parents := parentMap(b.Body)
		ast.Inspect(b.Body, func(x ast.Node) bool {
			if selField(info, exprOf(x)) != fld {
				return true
			}
			n++
			e := x.(ast.Expr)
			// is it a write?
			isWrite := false
			if as, ok := parents[x].(*ast.AssignStmt); ok {
				for _, l := range as.Lhs {
					if l == e {
						isWrite = true
					}
				}
			}
			inside := false
			for a := parents[x]; a != nil; a = parents[a] {
				if fl, ok := a.(*ast.FuncLit); ok && inDo[fl] {
					inside = true
				}
			}
			key := "once|" + b.Label + "|" + map[bool]string{true: "write", false: "read"}[isWrite]
			switch {
			case isWrite && inside:
				w.ok(key, x.Pos(), "write happens inside the closure run by descriptorProtoCheck.Do")
			case isWrite:
				w.violation(key, x.Pos(), "executor.descriptorProtoIsCustom written outside the sync.Once closure: concurrent tasks read it without a lock")
			case inside || (doPos.IsValid() && doPos < x.Pos()):
				w.ok(key, x.Pos(), "read is ordered after descriptorProtoCheck.Do in the same function")
			default:
				w.violation(key, x.Pos(), "executor.descriptorProtoIsCustom read without a preceding descriptorProtoCheck.Do in this function")
			}
			return true
		})
	}
	w.floor("accesses to executor.descriptorProtoIsCustom", n, 2)
}

func exprOf(n ast.Node) ast.Expr {
	if e, ok := n.(ast.Expr); ok {
		return e
	}
	return nil
}

// ---- RB: publication by close (result.ready) ----------------------------------

func rbCompiler(w *World) {
	w.rule("RB")
	p := w.pkg("")
	if p == nil {
		return
	}
	info := p.TypesInfo
	ready := w.field("", "result", "ready")
	res := w.field("", "result", "res")
	errF := w.field("", "result", "err")
	fail := w.fn("", "(*result).fail")
	complete := w.fn("", "(*result).complete")
	compileLocked := w.fn("", "(*executor).compileLocked")
	if ready == nil || res == nil || errF == nil || fail == nil || complete == nil || compileLocked == nil {
		return
	}
	payload := map[*types.Var]bool{res: true, errF: true}
	completers := map[*types.Func]bool{fail.Obj: true, complete.Obj: true}

	// (i) completers: exactly one payload write followed directly by close(r.ready)
	for _, c := range []*FuncRef{fail, complete} {
		list := c.Decl.Body.List
		okShape := len(list) == 2
		if okShape {
			as, ok1 := list[0].(*ast.AssignStmt)
			es, ok2 := list[1].(*ast.ExprStmt)
			okShape = ok1 && ok2 && len(as.Lhs) == 1 && payload[selField(info, as.Lhs[0])]
			if okShape {
				call, ok := es.X.(*ast.CallExpr)
				okShape = ok && isBuiltinCall(info, call, "close") && len(call.Args) == 1 && selField(info, call.Args[0]) == ready &&
					render(ast.Unparen(call.Args[0]).(*ast.SelectorExpr).X) == render(ast.Unparen(as.Lhs[0]).(*ast.SelectorExpr).X)
			}
		}
		if okShape {
			w.ok("completer|"+c.Name, c.Decl.Pos(), "writes one payload field and then closes ready of the same result, with nothing in between")
		} else {
			w.violation("completer|"+c.Name, c.Decl.Pos(), "completer must be exactly: payload write; close(r.ready) — anything else can publish a half-written result or block between write and close")
		}
	}

	// (ii) every other access to res/err
	writes, reads := 0, 0
	for _, b := range allFuncBodies(p) {
		if b.Lit != nil {
			continue // literals are walked with their declaration (dataflow restarts inside)
		}
		if completers[b.Obj] {
			continue
		}
		w.FuncsSeen[b.Label] = true
		rbBody(w, info, b, b.Body, payload, ready, compileLocked.Obj, &writes, &reads, false)
	}
	w.floor("reads of result.res/err outside the completers", reads, 8)
	// close(ready) only in completers
	for _, b := range allFuncBodies(p) {
		ast.Inspect(b.Body, func(x ast.Node) bool {
			if _, ok := x.(*ast.FuncLit); ok && x != ast.Node(b.Lit) {
				return false
			}
			if c, ok := x.(*ast.CallExpr); ok && isBuiltinCall(info, c, "close") && len(c.Args) == 1 && selField(info, c.Args[0]) == ready {
				if completers[b.Obj] && b.Lit == nil {
					w.okTrivial("close-site|"+b.Label, c.Pos(), "ready is closed in a completer")
				} else {
					w.violation("close-site|"+b.Label, c.Pos(), "result.ready closed outside fail/complete: exactly-once completion can no longer be decided")
				}
			}
			return true
		})
	}
}

func rbBody(w *World, info *types.Info, b bodyRef, body *ast.BlockStmt, payload map[*types.Var]bool, ready *types.Var,
	ownGoroutineDecl *types.Func, writes, reads *int, inGoroutine bool) {
	g := buildCFG(info, body)
	d := &Dataflow{G: g, Must: true, Init: Facts{}}
	d.Transfer = func(n ast.Node, in Facts) Facts {
		out := in
		// an assignment to a variable invalidates facts about it
		if as, ok := n.(*ast.AssignStmt); ok {
			for _, l := range as.Lhs {
				if id, ok := l.(*ast.Ident); ok {
					out = out.without("recv:" + id.Name)
				}
			}
		}
		inspectPost(n, func(x ast.Node) {
			if base, ok := isRecvFrom(info, x, ready); ok {
				out = out.with("recv:" + base)
			}
		})
		return out
	}
	d.Run()
	parents := parentMap(body)
	d.Walk(func(_ *cfg.Block, n ast.Node, before Facts) {
		cur := before
		inspectPost(n, func(x ast.Node) {
			if base, ok := isRecvFrom(info, x, ready); ok {
				cur = cur.with("recv:" + base)
			}
			if fl, ok := x.(*ast.FuncLit); ok {
				_, isGo := n.(*ast.GoStmt)
				rbBody(w, info, b, fl.Body, payload, ready, ownGoroutineDecl, writes, reads, inGoroutine || (isGo && b.Obj == ownGoroutineDecl))
				return
			}
			v := selField(info, exprOf(x))
			if v == nil || !payload[v] {
				return
			}
			sel := ast.Unparen(x.(ast.Expr)).(*ast.SelectorExpr)
			base := render(sel.X)
			isWrite := false
			if as, ok := parents[x].(*ast.AssignStmt); ok {
				for _, l := range as.Lhs {
					if l == x {
						isWrite = true
					}
				}
			}
			key := fmt.Sprintf("%s|%s %s.%s", b.Label, map[bool]string{true: "write", false: "read"}[isWrite], base, v.Name())
			if isWrite {
				*writes++
				w.violation(key, x.Pos(), "result payload written outside fail/complete: a reader woken by close(ready) may observe it torn or miss it")
				return
			}
			*reads++
			switch {
			case cur["recv:"+base]:
				w.ok(key, x.Pos(), "dominated by a receive from "+base+".ready on every path")
			case inGoroutine:
				w.ok(key, x.Pos(), "read in the completing goroutine's own body (program order with its own fail/complete)")
			default:
				w.violation(key, x.Pos(), "read of "+base+"."+v.Name()+" is not dominated by a receive from "+base+".ready: it races with the completing goroutine")
			}
		})
	})
}

// ---- RC: ordering rules in task.asFile / task.link / Compile -------------------

func rcAsFile(w *World) {
	w.rule("RC")
	p := w.pkg("")
	asFile := w.fn("", "(*task).asFile")
	compile := w.fn("", "(*executor).compile")
	check := w.fn("", "(*executor).checkForDependencyCycle")
	setBlocked := w.fn("", "(*result).setBlockedOn")
	ready := w.field("", "result", "ready")
	if p == nil || asFile == nil || compile == nil || check == nil || setBlocked == nil || ready == nil {
		return
	}
	info := p.TypesInfo
	body := asFile.Decl.Body

	// RC1: every result of executor.compile is cycle-checked before any other use.
	g := buildCFG(info, body)
	compileVars := map[string]token.Pos{}
	d := &Dataflow{G: g, Must: false, Init: Facts{}}
	d.Transfer = func(n ast.Node, in Facts) Facts {
		out := in
		inspectPost(n, func(x ast.Node) {
			if c, ok := isCallTo(info, x, check.Obj); ok && len(c.Args) > 0 {
				out = out.without("unchecked:" + render(c.Args[0]))
			}
		})
		if as, ok := n.(*ast.AssignStmt); ok && len(as.Rhs) == 1 && len(as.Lhs) == 1 {
			if _, ok := isCallTo(info, ast.Unparen(as.Rhs[0]), compile.Obj); ok {
				v := render(as.Lhs[0])
				compileVars[v] = as.Pos()
				out = out.with("unchecked:" + v)
			}
		}
		return out
	}
	d.Run()
	nCompile := 0
	ast.Inspect(body, func(x ast.Node) bool {
		if c, ok := isCallTo(info, x, compile.Obj); ok {
			nCompile++
			// the call must be the sole RHS of an assignment to a variable (so that it can be tracked)
			_ = c
		}
		return true
	})
	w.floor("executor.compile calls in task.asFile", nCompile, 2)
	if len(compileVars) != nCompile {
		w.undecided("RC1|asFile|untracked-compile", body.Pos(), fmt.Sprintf("%d compile calls but %d are assigned to a plain variable; the rule tracks results through variables", nCompile, len(compileVars)))
	}
	reported := map[string]bool{}
	usedOK := map[string]bool{}
	d.Walk(func(_ *cfg.Block, n ast.Node, before Facts) {
		cur := before
		parents := parentMap(n)
		inspectPost(n, func(x ast.Node) {
			if c, ok := isCallTo(info, x, check.Obj); ok && len(c.Args) > 0 {
				cur = cur.without("unchecked:" + render(c.Args[0]))
				return
			}
			id, ok := x.(*ast.Ident)
			if !ok {
				return
			}
			if _, tracked := compileVars[id.Name]; !tracked {
				return
			}
			// definition / assignment target itself is not a use
			if as, ok := n.(*ast.AssignStmt); ok {
				for _, l := range as.Lhs {
					if l == ast.Expr(id) {
						return
					}
				}
			}
			// nil comparisons do not touch the result
			if be, ok := parents[id].(*ast.BinaryExpr); ok && (be.Op == token.EQL || be.Op == token.NEQ) && (isNilIdent(info, be.X) || isNilIdent(info, be.Y)) {
				return
			}
			// being the subject of the cycle check is the sanctioned first use
			if c, ok := parents[id].(*ast.CallExpr); ok {
				if _, isCheck := isCallTo(info, c, check.Obj); isCheck && len(c.Args) > 0 && c.Args[0] == ast.Expr(id) {
					return
				}
			}
			if cur["unchecked:"+id.Name] {
				if !reported[id.Name] {
					reported[id.Name] = true
					w.violation("RC1|protocompile.(*task).asFile|use-before-cycle-check:"+id.Name, id.Pos(),
						"result of executor.compile stored in "+id.Name+" is used (stored or awaited) on a path where checkForDependencyCycle has not examined it: a wait on it can deadlock on an import cycle",
						"compile call at "+w.pos(compileVars[id.Name]))
				}
			} else {
				usedOK[id.Name] = true
			}
		})
	})
	for v := range compileVars {
		if !reported[v] {
			w.ok("RC1|protocompile.(*task).asFile|use-before-cycle-check:"+v, compileVars[v], "every use of "+v+" is preceded on all paths by checkForDependencyCycle("+v+", …)")
		}
	}
	// the cycle check's error must abort the task: call sits in `if err := check(...); err != nil { return … }`
	ast.Inspect(body, func(x ast.Node) bool {
		ifs, ok := x.(*ast.IfStmt)
		if !ok || ifs.Init == nil {
			return true
		}
		as, ok := ifs.Init.(*ast.AssignStmt)
		if !ok || len(as.Rhs) != 1 {
			return true
		}
		if _, ok := isCallTo(info, ast.Unparen(as.Rhs[0]), check.Obj); !ok {
			return true
		}
		aborts := false
		if be, ok := ifs.Cond.(*ast.BinaryExpr); ok && be.Op == token.NEQ && render(be.X) == render(as.Lhs[0]) && isNilIdent(info, be.Y) && len(ifs.Body.List) > 0 {
			if _, ok := ifs.Body.List[len(ifs.Body.List)-1].(*ast.ReturnStmt); ok {
				aborts = true
			}
		}
		if aborts {
			w.ok("RC1|asFile|cycle-error-aborts", ifs.Pos(), "a cycle error returned by checkForDependencyCycle ends the task before it waits")
		} else {
			w.violation("RC1|asFile|cycle-error-aborts", ifs.Pos(), "the error of checkForDependencyCycle does not abort the task on this path")
		}
		return true
	})

	isReadyRecv := func(x ast.Node) bool { _, ok := isRecvFrom(info, x, ready); return ok }

	// RC2: the permit is released before any wait on a dependency.
	sem := w.field("", "executor", "s")
	isRelease := func(x ast.Node) bool {
		c, ok := x.(*ast.CallExpr)
		if !ok {
			return false
		}
		if isFunc(callee(info, c), "golang.org/x/sync/semaphore", "Weighted", "Release") && selField(info, recvExpr(c)) == sem {
			return true
		}
		// a release wrapper: a function of the package that releases executor.s and never acquires
		// it (its shape — release iff the permit is held — is RE's obligation)
		if f := callee(info, c); f != nil {
			if d := w.decls[f.Origin()]; d != nil && d.Body != nil && f.Pkg() != nil && f.Pkg().Path() == modPath {
				rel, acq := false, false
				ast.Inspect(d.Body, func(y ast.Node) bool {
					if cc, ok := y.(*ast.CallExpr); ok && selField(info, recvExpr(cc)) == sem {
						if isFunc(callee(info, cc), "golang.org/x/sync/semaphore", "Weighted", "Release") {
							rel = true
						}
						if isFunc(callee(info, cc), "golang.org/x/sync/semaphore", "Weighted", "Acquire") {
							acq = true
						}
					}
					return true
				})
				return rel && !acq
			}
		}
		return false
	}
	nb, bad := mustPrecede(info, body, isRelease, isReadyRecv)
	w.floor("waits on result.ready in task.asFile", nb, 2)
	for _, b := range bad {
		w.violation("RC2|asFile|wait-while-holding-permit", b.Pos(), "a dependency is awaited on a path that has not released the semaphore permit: with parallelism 1 the dependency can never run")
	}
	if len(bad) == 0 {
		w.ok("RC2|asFile|wait-while-holding-permit", body.Pos(), fmt.Sprintf("all %d waits on result.ready are preceded on every path by executor.s.Release", nb))
	}

	// RC8: blockedOn is published (non-nil) before the first compile(dep), and cleared only after the last wait.
	isPublish := func(x ast.Node) bool {
		c, ok := isCallTo(info, x, setBlocked.Obj)
		return ok && len(c.Args) == 1 && !isNilIdent(info, c.Args[0])
	}
	isClear := func(x ast.Node) bool {
		c, ok := isCallTo(info, x, setBlocked.Obj)
		return ok && len(c.Args) == 1 && isNilIdent(info, c.Args[0])
	}
	isCompile := func(x ast.Node) bool { _, ok := isCallTo(info, x, compile.Obj); return ok }
	nb, bad = mustPrecede(info, body, isPublish, isCompile)
	for _, b := range bad {
		w.violation("RC8|asFile|publish-before-compile", b.Pos(), "executor.compile(dep) is reached on a path that has not yet published this task's blockedOn list: two tasks on one cycle can each miss the other and wait forever")
	}
	if len(bad) == 0 && nb > 0 {
		w.ok("RC8|asFile|publish-before-compile", body.Pos(), fmt.Sprintf("setBlockedOn(non-nil) precedes all %d compile(dep) calls on every path", nb))
	}
	// also: the publish must precede the cycle check
	isCheck := func(x ast.Node) bool { _, ok := isCallTo(info, x, check.Obj); return ok }
	nb, bad = mustPrecede(info, body, isPublish, isCheck)
	for _, b := range bad {
		w.violation("RC8|asFile|publish-before-check", b.Pos(), "the cycle check runs before this task has published its own blockedOn list")
	}
	if len(bad) == 0 && nb > 0 {
		w.ok("RC8|asFile|publish-before-check", body.Pos(), "own blockedOn is published before any cycle check")
	}
	// no wait after the clear
	dd := &Dataflow{G: buildCFG(info, body), Must: false, Init: Facts{}}
	dd.Transfer = func(n ast.Node, in Facts) Facts {
		out := in
		inspectPost(n, func(x ast.Node) {
			if isClear(x) {
				out = out.with("cleared")
			}
		})
		return out
	}
	dd.Run()
	clearBad := 0
	nClear := 0
	dd.Walk(func(_ *cfg.Block, n ast.Node, before Facts) {
		inspectPost(n, func(x ast.Node) {
			if isClear(x) {
				nClear++
			}
			if isReadyRecv(x) && before["cleared"] {
				clearBad++
				w.violation("RC8|asFile|wait-after-clear", x.Pos(), "a dependency is awaited after blockedOn was cleared: other tasks can no longer see this wait when they look for cycles")
			}
		})
	})
	if clearBad == 0 {
		w.ok("RC8|asFile|wait-after-clear", body.Pos(), "setBlockedOn(nil) is not followed by any wait")
	}
	w.floor("setBlockedOn(nil) in task.asFile", nClear, 1)

	// RC8b: the published list is the variable that was extended with the implicit descriptor.proto
	// dependency in the same block that decides to await it.
	rc8bImplicitDep(w, info, body, setBlocked.Obj)

	// self-import test precedes compile(dep): the loop body that calls compile has `name == dep` test first
	selfBefore := 0
	ast.Inspect(body, func(x ast.Node) bool {
		rs, ok := x.(*ast.RangeStmt)
		if !ok {
			return true
		}
		hasCompile := false
		ast.Inspect(rs.Body, func(y ast.Node) bool {
			if isCompile(y) {
				hasCompile = true
			}
			return true
		})
		if !hasCompile {
			return true
		}
		isSelfTest := func(y ast.Node) bool {
			be, ok := y.(*ast.BinaryExpr)
			if !ok || be.Op != token.EQL {
				return false
			}
			v := render(rs.Value)
			return (render(be.X) == v || render(be.Y) == v) && (render(be.X) == "name" || render(be.Y) == "name")
		}
		_, bad := mustPrecede(info, rs.Body, isSelfTest, isCompile)
		if len(bad) == 0 {
			selfBefore++
			w.ok("RC1|asFile|self-import-test", rs.Pos(), "the self-import comparison precedes compile(dep) in the import loop")
		} else {
			w.violation("RC1|asFile|self-import-test", bad[0].Pos(), "compile(dep) can be reached without the self-import test: a file importing itself would wait on its own result")
		}
		return true
	})
	w.floor("import loops with a self-import test", selfBefore, 1)
}

func rc8bImplicitDep(w *World, info *types.Info, body *ast.BlockStmt, setBlocked *types.Func) {
	// names are taken from the code: the published list is setBlockedOn's argument; the implicit
	// dependency is the constant path handed to compile(ctx, <const>); the flag is the boolean
	// identifier that guards that compile call
	var publishArg string
	var publishPos token.Pos
	ast.Inspect(body, func(x ast.Node) bool {
		if c, ok := isCallTo(info, x, setBlocked); ok && len(c.Args) == 1 && !isNilIdent(info, c.Args[0]) {
			publishArg = render(c.Args[0])
			publishPos = c.Pos()
		}
		return true
	})
	parents := parentMap(body)
	implicitPath, flag := "", ""
	ast.Inspect(body, func(x ast.Node) bool {
		c, ok := x.(*ast.CallExpr)
		if !ok || len(c.Args) != 2 {
			return true
		}
		sel, ok := ast.Unparen(c.Fun).(*ast.SelectorExpr)
		if !ok || sel.Sel.Name != "compile" {
			return true
		}
		tv, ok := info.Types[c.Args[1]]
		if !ok || tv.Value == nil {
			return true
		}
		implicitPath = render(c.Args[1])
		for cur := parents[c]; cur != nil; cur = parents[cur] {
			if ifs, ok := cur.(*ast.IfStmt); ok {
				if id, ok := ast.Unparen(ifs.Cond).(*ast.Ident); ok {
					if bt, ok := info.TypeOf(id).Underlying().(*types.Basic); ok && bt.Kind() == types.Bool {
						flag = id.Name
						break
					}
				}
			}
		}
		return true
	})
	if implicitPath == "" {
		w.ok("RC8|asFile|implicit-dep-published", body.Pos(), "asFile compiles no dependency by a constant path: there is no implicit dependency to publish")
		return
	}
	if flag == "" || publishArg == "" {
		w.undecided("RC8|asFile|implicit-dep-published", body.Pos(), "the implicit dependency "+implicitPath+" is compiled, but the boolean that guards it or the published list cannot be identified")
		return
	}
	// Dataflow formulation: at the publication setBlockedOn(L), on every path, either the flag is
	// known to be false or L holds the path. "safe" is that disjunction kept as one fact so that it
	// survives joins of paths that are safe for different reasons. L holds the path after
	// L = append(…, path), L = X where X[…] = path was stored / X was built so, or L = helper(…,
	// path) for a helper of the package that stores its parameter into the slice it returns.
	helperStores := func(c *ast.CallExpr) bool {
		f := callee(info, c)
		if f == nil {
			return false
		}
		d := w.decls[f.Origin()]
		if d == nil || d.Body == nil || d.Type.Params == nil {
			return false
		}
		pi := -1
		for k, a := range c.Args {
			if render(a) == implicitPath {
				pi = k
			}
		}
		if pi < 0 {
			return false
		}
		pname, k := "", 0
		for _, fld := range d.Type.Params.List {
			for _, nm := range fld.Names {
				if k == pi {
					pname = nm.Name
				}
				k++
			}
		}
		if pname == "" {
			return false
		}
		held := map[string]bool{}
		ret := false
		ast.Inspect(d.Body, func(y ast.Node) bool {
			switch t := y.(type) {
			case *ast.AssignStmt:
				for q, l := range t.Lhs {
					if q >= len(t.Rhs) {
						continue
					}
					r := ast.Unparen(t.Rhs[q])
					if ix, ok := ast.Unparen(l).(*ast.IndexExpr); ok && render(r) == pname {
						held[render(ix.X)] = true
					}
					if ac, ok := r.(*ast.CallExpr); ok && isBuiltinCall(info, ac, "append") {
						for _, a := range ac.Args[1:] {
							if render(a) == pname {
								held[render(l)] = true
							}
						}
					}
				}
			case *ast.ReturnStmt:
				for _, r := range t.Results {
					if held[render(r)] {
						ret = true
					}
					if ac, ok := ast.Unparen(r).(*ast.CallExpr); ok && isBuiltinCall(info, ac, "append") {
						for _, a := range ac.Args[1:] {
							if render(a) == pname {
								ret = true
							}
						}
					}
				}
			}
			return true
		})
		return ret
	}
	g := buildCFG(info, body)
	d := &Dataflow{G: g, Must: true, Init: Facts{}}
	d.Transfer = func(n ast.Node, in Facts) Facts {
		out := in
		// go/cfg lists each var ValueSpec as its own node
		if vs, ok := n.(*ast.ValueSpec); ok {
			for k, nm := range vs.Names {
				if nm.Name != flag {
					continue
				}
				if len(vs.Values) == 0 || (k < len(vs.Values) && render(vs.Values[k]) == "false") {
					out = out.with("flagfalse").with("safe")
				} else {
					out = out.without("flagfalse")
					if !out["holds:"+publishArg] {
						out = out.without("safe")
					}
				}
			}
			return out
		}
		as, ok := n.(*ast.AssignStmt)
		if !ok {
			return out
		}
		for q, l := range as.Lhs {
			if q >= len(as.Rhs) {
				continue
			}
			r := ast.Unparen(as.Rhs[q])
			lr := render(l)
			holdsPath := false
			if ac, ok := r.(*ast.CallExpr); ok {
				if isBuiltinCall(info, ac, "append") {
					for _, a := range ac.Args[1:] {
						if render(a) == implicitPath {
							holdsPath = true
						}
					}
					if len(ac.Args) > 0 && out["holds:"+render(ac.Args[0])] {
						holdsPath = true
					}
				} else if helperStores(ac) {
					holdsPath = true
				}
			}
			if out["holds:"+render(r)] {
				holdsPath = true
			}
			if ix, ok := ast.Unparen(l).(*ast.IndexExpr); ok {
				if render(r) == implicitPath {
					out = out.with("holds:" + render(ix.X))
					if render(ix.X) == publishArg {
						out = out.with("safe")
					}
				}
				continue
			}
			if lr == flag {
				if render(r) == "false" {
					out = out.with("flagfalse").with("safe")
				} else {
					out = out.without("flagfalse")
					if !out["holds:"+publishArg] {
						out = out.without("safe")
					}
				}
				continue
			}
			if holdsPath {
				out = out.with("holds:" + lr)
				if lr == publishArg {
					out = out.with("safe")
				}
			} else if out["holds:"+lr] || lr == publishArg {
				out = out.without("holds:" + lr)
				if lr == publishArg && !out["flagfalse"] {
					out = out.without("safe")
				}
			}
		}
		return out
	}
	d.Branch = func(leaf ast.Expr, truth bool, st Facts) Facts {
		if id, ok := ast.Unparen(leaf).(*ast.Ident); ok && id.Name == flag {
			if !truth {
				return st.with("flagfalse").with("safe")
			}
			return st.without("flagfalse")
		}
		return st
	}
	d.Run()
	found := false
	d.Walk(func(_ *cfg.Block, n ast.Node, before Facts) {
		hit := false
		ast.Inspect(n, func(y ast.Node) bool {
			if c, ok := isCallTo(info, y, setBlocked); ok && c.Pos() == publishPos {
				hit = true
			}
			return true
		})
		if !hit || found {
			return
		}
		found = true
		if before["safe"] {
			w.ok("RC8|asFile|implicit-dep-published", publishPos, "on every path to setBlockedOn("+publishArg+") either "+flag+" is false or the list was extended with the implicit "+implicitPath)
		} else {
			w.violation("RC8|asFile|implicit-dep-published", publishPos, "the block that can set "+flag+" (the implicit "+implicitPath+" will be compiled and awaited) does not extend the list passed to setBlockedOn ('"+publishArg+"') with that path: the wait is invisible to other tasks' cycle checks, so a cycle that closes through the implicit dependency is not reported and both tasks wait forever")
		}
	})
	if !found {
		w.undecided("RC8|asFile|implicit-dep-published", body.Pos(), "the publication setBlockedOn("+publishArg+") is not reachable in asFile's control-flow graph")
	}
}

// RC9 (C19): unused-import warnings only after options were interpreted and validated, explicit files only.
func rcLink(w *World) {
	w.rule("RC")
	p := w.pkg("")
	link := w.fn("", "(*task).link")
	if p == nil || link == nil {
		return
	}
	info := p.TypesInfo
	body := link.Decl.Body
	byName := func(pkgPath, recv, name string) func(ast.Node) bool {
		return func(x ast.Node) bool {
			c, ok := x.(*ast.CallExpr)
			return ok && isFunc(callee(info, c), pkgPath, recv, name)
		}
	}
	isUnused := func(x ast.Node) bool {
		c, ok := x.(*ast.CallExpr)
		if !ok {
			return false
		}
		f := callee(info, c)
		return f != nil && f.Name() == "CheckForUnusedImports"
	}
	isValidate := func(x ast.Node) bool {
		c, ok := x.(*ast.CallExpr)
		if !ok {
			return false
		}
		f := callee(info, c)
		return f != nil && f.Name() == "ValidateOptions"
	}
	for name, isA := range map[string]func(ast.Node) bool{
		"linker.Link":              byName(modPath+"/linker", "", "Link"),
		"options.InterpretOptions": byName(modPath+"/options", "", "InterpretOptions"),
		"ValidateOptions":          isValidate,
	} {
		nb, bad := mustPrecede(info, body, isA, isUnused)
		if nb == 0 {
			w.undecided("RC9|link|"+name, body.Pos(), "no CheckForUnusedImports call found in task.link")
			continue
		}
		if len(bad) == 0 {
			w.ok("RC9|link|unused-after:"+name, body.Pos(), "CheckForUnusedImports is preceded by "+name+" on every path (imports used only by options are marked before the warning is computed)")
		} else {
			w.violation("RC9|link|unused-after:"+name, bad[0].Pos(), "CheckForUnusedImports can run before "+name+": imports needed only by later stages would be reported as unused")
		}
	}
	// guarded by explicitFile
	explicit := w.field("", "result", "explicitFile")
	g := buildCFG(info, body)
	d := &Dataflow{G: g, Must: true, Init: Facts{}, Transfer: func(n ast.Node, in Facts) Facts { return in }}
	d.Branch = func(leaf ast.Expr, truth bool, s Facts) Facts {
		if truth && selField(info, leaf) == explicit {
			return s.with("explicit")
		}
		return s
	}
	d.Run()
	d.Walk(func(_ *cfg.Block, n ast.Node, before Facts) {
		inspectPost(n, func(x ast.Node) {
			if isUnused(x) {
				if before["explicit"] {
					w.ok("RC9|link|explicit-only", x.Pos(), "CheckForUnusedImports is reached only on the true branch of t.r.explicitFile")
				} else {
					w.violation("RC9|link|explicit-only", x.Pos(), "CheckForUnusedImports is reachable for files that were not explicitly requested")
				}
			}
		})
	})
	// errors accumulated by the handler end the task before source info is generated
	isHErr := func(x ast.Node) bool {
		c, ok := x.(*ast.CallExpr)
		return ok && isFunc(callee(info, c), modPath+"/reporter", "Handler", "Error")
	}
	isOKReturn := func(x ast.Node) bool {
		r, ok := x.(*ast.ReturnStmt)
		return ok && len(r.Results) == 2 && isNilIdent(info, r.Results[1])
	}
	nb, bad := mustPrecede(info, body, isHErr, isOKReturn)
	if nb > 0 && len(bad) == 0 {
		w.ok("RC5|link|success-after-handler-check", body.Pos(), "task.link returns success only after consulting the task handler's Error()")
	} else {
		w.violation("RC5|link|success-after-handler-check", body.Pos(), "task.link can return a file without consulting the handler's accumulated error")
	}
}

// RC5 (C08): Compile returns its descriptors with a nil error only through h.Error() == nil.
func rcCompile(w *World) {
	w.rule("RC")
	p := w.pkg("")
	comp := w.fn("", "(*Compiler).Compile")
	if p == nil || comp == nil {
		return
	}
	info := p.TypesInfo
	body := comp.Decl.Body
	g := buildCFG(info, body)
	// fact "herr-nil": h.Error() was called and its result compared != nil on the false edge
	d := &Dataflow{G: g, Must: true, Init: Facts{}}
	d.Transfer = func(n ast.Node, in Facts) Facts {
		out := in
		if as, ok := n.(*ast.AssignStmt); ok && len(as.Rhs) == 1 && len(as.Lhs) == 1 {
			if c, ok := ast.Unparen(as.Rhs[0]).(*ast.CallExpr); ok && isFunc(callee(info, c), modPath+"/reporter", "Handler", "Error") {
				return out.with("herr:" + render(as.Lhs[0]))
			}
			out = out.without("herr:" + render(as.Lhs[0]))
		}
		return out
	}
	d.Branch = func(leaf ast.Expr, truth bool, s Facts) Facts {
		if be, ok := leaf.(*ast.BinaryExpr); ok && isNilIdent(info, be.Y) && s["herr:"+render(be.X)] {
			if (be.Op == token.NEQ && !truth) || (be.Op == token.EQL && truth) {
				return s.with("handler-clean")
			}
		}
		return s
	}
	d.Run()
	n := 0
	d.Walk(func(_ *cfg.Block, nd ast.Node, before Facts) {
		r, ok := nd.(*ast.ReturnStmt)
		if !ok || len(r.Results) != 2 {
			return
		}
		// returns that may carry a nil error together with descriptors
		if isNilIdent(info, r.Results[0]) {
			return // (nil, x): no descriptors
		}
		n++
		key := "RC5|Compile|return " + render(r.Results[0]) + ", " + render(r.Results[1])
		if before["handler-clean"] {
			w.ok(key, r.Pos(), "reached only after h.Error() returned nil")
			return
		}
		if s := "herr:" + render(r.Results[1]); before[s] {
			w.ok(key, r.Pos(), "returns the handler's own error")
			return
		}
		w.violation(key, r.Pos(), "Compile can return descriptors here without having established that the handler reported no error: a reported error could be lost and the compilation appear successful")
	})
	w.floor("descriptor-carrying returns in Compile", n, 2)
	// defer cancel() so stragglers unblock
	hasDeferCancel := false
	for _, st := range body.List {
		if ds, ok := st.(*ast.DeferStmt); ok && render(ds.Call.Fun) == "cancel" {
			hasDeferCancel = true
		}
	}
	if hasDeferCancel {
		w.ok("RC5|Compile|defer-cancel", body.Pos(), "Compile defers cancel() of the derived context: every task blocked in a ctx-select unblocks when Compile returns")
	} else {
		w.violation("RC5|Compile|defer-cancel", body.Pos(), "Compile does not defer cancel(): tasks waiting on dependencies leak after an early return")
	}
}

// ---- RD: exactly-once completion of a result -----------------------------------

func rdCompiler(w *World) {
	w.rule("RD")
	p := w.pkg("")
	do := w.fn("", "(*executor).doCompile")
	fail := w.fn("", "(*result).fail")
	complete := w.fn("", "(*result).complete")
	release := w.fn("", "(*task).release")
	if p == nil || do == nil || fail == nil || complete == nil || release == nil {
		return
	}
	info := p.TypesInfo
	body := do.Decl.Body
	isDone := func(x ast.Node) bool {
		if _, ok := isCallTo(info, x, fail.Obj); ok {
			return true
		}
		_, ok := isCallTo(info, x, complete.Obj)
		return ok
	}
	g := buildCFG(info, body)
	d := &Dataflow{G: g, Must: false, Init: Facts{"open": true}}
	d.Transfer = func(n ast.Node, in Facts) Facts {
		if _, ok := n.(*ast.DeferStmt); ok {
			return in
		}
		out := in
		inspectPost(n, func(x ast.Node) {
			if isDone(x) {
				out = Facts{"done": true}
			}
		})
		return out
	}
	d.Run()
	transitions, bad := 0, 0
	d.Walk(func(_ *cfg.Block, n ast.Node, before Facts) {
		if ds, ok := n.(*ast.DeferStmt); ok {
			// deferred work runs after the transition: only the table of static, non-user callees may run there
			okDefer := false
			if c, ok := isCallTo(info, ds.Call, release.Obj); ok && c != nil {
				okDefer = true
			}
			if okDefer {
				w.ok("doCompile|deferred:"+render(ds.Call.Fun), ds.Pos(), "deferred (*task).release runs after completion; it only calls semaphore.Release (static, non-user callee; pairing is rule RE)")
			} else {
				bad++
				w.violation("doCompile|deferred:"+render(ds.Call.Fun), ds.Pos(), "a deferred call other than (*task).release runs after the result was completed: if it panics (e.g. a resolver-supplied Close), the recover handler completes the result a second time (close of closed channel)")
			}
			return
		}
		cur := before
		inspectPost(n, func(x ast.Node) {
			if isDone(x) {
				transitions++
				if cur["done"] {
					bad++
					w.violation("doCompile|double-completion", x.Pos(), "a result transition (fail/complete) is reachable after another one")
				}
				cur = Facts{"done": true}
				return
			}
			if c, ok := x.(*ast.CallExpr); ok && cur["done"] {
				bad++
				w.violation("doCompile|call-after-completion:"+render(c.Fun), c.Pos(), "call executed after the result was completed; a panic here reaches the recover handler, which would complete the result again")
			}
		})
	})
	for _, e := range d.Exits(info, body.End()) {
		if e.State["open"] {
			bad++
			w.violation("doCompile|exit-without-completion", e.Pos, "doCompile can return without fail/complete: every task waiting on this result blocks until the context ends")
		}
	}
	w.floor("result transitions in doCompile", transitions, 4)
	if bad == 0 {
		w.ok("doCompile|exactly-once", body.Pos(), fmt.Sprintf("every path through doCompile performs exactly one of %d fail/complete transitions and executes no call afterwards except the deferred (*task).release", transitions))
	}
}

// ---- RG: goroutine containment ---------------------------------------------------

func rgCompiler(w *World) {
	w.rule("RG")
	p := w.pkg("")
	fail := w.fn("", "(*result).fail")
	if p == nil || fail == nil {
		return
	}
	info := p.TypesInfo
	n := 0
	for _, b := range allFuncBodies(p) {
		if b.Lit != nil {
			continue
		}
		ast.Inspect(b.Body, func(x ast.Node) bool {
			gs, ok := x.(*ast.GoStmt)
			if !ok {
				return true
			}
			n++
			key := "go|" + b.Label
			fl, ok := gs.Call.Fun.(*ast.FuncLit)
			if !ok || len(fl.Body.List) == 0 {
				w.violation(key, gs.Pos(), "goroutine body is not a function literal that installs a recover handler first")
				return true
			}
			ds, ok := fl.Body.List[0].(*ast.DeferStmt)
			var dl *ast.FuncLit
			if ok {
				dl, _ = ds.Call.Fun.(*ast.FuncLit)
			}
			if dl == nil {
				w.violation(key, gs.Pos(), "the first statement of the goroutine is not `defer func(){ … recover() … }()`: a panic in a resolver would crash the process")
				return true
			}
			// recover() != nil branch must reach r.fail
			g := buildCFG(info, dl.Body)
			d := &Dataflow{G: g, Must: true, Init: Facts{}}
			d.Transfer = func(nd ast.Node, in Facts) Facts {
				if as, ok := nd.(*ast.AssignStmt); ok && len(as.Rhs) == 1 {
					if c, ok := as.Rhs[0].(*ast.CallExpr); ok && isBuiltinCall(info, c, "recover") {
						return in.with("rec:" + render(as.Lhs[0]))
					}
				}
				return in
			}
			d.Branch = func(leaf ast.Expr, truth bool, s Facts) Facts {
				if be, ok := leaf.(*ast.BinaryExpr); ok && be.Op == token.NEQ && truth && isNilIdent(info, be.Y) && s["rec:"+render(be.X)] {
					return s.with("panicked")
				}
				return s
			}
			d.Run()
			reaches := false
			carriesValue := false
			d.Walk(func(_ *cfg.Block, nd ast.Node, before Facts) {
				inspectPost(nd, func(y ast.Node) {
					if _, ok := isCallTo(info, y, fail.Obj); ok && before["panicked"] {
						reaches = true
					}
					if cl, ok := y.(*ast.CompositeLit); ok && before["panicked"] {
						if tv, ok := info.Types[cl]; ok && strings.HasSuffix(tv.Type.String(), ".PanicError") {
							for _, el := range cl.Elts {
								if kv, ok := el.(*ast.KeyValueExpr); ok && render(kv.Key) == "Value" {
									for f := range before {
										if strings.HasPrefix(f, "rec:") && render(kv.Value) == strings.TrimPrefix(f, "rec:") {
											carriesValue = true
										}
									}
								}
							}
						}
					}
				})
			})
			if reaches && carriesValue {
				w.ok(key, gs.Pos(), "goroutine installs a deferred recover whose non-nil branch fails the result with a PanicError carrying the recovered value")
			} else {
				w.violation(key, gs.Pos(), fmt.Sprintf("recover handler does not both reach (*result).fail (%v) and build a PanicError whose Value is the recovered value (%v)", reaches, carriesValue))
			}
			return true
		})
	}
	w.floor("go statements in package protocompile", n, 1)
	if n > 1 {
		w.info("go-count", token.NoPos, fmt.Sprintf("%d go statements", n))
	}
}

// ---- RE: semaphore pairing (stable compiler) -------------------------------------

func reCompiler(w *World) {
	w.rule("RE")
	p := w.pkg("")
	asFile := w.fn("", "(*task).asFile")
	do := w.fn("", "(*executor).doCompile")
	rel := w.fn("", "(*task).release")
	link := w.fn("", "(*task).link")
	sem := w.field("", "executor", "s")
	released := w.field("", "task", "released")
	if p == nil || asFile == nil || do == nil || rel == nil || link == nil || sem == nil || released == nil {
		return
	}
	info := p.TypesInfo
	semCall := func(x ast.Node, name string) bool {
		c, ok := x.(*ast.CallExpr)
		return ok && isFunc(callee(info, c), "golang.org/x/sync/semaphore", "Weighted", name) && selField(info, recvExpr(c)) == sem
	}
	// wrappers: methods other than doCompile/asFile that touch executor.s directly. A release
	// wrapper must have the idempotent shape `if !t.released { Release; t.released = true }`
	// (afterwards: permit not held, flag true). An acquire wrapper is summarised: the value it
	// leaves in the flag when the Acquire succeeded and when it failed.
	type acqSummary struct{ succ, fail string } // "true" | "false" | "same" | "?"
	relWrappers := map[*types.Func]bool{}
	acqWrappers := map[*types.Func]acqSummary{}
	idempotentRelease := func(decl *ast.FuncDecl) bool {
		if len(decl.Body.List) != 1 {
			return false
		}
		ifs, ok := decl.Body.List[0].(*ast.IfStmt)
		if !ok || ifs.Else != nil {
			return false
		}
		ue, ok := ifs.Cond.(*ast.UnaryExpr)
		if !ok || ue.Op != token.NOT || selField(info, ue.X) != released {
			return false
		}
		hasRel, hasSet := false, false
		for _, st := range ifs.Body.List {
			ast.Inspect(st, func(y ast.Node) bool {
				if semCall(y, "Release") {
					hasRel = true
				}
				return true
			})
			if as, ok := st.(*ast.AssignStmt); ok && len(as.Lhs) == 1 && selField(info, as.Lhs[0]) == released && render(as.Rhs[0]) == "true" {
				hasSet = true
			}
		}
		return hasRel && hasSet
	}
	flagTransfer := func(n ast.Node, out Facts) (Facts, bool) {
		if as, ok := n.(*ast.AssignStmt); ok && len(as.Lhs) == 1 && len(as.Rhs) == 1 && selField(info, as.Lhs[0]) == released {
			switch render(as.Rhs[0]) {
			case "true":
				return out.without("flag=false").with("flag=true"), true
			case "false":
				return out.without("flag=true").with("flag=false"), true
			default:
				return out.without("flag=true").without("flag=false").with("flag=?"), true
			}
		}
		return out, false
	}
	nAcq, nRel := 0, 0
	for _, b := range allFuncBodies(p) {
		if b.Lit != nil {
			continue
		}
		hasA, hasR := false, false
		var firstPos token.Pos
		ast.Inspect(b.Body, func(x ast.Node) bool {
			if semCall(x, "Acquire") {
				hasA = true
				if firstPos == token.NoPos {
					firstPos = x.Pos()
				}
			}
			if semCall(x, "Release") {
				hasR = true
				if firstPos == token.NoPos {
					firstPos = x.Pos()
				}
			}
			return true
		})
		if !hasA && !hasR {
			continue
		}
		if b.Obj == asFile.Obj || b.Obj == do.Obj {
			ast.Inspect(b.Body, func(x ast.Node) bool {
				if semCall(x, "Acquire") {
					nAcq++
				}
				if semCall(x, "Release") {
					nRel++
				}
				return true
			})
			continue
		}
		switch {
		case hasR && !hasA:
			if idempotentRelease(b.Decl) {
				relWrappers[b.Obj] = true
				w.ok("release-idempotent|"+b.Label, b.Decl.Pos(), b.Label+" releases iff !released and then records released = true")
			} else {
				w.violation("release-idempotent|"+b.Label, b.Decl.Pos(), b.Label+" releases executor.s but is not of the form `if !t.released { Release(1); t.released = true }`: double release panics, missing release leaks a permit")
			}
		case hasA && !hasR:
			// summary by dataflow over the wrapper body
			g := buildCFG(info, b.Body)
			d := &Dataflow{G: g, Must: true, Init: Facts{}}
			d.Transfer = func(n ast.Node, in Facts) Facts {
				out, done := flagTransfer(n, in)
				if done {
					return out
				}
				if as, ok := n.(*ast.AssignStmt); ok && len(as.Lhs) == 1 && len(as.Rhs) == 1 {
					if c, ok := ast.Unparen(as.Rhs[0]).(*ast.CallExpr); ok && semCall(c, "Acquire") {
						return out.with("acq:" + render(as.Lhs[0]))
					}
				}
				return out
			}
			d.Branch = func(leaf ast.Expr, truth bool, st Facts) Facts {
				if be, ok := leaf.(*ast.BinaryExpr); ok && isNilIdent(info, be.Y) && st["acq:"+render(be.X)] {
					st = st.without("acq:" + render(be.X))
					if (be.Op == token.NEQ && !truth) || (be.Op == token.EQL && truth) {
						return st.with("held")
					}
					return st.with("failed")
				}
				return st
			}
			d.Run()
			flagOf := func(st Facts) string {
				switch {
				case st["flag=true"]:
					return "true"
				case st["flag=false"]:
					return "false"
				case st["flag=?"]:
					return "?"
				}
				return "same"
			}
			merge := func(old, nw string) string {
				if old == "" || old == nw {
					return nw
				}
				return "?"
			}
			sum := acqSummary{}
			okShape := true
			for _, e := range d.Exits(info, b.Body.End()) {
				fl := flagOf(e.State)
				r, isRet := e.Last.(*ast.ReturnStmt)
				switch {
				case isRet && len(r.Results) == 1 && semCall(ast.Unparen(r.Results[0]), "Acquire"):
					sum.succ, sum.fail = merge(sum.succ, fl), merge(sum.fail, fl)
				case e.State["held"]:
					sum.succ = merge(sum.succ, fl)
				case e.State["failed"]:
					sum.fail = merge(sum.fail, fl)
				default:
					okShape = false
				}
			}
			if !okShape || sum.succ == "" {
				w.undecided("sem-wrapper|"+b.Label, b.Decl.Pos(), b.Label+" acquires executor.s on some paths only; the permit protocol cannot be summarised")
			} else {
				acqWrappers[b.Obj] = sum
				w.ok("sem-wrapper|"+b.Label, b.Decl.Pos(), fmt.Sprintf("%s acquires the permit; released flag afterwards: %s on success, %s on failure", b.Label, sum.succ, sum.fail))
			}
		default:
			w.violation("sem-site|"+b.Label, firstPos, "executor.s is both acquired and released in "+b.Label+", outside doCompile/asFile: the permit protocol is decided for those two functions and for pure acquire/release wrappers only")
		}
	}
	isAcqWrapperCall := func(x ast.Node) (*types.Func, bool) {
		c, ok := x.(*ast.CallExpr)
		if !ok {
			return nil, false
		}
		f := callee(info, c)
		if f == nil {
			return nil, false
		}
		_, is := acqWrappers[f]
		return f, is
	}
	isRelWrapperCall := func(x ast.Node) bool {
		c, ok := x.(*ast.CallExpr)
		if !ok {
			return false
		}
		f := callee(info, c)
		return f != nil && relWrappers[f]
	}
	// wrapper calls count as sites; they may only be made from doCompile/asFile
	for _, b := range allFuncBodies(p) {
		if b.Lit != nil {
			continue
		}
		ast.Inspect(b.Body, func(x ast.Node) bool {
			_, isA := isAcqWrapperCall(x)
			isR := isRelWrapperCall(x)
			if !isA && !isR {
				return true
			}
			if isA {
				nAcq++
			} else {
				nRel++
			}
			if b.Obj != asFile.Obj && b.Obj != do.Obj {
				w.violation("sem-site|"+b.Label, x.Pos(), "the permit of executor.s is acquired/released (through a wrapper) outside doCompile/asFile: the permit protocol is decided for those two functions only")
			}
			return true
		})
	}
	w.floor("Acquire sites on executor.s", nAcq, 2)
	w.floor("Release sites on executor.s", nRel, 2)
	if len(relWrappers) == 0 {
		w.info("release-wrapper|none", token.NoPos, "no release wrapper: every release is inline")
	}
	_ = rel

	// doCompile: Acquire failure fails the result and returns before `defer t.release()`
	{
		body := do.Decl.Body
		isAcq := func(x ast.Node) bool {
			if semCall(x, "Acquire") {
				return true
			}
			_, is := isAcqWrapperCall(x)
			return is
		}
		isDeferRel := func(x ast.Node) bool {
			ds, ok := x.(*ast.DeferStmt)
			if !ok {
				return false
			}
			return isRelWrapperCall(ds.Call)
		}
		nb, bad := mustPrecede(info, body, isAcq, isDeferRel)
		if nb == 1 && len(bad) == 0 {
			w.ok("doCompile|acquire-then-defer-release", body.Pos(), "doCompile acquires the permit before registering the deferred release")
		} else {
			w.violation("doCompile|acquire-then-defer-release", body.Pos(), "doCompile does not register exactly one deferred (*task).release after acquiring the permit")
		}
		// between the Acquire and the defer there is no call except the failure path
		resolverCallBeforeDefer := false
		deferPos := token.NoPos
		ast.Inspect(body, func(x ast.Node) bool {
			if isDeferRel(x) {
				deferPos = x.Pos()
			}
			return true
		})
		var acqPos token.Pos
		ast.Inspect(body, func(x ast.Node) bool {
			if isAcq(x) {
				acqPos = x.Pos()
			}
			return true
		})
		ast.Inspect(body, func(x ast.Node) bool {
			if c, ok := x.(*ast.CallExpr); ok && c.Pos() > acqPos && c.End() < deferPos {
				f := callee(info, c)
				if f == nil || (f.Name() != "fail") {
					resolverCallBeforeDefer = true
				}
			}
			return true
		})
		if resolverCallBeforeDefer {
			w.violation("doCompile|nothing-between-acquire-and-defer", acqPos, "a call other than r.fail sits between acquiring the permit and deferring its release: a panic there leaks the permit")
		} else {
			w.ok("doCompile|nothing-between-acquire-and-defer", acqPos, "only the failure path separates Acquire from `defer t.release()`")
		}
	}

	// asFile: flag mirrors holding; link reached only when held
	{
		body := asFile.Decl.Body
		g := buildCFG(info, body)
		d := &Dataflow{G: g, Must: true, Init: Facts{"held": true, "flag=false": true}}
		d.Transfer = func(n ast.Node, in Facts) Facts {
			out := in
			if as, ok := n.(*ast.AssignStmt); ok {
				if len(as.Lhs) == 1 && len(as.Rhs) == 1 {
					if selField(info, as.Lhs[0]) == released {
						switch render(as.Rhs[0]) {
						case "true":
							return out.without("flag=false").with("flag=true")
						case "false":
							return out.without("flag=true").with("flag=false")
						default:
							return out.without("flag=true").without("flag=false")
						}
					}
					if c, ok := ast.Unparen(as.Rhs[0]).(*ast.CallExpr); ok && semCall(c, "Acquire") {
						return out.with("acq:" + render(as.Lhs[0])).without("held")
					}
					if c, ok := ast.Unparen(as.Rhs[0]).(*ast.CallExpr); ok {
						if f, is := isAcqWrapperCall(c); is {
							return out.with("acqw:" + render(as.Lhs[0]) + "|" + f.Name()).without("held")
						}
					}
				}
			}
			if _, isDefer := n.(*ast.DeferStmt); isDefer {
				return out
			}
			inspectPost(n, func(x ast.Node) {
				if semCall(x, "Release") {
					out = out.without("held")
				}
				if isRelWrapperCall(x) {
					out = out.without("held").without("flag=false").with("flag=true")
				}
			})
			return out
		}
		d.Branch = func(leaf ast.Expr, truth bool, s Facts) Facts {
			if be, ok := leaf.(*ast.BinaryExpr); ok && isNilIdent(info, be.Y) && s["acq:"+render(be.X)] {
				s = s.without("acq:" + render(be.X))
				if (be.Op == token.NEQ && !truth) || (be.Op == token.EQL && truth) {
					return s.with("held")
				}
			}
			if be, ok := leaf.(*ast.BinaryExpr); ok && isNilIdent(info, be.Y) {
				for k := range s {
					if !strings.HasPrefix(k, "acqw:"+render(be.X)+"|") {
						continue
					}
					name := strings.TrimPrefix(k, "acqw:"+render(be.X)+"|")
					var sum acqSummary
					for f, sm := range acqWrappers {
						if f.Name() == name {
							sum = sm
						}
					}
					s = s.without(k)
					success := (be.Op == token.NEQ && !truth) || (be.Op == token.EQL && truth)
					eff := sum.fail
					if success {
						s = s.with("held")
						eff = sum.succ
					}
					switch eff {
					case "true":
						s = s.without("flag=false").with("flag=true")
					case "false":
						s = s.without("flag=true").with("flag=false")
					case "?":
						s = s.without("flag=true").without("flag=false")
					}
				}
			}
			return s
		}
		d.Run()
		consistent := func(s Facts) bool {
			return (s["held"] && s["flag=false"]) || (!s["held"] && s["flag=true"])
		}
		nLink := 0
		d.Walk(func(_ *cfg.Block, n ast.Node, before Facts) {
			inspectPost(n, func(x ast.Node) {
				if _, ok := isCallTo(info, x, link.Obj); ok {
					nLink++
					if before["held"] && before["flag=false"] {
						w.ok("asFile|link-holds-permit", x.Pos(), "t.link is reached only with the permit held and released == false")
					} else {
						w.violation("asFile|link-holds-permit", x.Pos(), "t.link (the CPU-bound stage) can run without the task holding a permit, or with the released flag out of sync: state "+before.String())
					}
				}
			})
		})
		w.floor("t.link calls in asFile", nLink, 1)
		badExit := 0
		for _, e := range d.Exits(info, body.End()) {
			if !consistent(e.State) {
				badExit++
				w.violation("asFile|flag-mirrors-permit", e.Pos, "asFile can return with task.released out of sync with the permit ("+e.State.String()+"): the deferred release then double-releases (panic) or leaks the permit")
			}
		}
		if badExit == 0 {
			w.ok("asFile|flag-mirrors-permit", body.Pos(), "on every exit of asFile task.released is true iff the permit is not held, so the deferred release is exact")
		}
	}
}

// ---- RF: cancellable blocking ------------------------------------------------------

func rfPackage(w *World, rel string, floorSelect, floorAcquire int, exemptFuncs map[string]string) {
	w.rule("RF")
	p := w.pkg(rel)
	if p == nil {
		return
	}
	info := p.TypesInfo
	nSel, nAcq, nBare := 0, 0, 0
	for _, b := range allFuncBodies(p) {
		if b.Lit != nil {
			continue
		}
		w.FuncsSeen[b.Label] = true
		inSelectComm := map[ast.Node]bool{}
		ast.Inspect(b.Body, func(x ast.Node) bool {
			switch s := x.(type) {
			case *ast.SelectStmt:
				nSel++
				hasDefault, hasCtx := false, false
				for _, cl := range s.Body.List {
					cc := cl.(*ast.CommClause)
					if cc.Comm == nil {
						hasDefault = true
						continue
					}
					if u := commRecv(cc.Comm); u != nil {
						inSelectComm[u] = true
						if isCtxDoneRecv(info, u) {
							hasCtx = true
						}
					}
					if ss, ok := cc.Comm.(*ast.SendStmt); ok {
						inSelectComm[ss] = true
					}
				}
				key := "select|" + b.Label
				if hasDefault {
					w.ok(key, s.Pos(), "select has a default arm (non-blocking)")
				} else if hasCtx {
					w.ok(key, s.Pos(), "blocking select has a <-ctx.Done() arm")
				} else if why, ok := exemptFuncs[b.Label]; ok {
					w.ok(key, s.Pos(), "reviewed exception: "+why)
				} else {
					w.violation(key, s.Pos(), "blocking select without a <-ctx.Done() arm: cancellation cannot wake this wait")
				}
			case *ast.UnaryExpr:
				if s.Op == token.ARROW && !inSelectComm[s] {
					nBare++
					if why, ok := exemptFuncs[b.Label]; ok {
						w.ok("recv|"+b.Label, s.Pos(), "reviewed exception: "+why)
					} else {
						w.violation("recv|"+b.Label, s.Pos(), "channel receive outside a select: not cancellable")
					}
				}
			case *ast.SendStmt:
				if !inSelectComm[s] {
					nBare++
					w.violation("send|"+b.Label, s.Pos(), "channel send outside a select: not cancellable")
				}
			case *ast.CallExpr:
				f := callee(info, s)
				if isFunc(f, "golang.org/x/sync/semaphore", "Weighted", "Acquire") {
					nAcq++
					key := "acquire|" + b.Label
					okCtx := false
					if len(s.Args) > 0 {
						if tv, ok := info.Types[s.Args[0]]; ok && isContextType(tv.Type) {
							if _, isCall := ast.Unparen(s.Args[0]).(*ast.CallExpr); !isCall {
								okCtx = true
							}
						}
					}
					if okCtx {
						w.ok(key, s.Pos(), "semaphore Acquire uses the caller-provided context "+render(s.Args[0]))
					} else {
						w.violation(key, s.Pos(), "semaphore Acquire with a context that is not the compile/run context")
					}
				}
				if isFunc(f, "sync", "WaitGroup", "Wait") || isFunc(f, "sync", "Cond", "Wait") {
					w.violation("wait|"+b.Label, s.Pos(), "uncancellable sync wait")
				}
			}
			return true
		})
	}
	w.floor("select statements in "+p.Types.Name(), nSel, floorSelect)
	w.floor("semaphore Acquire calls in "+p.Types.Name(), nAcq, floorAcquire)
	_ = nBare
}

func rfCompiler(w *World) {
	rfPackage(w, "", 3, 2, map[string]string{})
}
