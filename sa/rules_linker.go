package main

import (
	"fmt"
	"go/ast"
	"go/token"
	"go/types"
	"strings"

	"golang.org/x/tools/go/cfg"
)

// ---- RK: resolver sibling agreement and the visibility walk (C18, C19) ------------------------

func rkResolvers(w *World) {
	w.rule("RK")
	p := w.pkg("linker")
	rif := w.fn("linker", "resolveInFile")
	fr := w.typ("linker", "fileResolver")
	markUsed := w.fn("linker", "(*result).markUsed")
	if p == nil || rif == nil || fr == nil || markUsed == nil {
		return
	}
	info := p.TypesInfo

	// 1. every Find* method of fileResolver reduces to resolveInFile(r.f, false, nil, func…)
	nMethods := 0
	for i := 0; i < fr.NumMethods(); i++ {
		m := fr.Method(i)
		fd := w.decls[m]
		if fd == nil || !strings.HasPrefix(m.Name(), "Find") {
			continue
		}
		nMethods++
		key := "sibling|fileResolver." + m.Name()
		// delegation to a sibling Find method is fine
		var ret *ast.ReturnStmt
		if n := len(fd.Body.List); n > 0 {
			ret, _ = fd.Body.List[n-1].(*ast.ReturnStmt)
		}
		if ret == nil || len(ret.Results) != 1 {
			w.violation(key, fd.Pos(), "does not end in a single-expression return")
			continue
		}
		call, ok := ast.Unparen(ret.Results[0]).(*ast.CallExpr)
		if !ok {
			w.violation(key, ret.Pos(), "does not return a call")
			continue
		}
		f := callee(info, call)
		if f != nil && f.Origin() == rif.Obj {
			recvName := ""
			if len(fd.Recv.List[0].Names) == 1 {
				recvName = fd.Recv.List[0].Names[0].Name
			}
			okArgs := len(call.Args) == 4 && render(call.Args[0]) == recvName+".f" && render(call.Args[1]) == "false" && isNilIdent(info, call.Args[2])
			fl, isLit := call.Args[3].(*ast.FuncLit)
			usesRecv := false
			if isLit {
				recvObj := info.Defs[fd.Recv.List[0].Names[0]]
				ast.Inspect(fl.Body, func(x ast.Node) bool {
					if id, ok := x.(*ast.Ident); ok && info.Uses[id] == recvObj {
						usesRecv = true
					}
					return true
				})
			}
			switch {
			case !okArgs || !isLit:
				w.violation(key, call.Pos(), "lookup does not start the shared visibility walk as resolveInFile(r.f, false, nil, func…): the first level must see all imports and start with an empty visited list")
			case usesRecv:
				w.violation(key, fl.Pos(), "the per-file query closure consults the resolver's root file instead of only the file it is given: visibility of imports is bypassed")
			default:
				w.ok(key, call.Pos(), "resolveInFile(r.f, false, nil, fn) with fn consulting only its file parameter")
			}
			continue
		}
		// delegation to another method of the same type
		if f != nil {
			if sig := f.Type().(*types.Signature); sig.Recv() != nil && types.Identical(sig.Recv().Type(), fr) {
				w.ok(key, call.Pos(), "delegates to sibling "+f.Name())
				continue
			}
		}
		w.violation(key, call.Pos(), "lookup method neither uses the shared visibility walk nor delegates to a sibling that does")
	}
	w.floor("Find* methods of linker.fileResolver", nMethods, 6)

	// 2. inside resolveInFile
	body := rif.Decl.Body
	var loop *ast.ForStmt
	for _, st := range body.List {
		if fs, ok := st.(*ast.ForStmt); ok {
			loop = fs
		}
	}
	if loop == nil {
		w.undecided("walk|loop", body.Pos(), "no for loop over the imports found in resolveInFile")
		return
	}
	isRecurse := func(x ast.Node) bool {
		c, ok := x.(*ast.CallExpr)
		if !ok {
			return false
		}
		f := callee(info, c)
		return f != nil && f.Origin() == rif.Obj
	}
	nRec := 0
	ast.Inspect(body, func(x ast.Node) bool {
		if isRecurse(x) {
			nRec++
			c := x.(*ast.CallExpr)
			key := "walk|recursion-args"
			if len(c.Args) == 4 && render(c.Args[1]) == "true" && render(c.Args[3]) == "fn" {
				w.ok(key, c.Pos(), "deeper levels are searched with publicImportsOnly = true and the same query")
			} else {
				w.violation(key, c.Pos(), "the recursive call does not pass publicImportsOnly = true (or changes the query): deeper levels would see non-public imports")
			}
		}
		return true
	})
	w.floor("recursive calls in resolveInFile", nRec, 1)

	// the file searched for an import is found by the import's *path*: the list of a file's
	// dependencies handed to Link is whatever the caller passed (any order, possibly more files),
	// while Imports() is in source order; pairing import i with dependency i attaches the public
	// flag of one import to another file. Every value that reaches the recursive call's file
	// argument must come from a FindImportByPath(imp.Path()) call on the import of this iteration;
	// an element of a deps slice selected by position is a violation.
	ast.Inspect(body, func(x ast.Node) bool {
		if !isRecurse(x) {
			return true
		}
		c := x.(*ast.CallExpr)
		if len(c.Args) == 0 {
			return true
		}
		var origins []ast.Expr
		var trace func(e ast.Expr, depth int)
		trace = func(e ast.Expr, depth int) {
			e = ast.Unparen(e)
			if id, ok := e.(*ast.Ident); ok && depth < 4 {
				found := false
				ast.Inspect(body, func(y ast.Node) bool {
					as, ok := y.(*ast.AssignStmt)
					if !ok || len(as.Lhs) != len(as.Rhs) {
						return true
					}
					for i, l := range as.Lhs {
						if lid, ok := l.(*ast.Ident); ok && (info.Uses[lid] == info.Uses[id] || info.Defs[lid] == info.Uses[id]) && info.Uses[id] != nil {
							found = true
							trace(as.Rhs[i], depth+1)
						}
					}
					return true
				})
				if found {
					return
				}
			}
			origins = append(origins, e)
		}
		trace(c.Args[0], 0)
		for _, o := range origins {
			key := "walk|dependency-by-path|" + types.ExprString(o)
			ok := false
			if oc, isCall := o.(*ast.CallExpr); isCall && len(oc.Args) == 1 {
				if sel, isSel := ast.Unparen(oc.Fun).(*ast.SelectorExpr); isSel && sel.Sel.Name == "FindImportByPath" {
					arg := ast.Unparen(oc.Args[0])
					// the path may have been hoisted into a local: `path := imp.Path()`
					if aid, isID := arg.(*ast.Ident); isID && info.Uses[aid] != nil {
						nDef := 0
						ast.Inspect(body, func(y ast.Node) bool {
							as, isAs := y.(*ast.AssignStmt)
							if !isAs || len(as.Lhs) != len(as.Rhs) {
								return true
							}
							for i, l := range as.Lhs {
								if lid, isL := l.(*ast.Ident); isL && (info.Defs[lid] == info.Uses[aid] || info.Uses[lid] == info.Uses[aid]) {
									nDef++
									arg = ast.Unparen(as.Rhs[i])
								}
							}
							return true
						})
						if nDef != 1 {
							arg = aid
						}
					}
					if pc, isPC := arg.(*ast.CallExpr); isPC {
						if ps, isPS := ast.Unparen(pc.Fun).(*ast.SelectorExpr); isPS && ps.Sel.Name == "Path" {
							ok = true
						}
					}
				}
			}
			if ok {
				w.ok(key, o.Pos(), "the file searched for an import is looked up by that import's path")
			} else if _, isIx := o.(*ast.IndexExpr); isIx {
				w.violation(key, o.Pos(), "the file searched for import i is taken by position ("+types.ExprString(o)+"): the dependencies given to Link are in the caller's order and may contain more files than the imports, so the public flag of one import is applied to another file — re-exported elements become invisible and non-public ones visible")
			} else {
				w.undecided(key, o.Pos(), "cannot tell how the file searched for an import is selected: "+types.ExprString(o))
			}
		}
		return true
	})

	// eligibility guard dominates the recursion; skips before it are of known kinds
	params := rif.Decl.Type.Params.List
	pubOnly := ""
	if len(params) >= 2 && len(params[1].Names) == 1 {
		pubOnly = params[1].Names[0].Name
	}
	// variables holding the result of a type assertion of the file to the linker's own result type
	assertedResult := map[types.Object]bool{}
	ast.Inspect(body, func(x ast.Node) bool {
		as, ok := x.(*ast.AssignStmt)
		if !ok || len(as.Rhs) != 1 || len(as.Lhs) < 1 {
			return true
		}
		if _, isTA := ast.Unparen(as.Rhs[0]).(*ast.TypeAssertExpr); !isTA {
			return true
		}
		if id, ok := as.Lhs[0].(*ast.Ident); ok {
			o := info.Defs[id]
			if o == nil {
				o = info.Uses[id]
			}
			if o != nil {
				assertedResult[o] = true
			}
		}
		return true
	})
	g := buildCFG(info, body)
	d := &Dataflow{G: g, Must: true, Init: Facts{}}
	d.Transfer = func(n ast.Node, in Facts) Facts {
		out := in
		// a new loop iteration re-binds imp
		if as, ok := n.(*ast.AssignStmt); ok {
			for _, l := range as.Lhs {
				if id, ok := l.(*ast.Ident); ok && id.Name == "imp" {
					out = out.without("eligible").without("okmark")
				}
			}
		}
		inspectPost(n, func(x ast.Node) {
			if _, ok := isCallTo(info, x, markUsed.Obj); ok {
				out = out.with("okmark")
			}
		})
		return out
	}
	d.Branch = func(leaf ast.Expr, truth bool, s Facts) Facts {
		if id, ok := leaf.(*ast.Ident); ok && id.Name == pubOnly && !truth {
			s = s.with("eligible")
		}
		if sel, ok := leaf.(*ast.SelectorExpr); ok && sel.Sel.Name == "IsPublic" && truth {
			s = s.with("eligible").with("okmark")
		}
		if id, ok := leaf.(*ast.Ident); ok && id.Name == "ok" && !truth {
			s = s.with("okmark") // f is not a *result: nothing to mark
		}
		// `linked, _ := f.(*result)` … `linked != nil`: on the nil edge f is not a *result either
		if be, ok := leaf.(*ast.BinaryExpr); ok && (be.Op == token.NEQ || be.Op == token.EQL) && isNilIdent(info, be.Y) {
			if id, ok := ast.Unparen(be.X).(*ast.Ident); ok && assertedResult[info.Uses[id]] && (be.Op == token.EQL) == truth {
				s = s.with("okmark")
			}
		}
		return s
	}
	d.Run()
	d.Walk(func(_ *cfg.Block, n ast.Node, before Facts) {
		inspectPost(n, func(x ast.Node) {
			if isRecurse(x) {
				if before["eligible"] {
					w.ok("walk|visibility-guard", x.Pos(), "an import is searched only if this is the first level (publicImportsOnly false) or the import is public")
				} else {
					w.violation("walk|visibility-guard", x.Pos(), "an import can be searched although publicImportsOnly is set and the import is not public (or the guard is missing): elements become visible through non-public transitive imports")
				}
			}
		})
		if r, ok := n.(*ast.ReturnStmt); ok && r.Pos() > loop.Pos() && r.End() < loop.End() && len(r.Results) == 2 && isNilIdent(info, r.Results[1]) {
			if before["okmark"] {
				w.ok("walk|mark-used-on-success", r.Pos(), "a successful lookup through a non-public import of a linker result marks that import as used before returning")
			} else {
				w.violation("walk|mark-used-on-success", r.Pos(), "a successful lookup can return without marking the non-public import it went through as used: the import is then reported as unused although it is needed")
			}
		}
	})
	// skip conditions inside the loop
	ast.Inspect(loop.Body, func(x ast.Node) bool {
		ifs, ok := x.(*ast.IfStmt)
		if !ok {
			return true
		}
		hasContinue := false
		for _, st := range ifs.Body.List {
			if bs, ok := st.(*ast.BranchStmt); ok && bs.Tok == token.CONTINUE {
				hasContinue = true
			}
		}
		if !hasContinue {
			return true
		}
		c := types.ExprString(ifs.Cond)
		key := "walk|skip:" + c
		switch {
		case c == pubOnly+" && !imp.IsPublic" || c == "!imp.IsPublic && "+pubOnly:
			w.ok(key, ifs.Pos(), "imports are skipped iff publicImportsOnly && !imp.IsPublic")
		case strings.HasPrefix(c, "errors.Is(") && strings.Contains(c, "NotFound"):
			w.ok(key, ifs.Pos(), "not found in that import: try the next one")
		case strings.HasPrefix(c, "slices.Contains(checked"):
			w.ok(key, ifs.Pos(), "de-duplication of already searched files (soundness of the visited list is a separate obligation)")
		default:
			w.undecided(key, ifs.Pos(), "unrecognised condition under which an import is skipped: review that it neither hides a visible import nor exposes an invisible one")
		}
		return true
	})

	// the visited list is extended only with the file that is searched right away
	nApp := 0
	ast.Inspect(body, func(x ast.Node) bool {
		as, ok := x.(*ast.AssignStmt)
		if !ok || len(as.Lhs) != 1 || render(as.Lhs[0]) != "checked" || len(as.Rhs) != 1 {
			return true
		}
		c, ok := as.Rhs[0].(*ast.CallExpr)
		if !ok || !isBuiltinCall(info, c, "append") {
			return true
		}
		nApp++
		// straight-line successor must call fn(...) or recurse
		found := straightLineFollows(g, as, func(y ast.Node) bool {
			if cc, ok := y.(*ast.CallExpr); ok {
				if id, ok := ast.Unparen(cc.Fun).(*ast.Ident); ok && id.Name == "fn" {
					return true
				}
				return isRecurse(cc)
			}
			return false
		})
		if found {
			w.ok("walk|visited-means-searched", as.Pos(), "a path is added to the visited list immediately before that file is searched (no branch in between)")
		} else {
			w.violation("walk|visited-means-searched", as.Pos(), "a path is recorded as already checked on a path that may then not search it (a branch separates the marking from the search): later, legitimately visible routes to that file are pruned")
		}
		return true
	})
	w.floor("extensions of the visited list in resolveInFile", nApp, 1)
}

// straightLineFollows: starting right after node a, following only single-successor edges, is a
// node satisfying isB reached?
func straightLineFollows(g *cfg.CFG, a ast.Node, isB func(ast.Node) bool) bool {
	for _, b := range g.Blocks {
		for i, n := range b.Nodes {
			if n != a {
				continue
			}
			cur, idx := b, i+1
			seen := map[*cfg.Block]bool{}
			for !seen[cur] {
				seen[cur] = true
				for ; idx < len(cur.Nodes); idx++ {
					hit := false
					inspectPost(cur.Nodes[idx], func(x ast.Node) {
						if isB(x) {
							hit = true
						}
					})
					if hit {
						return true
					}
				}
				if len(cur.Succs) != 1 {
					return false
				}
				cur, idx = cur.Succs[0], 0
			}
			return false
		}
	}
	return false
}

// RH9: usedImports is written only by markUsed; markUsed is called only by the visibility walk;
// and name lookups in imports exist nowhere else in the linker.
func rh9UsedImports(w *World) {
	w.rule("RH9")
	p := w.pkg("linker")
	used := w.field("linker", "result", "usedImports")
	markUsed := w.fn("linker", "(*result).markUsed")
	rif := w.fn("linker", "resolveInFile")
	if p == nil || used == nil || markUsed == nil || rif == nil {
		return
	}
	info := p.TypesInfo
	nW, nC := 0, 0
	for _, b := range allFuncBodies(p) {
		if b.Lit != nil {
			continue
		}
		ast.Inspect(b.Body, func(x ast.Node) bool {
			switch s := x.(type) {
			case *ast.AssignStmt:
				for _, l := range s.Lhs {
					e := ast.Unparen(l)
					if ix, ok := e.(*ast.IndexExpr); ok {
						e = ix.X
					}
					if selField(info, e) == used {
						nW++
						if b.Obj == markUsed.Obj {
							w.ok("used-writer|"+b.Label, l.Pos(), "usedImports is written by markUsed")
						} else {
							w.violation("used-writer|"+b.Label, l.Pos(), "usedImports written outside markUsed: an import can be marked used (or unmarked) without a lookup having gone through it")
						}
					}
				}
			case *ast.CallExpr:
				if isBuiltinCall(info, s, "delete") && len(s.Args) > 0 && selField(info, s.Args[0]) == used {
					w.violation("used-writer|"+b.Label+"|delete", s.Pos(), "entries are deleted from usedImports")
				}
				if _, ok := isCallTo(info, s, markUsed.Obj); ok {
					nC++
					if b.Obj == rif.Obj {
						w.ok("mark-site|"+b.Label, s.Pos(), "markUsed is called from the shared visibility walk")
					} else {
						w.violation("mark-site|"+b.Label, s.Pos(), "markUsed called outside resolveInFile")
					}
				}
			}
			return true
		})
	}
	w.floor("writes of result.usedImports", nW, 1)
	w.floor("calls of markUsed", nC, 1)
	// lookups through imports: File.FindImportByPath is only called by the walk (and by code that does not resolve names)
	nF := 0
	for _, b := range allFuncBodies(p) {
		if b.Lit != nil {
			continue
		}
		ast.Inspect(b.Body, func(x ast.Node) bool {
			c, ok := x.(*ast.CallExpr)
			if !ok {
				return true
			}
			s, ok := ast.Unparen(c.Fun).(*ast.SelectorExpr)
			if !ok || s.Sel.Name != "FindImportByPath" {
				return true
			}
			nF++
			reviewed := map[string]string{
				"linker.resolveInFile":              "the visibility walk itself",
				"linker.(*result).FindImportByPath": "accessor",
				"linker.(*file).FindImportByPath":   "accessor",
			}
			if why, ok := reviewed[b.Label]; ok {
				w.okTrivial("import-lookup|"+b.Label, c.Pos(), why)
			} else {
				w.undecided("import-lookup|"+b.Label, c.Pos(), "a second code path follows imports to look something up: if it resolves names it bypasses visibility rules and used-import marking; review and add to the table")
			}
			return true
		})
	}
	w.floor("FindImportByPath call sites in linker", nF, 1)
}

// RC10 (C19/C05): all explicitly requested files are registered in ONE critical section of
// executor.mu, before any task can register an import, so explicitFile is decided by the request
// list and not by a race.
func rc10ExplicitRegistration(w *World) {
	w.rule("RC")
	p := w.pkg("")
	comp := w.fn("", "(*Compiler).Compile")
	if p == nil || comp == nil {
		return
	}
	info := p.TypesInfo
	n := 0
	for _, b := range allFuncBodies(p) {
		if b.Lit != nil {
			continue
		}
		parents := parentMap(b.Body)
		ast.Inspect(b.Body, func(x ast.Node) bool {
			c, ok := x.(*ast.CallExpr)
			if !ok {
				return true
			}
			f := callee(info, c)
			if f == nil || f.Pkg() != p.Types {
				return true
			}
			sig := f.Type().(*types.Signature)
			idx := -1
			for i := 0; i < sig.Params().Len(); i++ {
				if sig.Params().At(i).Name() == "explicitFile" {
					idx = i
				}
			}
			if idx < 0 || idx >= len(c.Args) {
				return true
			}
			if render(c.Args[idx]) == "false" {
				w.okTrivial("RC10|register|"+b.Label+"|implicit", c.Pos(), "registers an import (explicitFile = false)")
				return true
			}
			if render(c.Args[idx]) != "true" {
				// forwarded parameter
				if id, ok := c.Args[idx].(*ast.Ident); ok && id.Name == "explicitFile" {
					w.okTrivial("RC10|register|"+b.Label+"|forward", c.Pos(), "forwards its own explicitFile parameter")
					return true
				}
				w.undecided("RC10|register|"+b.Label, c.Pos(), "explicitFile computed from "+render(c.Args[idx]))
				return true
			}
			n++
			key := "RC10|register|" + b.Label + "|explicit"
			// enclosing loop and the lock around it
			var loop ast.Node
			for a := parents[x]; a != nil; a = parents[a] {
				if _, ok := a.(*ast.RangeStmt); ok {
					loop = a
					break
				}
				if _, ok := a.(*ast.ForStmt); ok {
					loop = a
					break
				}
			}
			if loop == nil {
				w.violation(key, c.Pos(), "explicit registration is not in a loop over the requested files")
				return true
			}
			list, i := containingList(parents, loop)
			lockBefore, unlockDeferred, lockInLoop := false, false, false
			for j := 0; j < i && j < len(list); j++ {
				switch s := list[j].(type) {
				case *ast.ExprStmt:
					if cc, ok := s.X.(*ast.CallExpr); ok && mutexMethod(callee(info, cc)) == "Lock" && strings.HasSuffix(render(recvExpr(cc)), ".mu") {
						lockBefore = true
					}
				case *ast.DeferStmt:
					if mutexMethod(callee(info, s.Call)) == "Unlock" {
						unlockDeferred = true
					}
				}
			}
			ast.Inspect(loop, func(y ast.Node) bool {
				if cc, ok := y.(*ast.CallExpr); ok {
					if k := mutexMethod(callee(info, cc)); k != "" {
						lockInLoop = true
					}
				}
				return true
			})
			// the callee itself must not take the lock (it would be a per-file critical section)
			calleeLocks := false
			if fd := w.decls[f]; fd != nil {
				ast.Inspect(fd.Body, func(y ast.Node) bool {
					if cc, ok := y.(*ast.CallExpr); ok && mutexMethod(callee(info, cc)) == "Lock" {
						calleeLocks = true
					}
					return true
				})
			}
			if lockBefore && unlockDeferred && !lockInLoop && !calleeLocks {
				w.ok(key, c.Pos(), "the loop registering every requested file runs inside one executor.mu critical section (Lock before the loop, deferred Unlock, no locking inside): no task can register a requested file as a mere import first")
			} else {
				w.violation(key, c.Pos(), fmt.Sprintf("requested files are not registered atomically (lock before loop=%v, deferred unlock=%v, locking inside loop=%v, callee locks=%v): a task that imports a later requested file can register it first with explicitFile=false, and its unused-import warnings are silently dropped", lockBefore, unlockDeferred, lockInLoop, calleeLocks))
			}
			return true
		})
	}
	w.floor("explicit registrations (explicitFile = true)", n, 1)
}

// RB2: order assumptions. Binary searches over slices whose order is dictated by the input
// (descriptor protos supplied by a resolver need not be sorted) are not allowed in the linker;
// every binary-search site in the anchored packages must be in the reviewed table.
func rb2SortedAssumptions(w *World) {
	w.rule("RB2")
	reviewed := map[string]string{}
	scoped := map[string]bool{modPath + "/linker": true, modPath + "/options": true, modPath: true, modPath + "/sourceinfo": true, modPath + "/internal": true}
	nAll, nScoped := 0, 0
	for _, pk := range w.Roots {
		if strings.Contains(pk.PkgPath, "/internal/testing") {
			continue
		}
		for _, b := range allFuncBodies(pk) {
			if b.Lit != nil {
				continue
			}
			ast.Inspect(b.Body, func(x ast.Node) bool {
				c, ok := x.(*ast.CallExpr)
				if !ok {
					return true
				}
				f := callee(pk.TypesInfo, c)
				if f == nil || f.Pkg() == nil {
					return true
				}
				isBS := (f.Pkg().Path() == "slices" && strings.HasPrefix(f.Name(), "BinarySearch")) ||
					(f.Pkg().Path() == "sort" && (strings.HasPrefix(f.Name(), "Search") || f.Name() == "Find"))
				if !isBS {
					return true
				}
				nAll++
				if !scoped[pk.PkgPath] {
					return true
				}
				nScoped++
				key := "binary-search|" + b.Label
				if why, ok := reviewed[b.Label]; ok {
					w.ok(key, c.Pos(), "reviewed: "+why)
				} else {
					w.violation(key, c.Pos(), "binary search in a package that consumes resolver-supplied descriptor protos: the searched slice (e.g. public_dependency, dependency, reserved ranges) is in input order, not sorted, unless shown otherwise — add a reviewed table entry with the reason it is sorted")
				}
				return true
			})
		}
	}
	// positive control: the matcher must still see the binary searches that exist elsewhere in the module
	w.floor("binary-search call sites in the module (matcher control)", nAll, 8)
	if nScoped == 0 {
		w.ok("binary-search|none-in-scope", token.NoPos, fmt.Sprintf("no binary search in the linker/options/sourceinfo/root packages (%d elsewhere in the module, used as the matcher's positive control)", nAll))
	}
}

// RB3 (C04): membership scans over declaration-ordered lists have no negative early exit.
// Reserved and extension ranges are kept in *declaration order* (`reserved 50 to 60, 10 to 20;` is
// legal), and the Go runtime's Has answers membership regardless of order. A `Has` method of the
// linker's range wrappers is a linear scan `for … { if match { return true } } return false`; a
// `return false`, `break` or `goto` inside the loop exits on the assumption that later elements
// cannot match — an ordering assumption the data does not satisfy.
func rb3NoNegativeEarlyExit(w *World) {
	w.rule("RB3")
	p := w.pkg("linker")
	if p == nil {
		return
	}
	info := p.TypesInfo
	n := 0
	for _, b := range allFuncBodies(p) {
		if b.Lit != nil || b.Decl.Recv == nil || b.Decl.Name.Name != "Has" || !strings.HasSuffix(w.Fset.Position(b.Decl.Pos()).Filename, "descriptors.go") {
			continue
		}
		// the scan itself, or the same-package helper Has delegates to
		scanBodies := []*ast.BlockStmt{b.Body}
		hasLoop := false
		ast.Inspect(b.Body, func(x ast.Node) bool {
			switch x.(type) {
			case *ast.RangeStmt, *ast.ForStmt:
				hasLoop = true
			}
			return true
		})
		if !hasLoop {
			ast.Inspect(b.Body, func(x ast.Node) bool {
				if c, ok := x.(*ast.CallExpr); ok {
					if f := callee(info, c); f != nil && f.Pkg() == p.Types {
						if d := w.decls[f.Origin()]; d != nil && d.Body != nil {
							scanBodies = append(scanBodies, d.Body)
						}
					}
				}
				return true
			})
		}
		for _, sb := range scanBodies {
			ast.Inspect(sb, func(x ast.Node) bool {
				var body *ast.BlockStmt
				switch l := x.(type) {
				case *ast.RangeStmt:
					body = l.Body
				case *ast.ForStmt:
					body = l.Body
				default:
					return true
				}
				n++
				key := "membership-scan|" + b.Label
				bad := ""
				ast.Inspect(body, func(y ast.Node) bool {
					switch s := y.(type) {
					case *ast.FuncLit:
						return false
					case *ast.ReturnStmt:
						if len(s.Results) == 1 {
							if tv, ok := info.Types[s.Results[0]]; ok && tv.Value != nil && tv.Value.String() == "false" {
								bad = "return false at " + w.pos(s.Pos())
							}
						}
					case *ast.BranchStmt:
						if s.Tok == token.BREAK || s.Tok == token.GOTO {
							bad = s.Tok.String() + " at " + w.pos(s.Pos())
						}
					}
					return true
				})
				if bad == "" {
					w.ok(key, x.Pos(), "the scan leaves the loop early only with a positive answer")
				} else {
					w.violation(key, x.Pos(), "the membership scan gives up inside the loop ("+bad+"): that assumes the ranges are sorted, but they are stored in declaration order, so Has disagrees with the Go runtime for ranges declared out of order")
				}
				return false
			})
		}
	}
	w.floor("Has membership scans in linker/descriptors.go", n, 2)
}

// RO2 (C04): explicit options are tri-state. A descriptor attribute that falls back to a resolved
// feature (resolveFeature) when an option is *absent* must distinguish "absent" from "explicitly
// false": `[packed = false]` in a proto3 file overrides the PACKED default, and the Go runtime
// reports IsPacked() == false for it. Before the fall-back, an option of an options message may
// therefore be consulted only through a presence test on its pointer field (`opts.X != nil`, then
// `*opts.X`); an early return guarded by the truth of a generated bool getter (`GetX()`) conflates
// the two cases.
func ro2ExplicitOptionPresence(w *World) {
	w.rule("RO2")
	p := w.pkg("linker")
	rf := w.fn("linker", "resolveFeature")
	if p == nil || rf == nil {
		return
	}
	info := p.TypesInfo
	n := 0
	for _, b := range allFuncBodies(p) {
		if b.Lit != nil || b.Obj == rf.Obj {
			continue
		}
		var fallback *ast.CallExpr
		ast.Inspect(b.Body, func(x ast.Node) bool {
			if c, ok := x.(*ast.CallExpr); ok && fallback == nil {
				if f := callee(info, c); f != nil && f.Origin() == rf.Obj {
					fallback = c
				}
			}
			return true
		})
		if fallback == nil {
			continue
		}
		n++
		bad := ""
		ast.Inspect(b.Body, func(x ast.Node) bool {
			ifs, ok := x.(*ast.IfStmt)
			if !ok || ifs.Pos() > fallback.Pos() {
				return true
			}
			ast.Inspect(ifs.Cond, func(y ast.Node) bool {
				c, ok := y.(*ast.CallExpr)
				if !ok || len(c.Args) != 0 {
					return true
				}
				sel, ok := ast.Unparen(c.Fun).(*ast.SelectorExpr)
				if !ok || !strings.HasPrefix(sel.Sel.Name, "Get") {
					return true
				}
				f := callee(info, c)
				if f == nil || f.Pkg() == nil || !strings.HasSuffix(f.Pkg().Path(), "descriptorpb") {
					return true
				}
				sig := f.Type().(*types.Signature)
				if sig.Results().Len() != 1 {
					return true
				}
				if bt, ok := sig.Results().At(0).Type().Underlying().(*types.Basic); !ok || bt.Kind() != types.Bool {
					return true
				}
				if recv := sig.Recv(); recv != nil && strings.HasSuffix(strings.TrimPrefix(recv.Type().String(), "*"), "Options") {
					bad = types.ExprString(c) + " at " + w.pos(c.Pos())
				}
				return true
			})
			return true
		})
		key := "explicit-option-presence|" + b.Label
		if bad == "" {
			w.ok(key, b.Decl.Pos(), "before falling back to the resolved feature, explicit options are consulted through presence tests only")
		} else {
			w.violation(key, b.Decl.Pos(), "the decision before the feature fall-back is taken on the truth of the getter "+bad+": an option explicitly set to false is treated like an absent one, so the compiler's descriptor reports the feature default where the Go runtime reports the explicit value")
		}
	}
	w.floor("descriptor attributes that fall back to resolved features", n, 4)
}

// RB4 (C04): Has agrees with the range convention of its descriptor kind. protoreflect documents
// FieldRanges as [start, end) and EnumRanges as [start, end] (Get returns exactly what the
// descriptor proto stores). The membership condition of each Has method of the linker's range
// wrappers — followed into a same-package helper when the scan was extracted — is evaluated on a
// finite model (n, start, end over -2..3) against the convention chosen by the element type of the
// wrapper's Get method ([2]protoreflect.EnumNumber: inclusive end; [2]protoreflect.FieldNumber:
// exclusive end).
func rb4RangeConvention(w *World) {
	w.rule("RB4")
	p := w.pkg("linker")
	if p == nil {
		return
	}
	info := p.TypesInfo
	n := 0
	for _, b := range allFuncBodies(p) {
		if b.Lit != nil || b.Decl.Recv == nil || b.Decl.Name.Name != "Has" || !strings.HasSuffix(w.Fset.Position(b.Decl.Pos()).Filename, "descriptors.go") {
			continue
		}
		// convention from the sibling Get method's result type
		recvT := info.TypeOf(b.Decl.Recv.List[0].Type)
		if pt, ok := recvT.(*types.Pointer); ok {
			recvT = pt.Elem()
		}
		named, ok := recvT.(*types.Named)
		if !ok {
			continue
		}
		inclusive, known := false, false
		for i := 0; i < named.NumMethods(); i++ {
			m := named.Method(i)
			if m.Name() != "Get" {
				continue
			}
			res := m.Type().(*types.Signature).Results()
			if res.Len() == 1 {
				if arr, ok := res.At(0).Type().Underlying().(*types.Array); ok {
					switch {
					case strings.HasSuffix(arr.Elem().String(), "protoreflect.EnumNumber"):
						inclusive, known = true, true
					case strings.HasSuffix(arr.Elem().String(), "protoreflect.FieldNumber"):
						inclusive, known = false, true
					}
				}
			}
		}
		if !known {
			continue
		}
		n++
		key := "range-convention|" + b.Label
		// the condition guarding `return true`, in Has or in the helper it delegates to
		var cond ast.Expr
		var cinfo *types.Info = info
		var elemVar string
		find := func(body *ast.BlockStmt, inf *types.Info) {
			ast.Inspect(body, func(x ast.Node) bool {
				ifs, ok := x.(*ast.IfStmt)
				if !ok || cond != nil {
					return true
				}
				for _, st := range ifs.Body.List {
					if r, ok := st.(*ast.ReturnStmt); ok && len(r.Results) == 1 {
						if tv, ok := inf.Types[r.Results[0]]; ok && tv.Value != nil && tv.Value.String() == "true" {
							cond, cinfo = ifs.Cond, inf
						}
					}
				}
				return true
			})
		}
		find(b.Body, info)
		if cond == nil {
			ast.Inspect(b.Body, func(x ast.Node) bool {
				if c, ok := x.(*ast.CallExpr); ok && cond == nil {
					if f := callee(info, c); f != nil && f.Pkg() == p.Types {
						if d := w.decls[f.Origin()]; d != nil && d.Body != nil {
							find(d.Body, p.TypesInfo)
						}
					}
				}
				return true
			})
		}
		if cond == nil {
			w.undecided(key, b.Decl.Pos(), "cannot find the condition under which Has returns true")
			continue
		}
		// operands: r[0], r[1] (or named start/end) and the queried number: collect the atoms
		atoms := map[string]bool{}
		ast.Inspect(cond, func(y ast.Node) bool {
			switch z := y.(type) {
			case *ast.IndexExpr:
				atoms[render(z)] = true
				return false
			case *ast.Ident:
				if _, isVar := cinfo.Uses[z].(*types.Var); isVar {
					atoms[z.Name] = true
				}
			}
			return true
		})
		var lo, hi, q string
		for a := range atoms {
			switch {
			case strings.HasSuffix(a, "[0]") || a == "start":
				lo = a
			case strings.HasSuffix(a, "[1]") || a == "end":
				hi = a
			default:
				if q == "" || a == "n" {
					q = a
				}
			}
		}
		_ = elemVar
		if lo == "" || hi == "" || q == "" {
			w.undecided(key, cond.Pos(), "cannot identify start / end / queried number in "+types.ExprString(cond))
			continue
		}
		bad := ""
		for nv := int64(-2); nv <= 3 && bad == ""; nv++ {
			for s := int64(-2); s <= 3 && bad == ""; s++ {
				for e := s; e <= 3 && bad == ""; e++ {
					env := &numEnv{info: cinfo, vars: map[string]num{q: {i: nv}, lo: {i: s}, hi: {i: e}}}
					got, ok := env.eval(cond)
					if !ok || !got.isBool {
						bad = "cannot evaluate " + types.ExprString(cond)
						break
					}
					want := s <= nv && nv < e
					if inclusive {
						want = s <= nv && nv <= e
					}
					if got.b != want {
						bad = fmt.Sprintf("for the stored range (%d, %d) and n=%d the scan answers %v, the convention says %v", s, e, nv, got.b, want)
					}
				}
			}
		}
		conv := "[start, end)"
		if inclusive {
			conv = "[start, end]"
		}
		if bad == "" {
			w.ok(key, cond.Pos(), "membership condition "+types.ExprString(cond)+" agrees with the "+conv+" convention of this range kind on the finite model")
		} else {
			w.violation(key, cond.Pos(), "membership condition "+types.ExprString(cond)+" does not follow the "+conv+" convention of this range kind: "+bad+" — Has disagrees with the Go runtime at the range's last number")
		}
	}
	w.floor("Has methods of range wrappers", n, 2)
}
