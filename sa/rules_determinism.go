package main

import (
	"fmt"
	"go/ast"
	"go/token"
	"go/types"
	"sort"
	"strings"

	"golang.org/x/tools/go/callgraph"
	"golang.org/x/tools/go/ssa"
)

// RI / RJ: sources of schedule- or run-dependent values in the functions reachable from an entry
// point (VTA call graph, restricted to functions of the module).
//
//  RJ: no direct call of a clock, random, environment or goroutine-identity primitive, except the
//      reviewed table (stopwatches whose value only reaches timing fields, debug logging).
//  RI: every `range` over a map (and every sync.Map.Range) fits an order-insensitive idiom — the
//      body only inserts into maps/sets, deletes, counts, sets flags, returns a constant, or
//      appends to a slice that is sorted later in the same function — or is in the reviewed table.

type detSpec struct {
	name    string
	entries [][2]string // rel, func
	// packages (relative) whose functions are in scope; others are ignored even if reachable
	scope []string
}

var rjForbidden = map[string]bool{
	"time.Now": true, "time.Since": true, "time.Until": true,
	"os.Getenv": true, "os.LookupEnv": true, "os.Environ": true, "os.Getpid": true, "os.Hostname": true,
	"runtime.NumGoroutine": true,
}

var rjReviewed = map[string]string{
	"timex.(*Stopwatch).Start|time.Now":  "stopwatch of the incremental executor: the measured duration only reaches Result.Elapsed and the WithTimings map, never a descriptor, diagnostic or verdict",
	"timex.(*Stopwatch).Stop|time.Since": "stopwatch of the incremental executor: the measured duration only reaches Result.Elapsed and the WithTimings map, never a descriptor, diagnostic or verdict",
}

// reviewed map iterations: function|ranged expression -> reason
var riReviewed = map[string]string{
	"editions.GetEditionDefaults|descriptorpb.Edition_name": "computes one independent map entry per key (editionDefaults[edition] = …) inside a sync.Once: the resulting map does not depend on the iteration order",
	"ir.DedupExportedSymbols|nameToSymbols":                 "pushes one diagnostic per duplicated name onto the report; incremental.Run sorts the report with Canonicalize before returning it (rule RC4); diagnostics for different names have different primary spans",
	"ir.DedupExtensions|keyToMembers":                       "pushes one diagnostic per duplicated extension number; sorted by Canonicalize before being observable (rule RC4)",
	"ir.validateExtensionDeclarations|options":              "pushes diagnostics per option; sorted by Canonicalize before being observable (rule RC4)",
	"ir.validateReservedNames|seen":                         "pushes one diagnostic per repeated reserved name; sorted by Canonicalize before being observable (rule RC4)",
	"incremental.Run|node.deps.Range":                       "sync.Map iteration order only affects the order diagnostics are appended; the report is canonicalized (sorted) before it is returned (rule RC4)",
	"incremental.(*task).checkCycle|node.deps.Range":        "breadth-first search for the caller task: which cycle path is reported may depend on the order, whether a cycle is found does not",
	"incremental.(*Executor).Keys|e.tasks.Range":            "keys are collected and sorted before being returned",
}

func moduleFuncsReachable(w *World, roots []*ssa.Function) map[*ssa.Function]bool {
	cg := w.CallGraph()
	seen := map[*ssa.Function]bool{}
	var work []*ssa.Function
	push := func(f *ssa.Function) {
		if f == nil || seen[f] {
			return
		}
		if f.Pkg == nil && f.Origin() != nil && f.Origin().Pkg != nil {
			// instantiation of a generic: attribute to its origin's package
		}
		seen[f] = true
		work = append(work, f)
	}
	for _, r := range roots {
		push(r)
	}
	inModule := func(f *ssa.Function) bool {
		pk := f.Pkg
		if pk == nil && f.Origin() != nil {
			pk = f.Origin().Pkg
		}
		if pk == nil && f.Parent() != nil {
			p := f.Parent()
			for p.Parent() != nil {
				p = p.Parent()
			}
			pk = p.Pkg
			if pk == nil && p.Origin() != nil {
				pk = p.Origin().Pkg
			}
		}
		return pk != nil && strings.HasPrefix(pk.Pkg.Path(), modPath)
	}
	for len(work) > 0 {
		f := work[0]
		work = work[1:]
		node := cg.Nodes[f]
		if node == nil {
			continue
		}
		for _, e := range node.Out {
			callee := e.Callee.Func
			if inModule(callee) {
				push(callee)
			}
		}
		for _, an := range f.AnonFuncs {
			push(an)
		}
	}
	return seen
}

func ssaRoot(f *ssa.Function) *ssa.Function {
	for f.Parent() != nil {
		f = f.Parent()
	}
	if f.Origin() != nil {
		return f.Origin()
	}
	return f
}

func riDeterminism(w *World, spec detSpec) {
	var roots []*ssa.Function
	for _, e := range spec.entries {
		fr := w.fn(e[0], e[1])
		if fr == nil {
			continue
		}
		if sf := w.ssaFunc(fr.Obj); sf != nil {
			roots = append(roots, sf)
		} else {
			// generic function: use all instantiations' origin via the package member
			w.undecided("RI|entry:"+fr.Name, fr.Decl.Pos(), "no SSA function for the entry point")
		}
	}
	reach := moduleFuncsReachable(w, roots)
	// declared functions (AST) reachable
	declSet := map[*types.Func]bool{}
	for f := range reach {
		r := ssaRoot(f)
		if obj, ok := r.Object().(*types.Func); ok {
			declSet[obj.Origin()] = true
		}
	}
	inScope := func(pkgPath string) bool {
		rel := strings.TrimPrefix(strings.TrimPrefix(pkgPath, modPath), "/")
		for _, s := range spec.scope {
			if rel == s || (strings.HasSuffix(s, "/...") && strings.HasPrefix(rel, strings.TrimSuffix(s, "..."))) {
				return true
			}
		}
		return false
	}
	var objs []*types.Func
	for o := range declSet {
		if o.Pkg() != nil && inScope(o.Pkg().Path()) && w.decls[o] != nil && w.decls[o].Body != nil {
			objs = append(objs, o)
		}
	}
	sort.Slice(objs, func(i, j int) bool { return funcName(objs[i]) < funcName(objs[j]) })
	w.rule("RJ")
	w.floor("module functions reachable from "+spec.name, len(objs), 50)
	nForbidden := 0
	for _, o := range objs {
		fd := w.decls[o]
		pk := w.declPkg[o]
		info := pk.TypesInfo
		label := funcName(o)
		w.FuncsSeen[label] = true
		ast.Inspect(fd.Body, func(x ast.Node) bool {
			c, ok := x.(*ast.CallExpr)
			if !ok {
				return true
			}
			f := callee(info, c)
			if f == nil || f.Pkg() == nil {
				return true
			}
			name := f.Pkg().Path() + "." + f.Name()
			if f.Type().(*types.Signature).Recv() != nil {
				return true
			}
			isRand := f.Pkg().Path() == "math/rand" || f.Pkg().Path() == "math/rand/v2" || f.Pkg().Path() == "crypto/rand"
			if !rjForbidden[name] && !isRand {
				return true
			}
			nForbidden++
			key := "nondeterministic-source|" + label + "|" + name
			if why, ok := rjReviewed[label+"|"+name]; ok {
				w.ok(key, c.Pos(), "reviewed: "+why)
			} else {
				w.violation(key, c.Pos(), name+" is called in "+label+", which is reachable from "+spec.name+": the result of a compilation may depend on the clock, the environment or a random source")
			}
			return true
		})
	}
	if nForbidden == 0 {
		w.ok("nondeterministic-source|none|"+spec.name, token.NoPos, fmt.Sprintf("none of the %d module functions reachable from %s calls a clock, random, environment or goroutine-identity primitive", len(objs), spec.name))
	}

	w.rule("RI")
	nRanges := 0
	for _, o := range objs {
		fd := w.decls[o]
		pk := w.declPkg[o]
		info := pk.TypesInfo
		label := funcName(o)
		// collect sorted slices: variables passed to sort.* / slices.Sort*
		sorted := map[string]bool{}
		ast.Inspect(fd.Body, func(x ast.Node) bool {
			if c, ok := x.(*ast.CallExpr); ok {
				if f := callee(info, c); f != nil && f.Pkg() != nil && (f.Pkg().Path() == "sort" || f.Pkg().Path() == "slices") && strings.Contains(f.Name(), "Sort") || (f != nil && f.Pkg() != nil && f.Pkg().Path() == "sort" && (f.Name() == "Strings" || f.Name() == "Ints" || f.Name() == "Slice" || f.Name() == "SliceStable")) {
					if len(c.Args) > 0 {
						sorted[render(c.Args[0])] = true
					}
				}
			}
			return true
		})
		ast.Inspect(fd.Body, func(x ast.Node) bool {
			switch s := x.(type) {
			case *ast.RangeStmt:
				tv, ok := info.Types[s.X]
				if !ok {
					return true
				}
				if _, isMap := tv.Type.Underlying().(*types.Map); !isMap {
					return true
				}
				nRanges++
				key := "map-range|" + label + "|" + render(s.X)
				if why, ok := riReviewed[label+"|"+render(s.X)]; ok && why != "" {
					w.ok(key, s.Pos(), "reviewed: "+why)
					return true
				}
				if why := orderInsensitiveBody(info, s.Body, sorted); why != "" {
					w.ok(key, s.Pos(), "order-insensitive: "+why)
				} else {
					w.violation(key, s.Pos(), "iteration over map "+render(s.X)+" in "+label+" (reachable from "+spec.name+") does something order-dependent (appends to an unsorted slice, reports, returns a non-constant, or calls out): Go randomises map order, so output may differ between runs")
				}
			case *ast.CallExpr:
				// sync.Map.Range(func…)
				if f := callee(info, s); isFunc(f, "sync", "Map", "Range") && len(s.Args) == 1 {
					nRanges++
					recv := render(recvExpr(s))
					key := "map-range|" + label + "|" + recv + ".Range"
					if why, ok := riReviewed[label+"|"+recv+".Range"]; ok && why != "" {
						w.ok(key, s.Pos(), "reviewed: "+why)
						return true
					}
					// a helper with a single static caller in its package inherits the review of the
					// same iteration in that caller (the loop was extracted)
					if c := singleCaller(w, o); c != nil {
						if why, ok := riReviewed[funcName(c)+"|"+recv+".Range"]; ok && why != "" {
							w.ok(key, s.Pos(), "reviewed (as part of its only caller "+funcName(c)+"): "+why)
							return true
						}
					}
					if fl, ok := s.Args[0].(*ast.FuncLit); ok {
						if why := orderInsensitiveBody(info, fl.Body, sorted); why != "" {
							w.ok(key, s.Pos(), "order-insensitive: "+why)
							return true
						}
					}
					w.violation(key, s.Pos(), "sync.Map iteration "+recv+".Range in "+label+" does something order-dependent and is not in the reviewed table")
				}
			}
			return true
		})
	}
	w.info("map-ranges|"+spec.name, token.NoPos, fmt.Sprintf("%d map iterations in %d reachable functions", nRanges, len(objs)))
}

// orderInsensitiveBody classifies a loop body; returns a reason or "".
func orderInsensitiveBody(info *types.Info, body *ast.BlockStmt, sorted map[string]bool) string {
	ok := true
	reasons := map[string]bool{}
	var check func(st ast.Stmt)
	check = func(st ast.Stmt) {
		switch s := st.(type) {
		case *ast.AssignStmt:
			for i, l := range s.Lhs {
				switch le := ast.Unparen(l).(type) {
				case *ast.IndexExpr:
					if tv, okT := info.Types[le.X]; okT {
						if _, isMap := tv.Type.Underlying().(*types.Map); isMap {
							reasons["writes into a map"] = true
							continue
						}
					}
					ok = false
				case *ast.Ident:
					// appends to a later-sorted slice; counters; flags
					if i < len(s.Rhs) {
						if c, isCall := ast.Unparen(s.Rhs[i]).(*ast.CallExpr); isCall && isBuiltinCall(info, c, "append") {
							if sorted[le.Name] {
								reasons["appends to a slice that is sorted afterwards"] = true
								continue
							}
							ok = false
							continue
						}
					}
					if s.Tok == token.ADD_ASSIGN || s.Tok == token.OR_ASSIGN || s.Tok == token.AND_ASSIGN {
						reasons["commutative accumulation"] = true
						continue
					}
					if s.Tok == token.DEFINE {
						continue // local temporaries
					}
					if i < len(s.Rhs) {
						if tv, okT := info.Types[s.Rhs[i]]; okT && tv.Value != nil {
							reasons["sets a flag to a constant"] = true
							continue
						}
					}
					ok = false
				default:
					ok = false
				}
			}
		case *ast.IncDecStmt:
			reasons["counts"] = true
		case *ast.ExprStmt:
			if c, isCall := s.X.(*ast.CallExpr); isCall && isBuiltinCall(info, c, "delete") {
				reasons["deletes"] = true
				return
			}
			ok = false
		case *ast.IfStmt:
			if s.Init != nil {
				check(s.Init)
			}
			for _, b := range s.Body.List {
				check(b)
			}
			if s.Else != nil {
				if eb, isBlk := s.Else.(*ast.BlockStmt); isBlk {
					for _, b := range eb.List {
						check(b)
					}
				} else {
					check(s.Else)
				}
			}
		case *ast.ReturnStmt:
			for _, r := range s.Results {
				if tv, okT := info.Types[r]; !okT || (tv.Value == nil && !tv.IsNil()) {
					ok = false
				}
			}
			reasons["returns constants only (existential test)"] = true
		case *ast.BranchStmt:
			if s.Tok == token.CONTINUE {
				return
			}
			ok = false
		case *ast.DeclStmt:
		case *ast.BlockStmt:
			for _, b := range s.List {
				check(b)
			}
		case *ast.RangeStmt:
			for _, b := range s.Body.List {
				check(b)
			}
		default:
			ok = false
		}
	}
	for _, st := range body.List {
		check(st)
	}
	if !ok {
		return ""
	}
	var rs []string
	for r := range reasons {
		rs = append(rs, r)
	}
	sort.Strings(rs)
	if len(rs) == 0 {
		return "empty or local-only body"
	}
	return strings.Join(rs, "; ")
}

var _ = callgraph.CalleesOf

func riCompile(w *World) {
	riDeterminism(w, detSpec{name: "Compiler.Compile", entries: [][2]string{{"", "(*Compiler).Compile"}, {"", "(*executor).doCompile"}},
		scope: []string{"", "linker", "options", "parser", "sourceinfo", "reporter", "internal", "ast", "walk", "protoutil", "internal/editions", "internal/messageset", "internal/featuresext", "internal/cases"}})
}

func riIncremental(w *World) {
	riDeterminism(w, detSpec{name: "incremental.Run / queries", entries: [][2]string{
		{queriesRel, "File.Execute"}, {queriesRel, "AST.Execute"}, {queriesRel, "IR.Execute"}, {queriesRel, "Link.Execute"}, {queriesRel, "FDS.Execute"}, {queriesRel, "FDP.Execute"},
		{reportRel, "(*Report).Canonicalize"}, {incRel, "(*task).run"}, {incRel, "(*task).checkCycle"}, {incRel, "(*Executor).EvictWithCleanup"}, {incRel, "(*Executor).Keys"}},
		scope: []string{"experimental/...", "internal/intern", "internal/toposort", "internal/interval", "internal/trie", "internal/arena", "internal/cases", "internal/ext/timex"}})
}

// singleCaller returns the only function of o's package that calls o statically, or nil.
func singleCaller(w *World, o *types.Func) *types.Func {
	pk := w.declPkg[o]
	if pk == nil {
		return nil
	}
	var callers []*types.Func
	for f, d := range w.decls {
		if w.declPkg[f] != pk || d.Body == nil || f == o {
			continue
		}
		calls := false
		ast.Inspect(d.Body, func(x ast.Node) bool {
			if c, ok := x.(*ast.CallExpr); ok {
				if g := callee(pk.TypesInfo, c); g != nil && g.Origin() == o {
					calls = true
				}
			}
			return !calls
		})
		if calls {
			callers = append(callers, f)
		}
	}
	if len(callers) == 1 {
		return callers[0]
	}
	return nil
}
