package main

import (
	"fmt"
	"go/ast"
	"go/constant"
	"go/token"
	"go/types"
	"sort"
	"strings"
)

const reportRel = "experimental/report"

// levelConsts returns the constants of type report.Level declared in package report.
func levelConsts(w *World) (map[string]int64, *types.Named) {
	p := w.pkg(reportRel)
	lv := w.typ(reportRel, "Level")
	if p == nil || lv == nil {
		return nil, nil
	}
	out := map[string]int64{}
	sc := p.Types.Scope()
	for _, n := range sc.Names() {
		if c, ok := sc.Lookup(n).(*types.Const); ok && types.Identical(c.Type(), lv) && c.Exported() {
			if v, ok := constant.Int64Val(c.Val()); ok {
				out[n] = v
			}
		}
	}
	return out, lv
}

func cmpInt(op token.Token, a, b int64) (bool, bool) {
	switch op {
	case token.LSS:
		return a < b, true
	case token.LEQ:
		return a <= b, true
	case token.GTR:
		return a > b, true
	case token.GEQ:
		return a >= b, true
	case token.EQL:
		return a == b, true
	case token.NEQ:
		return a != b, true
	}
	return false, false
}

// RS: success flags computed from diagnostic levels (C27, C28).
func rsOkFlag(w *World, rel, fn string) {
	w.rule("RS")
	p := w.pkg(rel)
	fr := w.fn(rel, fn)
	levels, lv := levelConsts(w)
	levelM := w.fn(reportRel, "(*Diagnostic).Level")
	if p == nil || fr == nil || levels == nil || levelM == nil {
		return
	}
	if len(levels) < 4 {
		w.undecided("levels", token.NoPos, fmt.Sprintf("expected at least 4 report.Level constants, found %d", len(levels)))
		return
	}
	info := p.TypesInfo
	found := 0
	ast.Inspect(fr.Decl.Body, func(x ast.Node) bool {
		ifs, ok := x.(*ast.IfStmt)
		if !ok {
			return true
		}
		// body must set the named/ok result to false
		setsFalse := false
		for _, st := range ifs.Body.List {
			if as, ok := st.(*ast.AssignStmt); ok && len(as.Lhs) == 1 && len(as.Rhs) == 1 && render(as.Lhs[0]) == "ok" && render(as.Rhs[0]) == "false" {
				setsFalse = true
			}
		}
		if !setsFalse {
			return true
		}
		found++
		key := "ok-flag|" + fr.Name
		// evaluate the condition over the level domain: leaves are comparisons of d.Level() with a constant
		var eval func(e ast.Expr, level int64) (bool, bool)
		eval = func(e ast.Expr, level int64) (bool, bool) {
			e = ast.Unparen(e)
			switch b := e.(type) {
			case *ast.BinaryExpr:
				if b.Op == token.LAND || b.Op == token.LOR {
					l, ok1 := eval(b.X, level)
					r, ok2 := eval(b.Y, level)
					if !ok1 || !ok2 {
						return false, false
					}
					if b.Op == token.LAND {
						return l && r, true
					}
					return l || r, true
				}
				val := func(x ast.Expr) (int64, bool) {
					x = ast.Unparen(x)
					if c, ok := x.(*ast.CallExpr); ok {
						if f := callee(info, c); f == levelM.Obj {
							return level, true
						}
					}
					if tv, ok := info.Types[x]; ok && tv.Value != nil {
						if v, ok := constant.Int64Val(tv.Value); ok {
							return v, true
						}
					}
					return 0, false
				}
				l, ok1 := val(b.X)
				r, ok2 := val(b.Y)
				if !ok1 || !ok2 {
					return false, false
				}
				return cmpInt(b.Op, l, r)
			case *ast.UnaryExpr:
				if b.Op == token.NOT {
					v, ok := eval(b.X, level)
					return !v, ok
				}
			}
			return false, false
		}
		var failing []string
		undecidable := false
		var names []string
		for n := range levels {
			names = append(names, n)
		}
		sort.Slice(names, func(i, j int) bool { return levels[names[i]] < levels[names[j]] })
		for _, n := range names {
			v, ok := eval(ifs.Cond, levels[n])
			if !ok {
				undecidable = true
				break
			}
			if v {
				failing = append(failing, n)
			}
		}
		if undecidable {
			w.undecided(key, ifs.Pos(), "the condition that clears ok is not a boolean combination of comparisons between Diagnostic.Level() and constants: "+render(ifs.Cond))
			return true
		}
		want := []string{"ICE", "Error"}
		if strings.Join(failing, ",") == strings.Join(want, ",") {
			w.ok(key, ifs.Pos(), fmt.Sprintf("evaluated `%s` over the whole Level domain %v: ok is cleared exactly for {ICE, Error}", render(ifs.Cond), names))
		} else {
			w.violation(key, ifs.Pos(), fmt.Sprintf("evaluated `%s` over the Level domain %v (ICE=1 < Error=2 < Warning=3 < Remark=4): ok is cleared for {%s} but must be cleared exactly for {ICE, Error}", render(ifs.Cond), names, strings.Join(failing, ", ")))
		}
		return true
	})
	if found == 0 {
		// the flag may be computed by a predicate helper: `return x, !anyErrors(...)` where the
		// helper (possibly through a function literal handed to slices.ContainsFunc) compares
		// Diagnostic.Level() with a constant; that comparison is then the error predicate.
		ast.Inspect(fr.Decl.Body, func(x ast.Node) bool {
			r, ok := x.(*ast.ReturnStmt)
			if !ok {
				return true
			}
			for _, res := range r.Results {
				ue, ok := ast.Unparen(res).(*ast.UnaryExpr)
				if !ok || ue.Op != token.NOT {
					continue
				}
				c, ok := ast.Unparen(ue.X).(*ast.CallExpr)
				if !ok {
					continue
				}
				f := callee(info, c)
				if f == nil || f.Pkg() != p.Types {
					continue
				}
				d := w.decls[f.Origin()]
				if d == nil || d.Body == nil {
					continue
				}
				var cmp *ast.BinaryExpr
				ast.Inspect(d.Body, func(y ast.Node) bool {
					be, ok := y.(*ast.BinaryExpr)
					if !ok || cmp != nil {
						return true
					}
					switch be.Op {
					case token.LSS, token.LEQ, token.GTR, token.GEQ, token.EQL, token.NEQ:
						for _, side := range []ast.Expr{be.X, be.Y} {
							if sc, ok := ast.Unparen(side).(*ast.CallExpr); ok {
								if sf := callee(info, sc); sf != nil && sf == levelM.Obj {
									cmp = be
								}
							}
						}
					}
					return true
				})
				if cmp == nil {
					continue
				}
				found++
				key := "ok-flag|" + fr.Name
				var failing, names []string
				for n := range levels {
					names = append(names, n)
				}
				sort.Slice(names, func(i, j int) bool { return levels[names[i]] < levels[names[j]] })
				undec := false
				for _, n := range names {
					val := func(e ast.Expr) (int64, bool) {
						e = ast.Unparen(e)
						if sc, ok := e.(*ast.CallExpr); ok {
							if sf := callee(info, sc); sf == levelM.Obj {
								return levels[n], true
							}
						}
						if tv, ok := info.Types[e]; ok && tv.Value != nil {
							if v, ok := constant.Int64Val(tv.Value); ok {
								return v, true
							}
						}
						return 0, false
					}
					l, ok1 := val(cmp.X)
					rr, ok2 := val(cmp.Y)
					if !ok1 || !ok2 {
						undec = true
						break
					}
					if v, ok := cmpInt(cmp.Op, l, rr); ok && v {
						failing = append(failing, n)
					}
				}
				switch {
				case undec:
					w.undecided(key, cmp.Pos(), "cannot evaluate the error predicate "+render(cmp))
				case strings.Join(failing, ",") == "ICE,Error":
					w.ok(key, cmp.Pos(), fmt.Sprintf("the flag is the negation of predicate %s, whose test `%s`, evaluated over the Level domain %v, holds exactly for {ICE, Error}", f.Name(), types.ExprString(cmp), names))
				default:
					w.violation(key, cmp.Pos(), fmt.Sprintf("the flag is the negation of predicate %s, whose test `%s` holds for {%s} over the Level domain %v but must hold exactly for {ICE, Error}", f.Name(), types.ExprString(cmp), strings.Join(failing, ", "), names))
				}
			}
			return true
		})
	}
	w.floor("`ok = false` guards in "+fr.Name, found, 1)
	_ = lv
}

func rsParse(w *World) { rsOkFlag(w, "experimental/parser", "Parse") }
func rsLower(w *World) { rsOkFlag(w, "experimental/ir", "(*Session).Lower") }

// RT: writer/reader agreement of Report.ToProto / Report.AppendFromProto (C37).
func rtReport(w *World) {
	w.rule("RT")
	p := w.pkg(reportRel)
	toProto := w.fn(reportRel, "(*Report).ToProto")
	fromProto := w.fn(reportRel, "(*Report).AppendFromProto")
	pb := w.ByPath[modPath+"/internal/gen/buf/compiler/v1alpha1"]
	src := w.pkg("experimental/source")
	if p == nil || toProto == nil || fromProto == nil || src == nil {
		return
	}
	if pb == nil {
		w.undecided("anchor:compilerpb", token.NoPos, "generated package internal/gen/buf/compiler/v1alpha1 not loaded")
		return
	}
	info := p.TypesInfo
	msgs := []string{"Report", "Report_File", "Diagnostic", "Diagnostic_Annotation", "Diagnostic_Edit"}
	pbFields := map[string]map[string]bool{}
	pbType := map[string]*types.Named{}
	for _, m := range msgs {
		tn, _ := pb.Types.Scope().Lookup(m).(*types.TypeName)
		if tn == nil {
			w.undecided("anchor:compilerpb."+m, token.NoPos, "message type not found")
			return
		}
		n := tn.Type().(*types.Named)
		pbType[m] = n
		pbFields[m] = map[string]bool{}
		st := n.Underlying().(*types.Struct)
		for i := 0; i < st.NumFields(); i++ {
			if st.Field(i).Exported() {
				pbFields[m][st.Field(i).Name()] = true
			}
		}
	}
	msgOf := func(t types.Type) string {
		if pt, ok := t.(*types.Pointer); ok {
			t = pt.Elem()
		}
		for m, n := range pbType {
			if types.Identical(t, n) {
				return m
			}
		}
		return ""
	}
	inspectTo := func(fn func(ast.Node) bool) {
		for _, b := range closureBodies(w, p, toProto.Obj, 2) {
			ast.Inspect(b, fn)
		}
	}
	inspectFrom := func(fn func(ast.Node) bool) {
		for _, b := range closureBodies(w, p, fromProto.Obj, 2) {
			ast.Inspect(b, fn)
		}
	}
	// written in ToProto
	written := map[string]map[string]bool{}
	for _, m := range msgs {
		written[m] = map[string]bool{}
	}
	for _, tb := range closureBodies(w, p, toProto.Obj, 2) {
		ast.Inspect(tb, func(x ast.Node) bool {
			switch s := x.(type) {
			case *ast.CompositeLit:
				if tv, ok := info.Types[s]; ok {
					if m := msgOf(tv.Type); m != "" {
						for _, el := range s.Elts {
							if kv, ok := el.(*ast.KeyValueExpr); ok {
								written[m][render(kv.Key)] = true
							}
						}
					}
				}
			case *ast.AssignStmt:
				for _, l := range s.Lhs {
					if sel, ok := ast.Unparen(l).(*ast.SelectorExpr); ok {
						if tv, ok := info.Types[sel.X]; ok {
							if m := msgOf(tv.Type); m != "" {
								written[m][sel.Sel.Name] = true
							}
						}
					}
				}
			}
			return true
		})
	}
	// read in AppendFromProto
	read := map[string]map[string]bool{}
	for _, m := range msgs {
		read[m] = map[string]bool{}
	}
	for _, fb := range closureBodies(w, p, fromProto.Obj, 2) {
		ast.Inspect(fb, func(x ast.Node) bool {
			if sel, ok := x.(*ast.SelectorExpr); ok {
				if tv, ok := info.Types[sel.X]; ok {
					if m := msgOf(tv.Type); m != "" {
						if s := info.Selections[sel]; s != nil && s.Kind() == types.FieldVal {
							read[m][sel.Sel.Name] = true
						}
					}
				}
			}
			return true
		})
	}
	total := 0
	for _, m := range msgs {
		var fs []string
		for f := range pbFields[m] {
			fs = append(fs, f)
		}
		sort.Strings(fs)
		for _, f := range fs {
			total++
			key := "field|" + m + "." + f
			wr, rd := written[m][f], read[m][f]
			switch {
			case wr && rd:
				w.ok(key, token.NoPos, "written by ToProto and read by AppendFromProto")
			case wr:
				w.violation(key, fromProto.Decl.Pos(), "compilerpb."+m+"."+f+" is written by ToProto but never read by AppendFromProto: the information is lost on the way back")
			case rd:
				w.violation(key, toProto.Decl.Pos(), "compilerpb."+m+"."+f+" is read by AppendFromProto but never written by ToProto")
			default:
				w.violation(key, toProto.Decl.Pos(), "compilerpb."+m+"."+f+" is neither written nor read: a field of the wire format is not carried")
			}
		}
	}
	w.floor("compilerpb report fields", total, 20)

	// in-memory side: every field of Diagnostic / snippet / Edit is read in ToProto and set in AppendFromProto
	notSerialised := map[string]string{"Diagnostic.sortOrder": "sort key only; not part of the serialised contract"}
	for _, tn := range []string{"Diagnostic", "snippet", "Edit"} {
		n := w.typ(reportRel, tn)
		if n == nil {
			continue
		}
		st := n.Underlying().(*types.Struct)
		readIn := map[*types.Var]bool{}
		inspectTo(func(x ast.Node) bool {
			if sel, ok := x.(*ast.SelectorExpr); ok {
				if s := info.Selections[sel]; s != nil {
					// walk the implicit path so that promoted fields (snippet.Span.Start) count for Span
					t := s.Recv()
					for _, idx := range s.Index() {
						if pt, ok := t.(*types.Pointer); ok {
							t = pt.Elem()
						}
						stt, ok := t.Underlying().(*types.Struct)
						if !ok {
							break
						}
						if idx < stt.NumFields() {
							readIn[stt.Field(idx)] = true
							t = stt.Field(idx).Type()
						}
					}
				}
			}
			return true
		})
		setIn := map[string]bool{}
		inspectFrom(func(x ast.Node) bool {
			switch s := x.(type) {
			case *ast.CompositeLit:
				if tv, ok := info.Types[s]; ok && types.Identical(tv.Type, n) {
					for _, el := range s.Elts {
						if kv, ok := el.(*ast.KeyValueExpr); ok {
							setIn[render(kv.Key)] = true
						}
					}
				}
			case *ast.AssignStmt:
				for _, l := range s.Lhs {
					if sel, ok := ast.Unparen(l).(*ast.SelectorExpr); ok {
						if v := selField(info, sel); v != nil {
							for i := 0; i < st.NumFields(); i++ {
								if st.Field(i) == v {
									setIn[v.Name()] = true
								}
							}
						}
					}
				}
			}
			return true
		})
		for i := 0; i < st.NumFields(); i++ {
			f := st.Field(i)
			key := "memfield|" + tn + "." + f.Name()
			if why, ok := notSerialised[tn+"."+f.Name()]; ok {
				w.okTrivial(key, f.Pos(), "reviewed: "+why)
				continue
			}
			switch {
			case readIn[f] && setIn[f.Name()]:
				w.ok(key, f.Pos(), "carried: read by ToProto, set by AppendFromProto")
			case !readIn[f]:
				w.violation(key, f.Pos(), "report."+tn+"."+f.Name()+" is never read by ToProto: it does not survive serialisation")
			default:
				w.violation(key, f.Pos(), "report."+tn+"."+f.Name()+" is never set by AppendFromProto: it does not survive deserialisation")
			}
		}
	}

	// RT3: the file record is built from the *file's* accessors, the ones whose values the decoder feeds to source.NewFile
	fileT, _ := src.Types.Scope().Lookup("File").(*types.TypeName)
	if fileT != nil {
		wantCallee := map[string]string{"Path": "Path", "Text": "Text"}
		inspectTo(func(x ast.Node) bool {
			cl, ok := x.(*ast.CompositeLit)
			if !ok {
				return true
			}
			tv, ok := info.Types[cl]
			if !ok || msgOf(tv.Type) != "Report_File" {
				return true
			}
			for _, el := range cl.Elts {
				kv, ok := el.(*ast.KeyValueExpr)
				if !ok {
					continue
				}
				want, ok := wantCallee[render(kv.Key)]
				if !ok {
					continue
				}
				// find the accessor call inside the value
				var acc *types.Func
				ast.Inspect(kv.Value, func(y ast.Node) bool {
					if c, ok := y.(*ast.CallExpr); ok {
						if f := callee(info, c); f != nil && f.Name() == want {
							acc = f
						}
					}
					return true
				})
				key := "file-record|Report_File." + render(kv.Key)
				if acc == nil {
					w.violation(key, kv.Pos(), "Report_File."+render(kv.Key)+" is not produced by a "+want+"() accessor")
					continue
				}
				rt := acc.Type().(*types.Signature).Recv()
				isFile := false
				if rt != nil {
					t := rt.Type()
					if pt, ok := t.(*types.Pointer); ok {
						t = pt.Elem()
					}
					isFile = types.Identical(t, fileT.Type())
				}
				if isFile {
					w.ok(key, kv.Pos(), "value comes from (*source.File)."+want+", the inverse of what AppendFromProto passes to source.NewFile")
				} else {
					w.violation(key, kv.Pos(), "Report_File."+render(kv.Key)+" is produced by "+fullFuncName(acc)+", not by (*source.File)."+want+": the decoder rebuilds the file from this value, and annotation offsets are relative to the whole file")
				}
			}
			return true
		})
	}

	// RT-options: decoding does not depend on the destination report's Options. Options govern how
	// *new* diagnostics are created (warning suppression, stack-trace capture, stage); a decoded
	// diagnostic must come back exactly as it was written, whatever report it is appended to.
	// Who-may-read: no function in the call closure of AppendFromProto reads a field of
	// report.Options.
	if optT := w.typ(reportRel, "Options"); optT != nil {
		ost := optT.Underlying().(*types.Struct)
		optFields := map[*types.Var]bool{}
		for i := 0; i < ost.NumFields(); i++ {
			optFields[ost.Field(i)] = true
		}
		nOpt := 0
		inspectFrom(func(x ast.Node) bool {
			if sel, ok := x.(*ast.SelectorExpr); ok {
				if v := selField(info, sel); v != nil && optFields[v] {
					nOpt++
					w.violation("decode-option-independent|Options."+v.Name(), sel.Pos(), "Options."+v.Name()+" of the destination report is consulted while decoding (in the call closure of AppendFromProto): with SuppressWarnings decoded warnings and remarks are dropped, with Tracing a stack trace is added to the debug text, so the diagnostics read back are not the ones written")
				}
			}
			return true
		})
		if nOpt == 0 {
			w.ok("decode-option-independent", fromProto.Decl.Pos(), "no function reachable from AppendFromProto reads a field of report.Options")
		}
	}

	// RT-span: the decoder's span validation, evaluated over a finite model
	rtSpanValidation(w, info, fromProto)
	// RS-switch: all Level constants are accepted
	rsLevelSwitch(w, info, fromProto)
}

func rtSpanValidation(w *World, info *types.Info, fromProto *FuncRef) {
	inspectFrom := func(fn func(ast.Node) bool) {
		for _, b := range closureBodies(w, fromProto.Pkg, fromProto.Obj, 2) {
			ast.Inspect(b, fn)
		}
	}
	// the if statement whose body returns an "out-of-bounds span" error
	var cond ast.Expr
	var pos token.Pos
	inspectFrom(func(x ast.Node) bool {
		ifs, ok := x.(*ast.IfStmt)
		if !ok {
			return true
		}
		mentions := func(e ast.Node, name string) bool {
			found := false
			ast.Inspect(e, func(y ast.Node) bool {
				if s, ok := y.(*ast.SelectorExpr); ok && s.Sel.Name == name {
					found = true
				}
				return true
			})
			return found
		}
		if mentions(ifs.Cond, "Start") && mentions(ifs.Cond, "End") && len(ifs.Body.List) > 0 {
			if _, ok := ifs.Body.List[len(ifs.Body.List)-1].(*ast.ReturnStmt); ok {
				cond, pos = ifs.Cond, ifs.Pos()
			}
		}
		return true
	})
	if cond == nil {
		w.undecided("span-validation|missing", fromProto.Decl.Pos(), "no span bounds check (if … Start … End … { return err }) found in AppendFromProto")
		return
	}
	var eval func(e ast.Expr, S, E, L int64) (int64, bool, bool) // value, isBool, ok
	eval = func(e ast.Expr, S, E, L int64) (int64, bool, bool) {
		e = ast.Unparen(e)
		switch x := e.(type) {
		case *ast.BinaryExpr:
			l, lb, ok1 := eval(x.X, S, E, L)
			r, rb, ok2 := eval(x.Y, S, E, L)
			if !ok1 || !ok2 {
				return 0, false, false
			}
			if x.Op == token.LAND || x.Op == token.LOR {
				if !lb || !rb {
					return 0, false, false
				}
				v := (l != 0) && (r != 0)
				if x.Op == token.LOR {
					v = (l != 0) || (r != 0)
				}
				if v {
					return 1, true, true
				}
				return 0, true, true
			}
			if v, ok := cmpInt(x.Op, l, r); ok {
				if v {
					return 1, true, true
				}
				return 0, true, true
			}
		case *ast.CallExpr:
			if isBuiltinCall(info, x, "len") {
				return L, false, true
			}
			if len(x.Args) == 1 { // conversion int(...)
				if tv, ok := info.Types[x.Fun]; ok && tv.IsType() {
					return eval(x.Args[0], S, E, L)
				}
			}
		case *ast.SelectorExpr:
			switch x.Sel.Name {
			case "Start":
				return S, false, true
			case "End":
				return E, false, true
			}
		case *ast.BasicLit:
			if tv, ok := info.Types[x]; ok && tv.Value != nil {
				if v, ok := constant.Int64Val(tv.Value); ok {
					return v, false, true
				}
			}
		}
		return 0, false, false
	}
	var wrongReject, wrongAccept []string
	n := 0
	for L := int64(0); L <= 3; L++ {
		for S := int64(0); S <= 4; S++ {
			for E := int64(0); E <= 4; E++ {
				v, isB, ok := eval(cond, S, E, L)
				if !ok || !isB {
					w.undecided("span-validation|shape", pos, "span validation is not a boolean combination of comparisons over Start, End and len(text): "+render(cond))
					return
				}
				n++
				valid := S <= E && E <= L
				rejected := v != 0
				if valid && rejected {
					wrongReject = append(wrongReject, fmt.Sprintf("[%d:%d] in text of length %d", S, E, L))
				}
				if !valid && !rejected {
					wrongAccept = append(wrongAccept, fmt.Sprintf("[%d:%d] in text of length %d", S, E, L))
				}
			}
		}
	}
	if len(wrongReject) == 0 && len(wrongAccept) == 0 {
		w.ok("span-validation", pos, fmt.Sprintf("evaluated `%s` on %d (start, end, len) triples: rejects exactly the spans with start > end or end > len; in particular the empty span at end of file is accepted", render(cond), n))
		return
	}
	if len(wrongReject) > 0 {
		w.violation("span-validation|rejects-valid", pos, fmt.Sprintf("`%s` rejects valid spans, e.g. %s (an annotation that ToProto can produce cannot be read back)", render(cond), strings.Join(wrongReject[:min(3, len(wrongReject))], "; ")))
	}
	if len(wrongAccept) > 0 {
		w.violation("span-validation|accepts-invalid", pos, fmt.Sprintf("`%s` accepts out-of-bounds spans, e.g. %s", render(cond), strings.Join(wrongAccept[:min(3, len(wrongAccept))], "; ")))
	}
}

func rsLevelSwitch(w *World, info *types.Info, fromProto *FuncRef) {
	inspectFrom := func(fn func(ast.Node) bool) {
		for _, b := range closureBodies(w, fromProto.Pkg, fromProto.Obj, 2) {
			ast.Inspect(b, fn)
		}
	}
	levels, lv := levelConsts(w)
	if levels == nil {
		return
	}
	found := false
	inspectFrom(func(x ast.Node) bool {
		sw, ok := x.(*ast.SwitchStmt)
		if !ok || sw.Tag == nil {
			return true
		}
		tv, ok := info.Types[sw.Tag]
		if !ok || !types.Identical(tv.Type, lv) {
			return true
		}
		found = true
		accepted := map[int64]bool{}
		defaultRejects := false
		for _, cl := range sw.Body.List {
			cc := cl.(*ast.CaseClause)
			rejects := false
			if len(cc.Body) > 0 {
				if _, ok := cc.Body[len(cc.Body)-1].(*ast.ReturnStmt); ok {
					rejects = true
				}
			}
			if cc.List == nil {
				defaultRejects = rejects
				continue
			}
			if rejects {
				continue
			}
			for _, e := range cc.List {
				if etv, ok := info.Types[e]; ok && etv.Value != nil {
					if v, ok := constant.Int64Val(etv.Value); ok {
						accepted[v] = true
					}
				}
			}
		}
		var missing []string
		for n, v := range levels {
			if !accepted[v] && defaultRejects {
				missing = append(missing, n)
			}
		}
		sort.Strings(missing)
		if len(missing) == 0 {
			w.ok("level-switch", sw.Pos(), fmt.Sprintf("the decoder accepts every exported Level constant (%d)", len(levels)))
		} else {
			w.violation("level-switch", sw.Pos(), "AppendFromProto rejects level(s) "+strings.Join(missing, ", ")+" which ToProto serialises: such diagnostics cannot be read back")
		}
		return true
	})
	if !found {
		w.undecided("level-switch|missing", fromProto.Decl.Pos(), "no switch over a report.Level value found in AppendFromProto")
	}
}

// RU: comparator completeness of Report.Canonicalize (C36).
//
// The comparator handed to the sort in Canonicalize must mention every field of Diagnostic (and,
// when it orders whole snippet lists, every field of snippet, of the embedded Span and of Edit):
// two diagnostics differing only in an un-keyed field tie, slices.SortFunc leaves ties in an order
// that is a function of the input order, so the canonical form would depend on the input order.
// Field mentions are collected from the comparator expression and, transitively, from the bodies
// of same-module functions it names (resolved through go/types, depth-bounded).
func ruCanonicalize(w *World) {
	w.rule("RU")
	p := w.pkg(reportRel)
	canon := w.fn(reportRel, "(*Report).Canonicalize")
	diag := w.typ(reportRel, "Diagnostic")
	snip := w.typ(reportRel, "snippet")
	edit := w.typ(reportRel, "Edit")
	if p == nil || canon == nil || diag == nil || snip == nil || edit == nil {
		return
	}
	info := p.TypesInfo
	st := diag.Underlying().(*types.Struct)
	stable := false
	var cmpArg ast.Expr
	ast.Inspect(canon.Decl.Body, func(x ast.Node) bool {
		c, ok := x.(*ast.CallExpr)
		if !ok {
			return true
		}
		f := callee(info, c)
		if f == nil || f.Pkg() == nil || f.Pkg().Path() != "slices" || !strings.HasPrefix(f.Name(), "Sort") || len(c.Args) != 2 {
			return true
		}
		if sel, ok := c.Args[0].(*ast.SelectorExpr); ok && sel.Sel.Name == "Diagnostics" && cmpArg == nil {
			cmpArg = c.Args[1]
			stable = strings.HasPrefix(f.Name(), "SortStable")
		}
		return true
	})
	if cmpArg == nil {
		w.undecided("Canonicalize|sort-call", canon.Decl.Pos(), "no slices.Sort*(r.Diagnostics, cmp) call found in Canonicalize")
		return
	}
	// transitive field mentions
	mentioned := map[*types.Var]bool{}
	methods := map[string]bool{} // "Primary", "Path" … method names selected on Diagnostic/snippet/Span values
	seenFn := map[*types.Func]bool{}
	nKeys := 0
	var visit func(n ast.Node, inf *types.Info, depth int)
	visit = func(n ast.Node, inf *types.Info, depth int) {
		ast.Inspect(n, func(y ast.Node) bool {
			switch e := y.(type) {
			case *ast.SelectorExpr:
				if v := selField(inf, e); v != nil {
					mentioned[v] = true
					// a promoted field mention (s.Start through the embedded Span) is recorded as the field itself
				}
				if sl := inf.Selections[e]; sl != nil && sl.Kind() == types.MethodVal {
					methods[e.Sel.Name] = true
				}
			case *ast.CallExpr:
				if f := callee(inf, e); f != nil && f.Pkg() != nil && strings.HasSuffix(f.Pkg().Path(), "/cmpx") && (f.Name() == "Key" || f.Name() == "Map") {
					nKeys++
				}
			case *ast.Ident:
				if f, ok := inf.Uses[e].(*types.Func); ok && depth < 4 && !seenFn[f] && f.Type().(*types.Signature).Recv() == nil {
					if d := w.decls[f]; d != nil && d.Body != nil && f.Pkg() == p.Types {
						seenFn[f] = true
						visit(d.Body, inf, depth+1)
					}
				}
			}
			return true
		})
	}
	visit(cmpArg, info, 0)
	w.floor("sort keys of Canonicalize", nKeys, 6)
	snippetsWhole := false
	for i := 0; i < st.NumFields(); i++ {
		f := st.Field(i)
		key := "Canonicalize|unkeyed:" + f.Name()
		switch {
		case f.Name() == "snippets":
			if mentioned[f] {
				snippetsWhole = true
				w.ok("Canonicalize|keyed:snippets", f.Pos(), "the whole snippet list is handed to a comparator")
			} else if methods["Primary"] {
				w.ok("Canonicalize|keyed:snippets.primary", f.Pos(), "the primary snippet's file, start and end are sort keys")
				w.violation("Canonicalize|unkeyed:snippets.secondary", f.Pos(), "secondary snippets (and snippet messages/edits) are not part of the sort key: diagnostics differing only there keep their input order, so the canonical order depends on the input order")
			} else {
				w.violation(key, f.Pos(), "Diagnostic.snippets is observable but not part of the sort key")
			}
		case mentioned[f]:
			w.ok(key, f.Pos(), "field is a sort key")
		default:
			w.violation(key, f.Pos(), "Diagnostic."+f.Name()+" is observable but not part of the sort key: two diagnostics that differ only in it tie, and ties keep (an unspecified function of) the input order, so Canonicalize is not order-insensitive")
		}
	}
	if snippetsWhole {
		check := func(owner string, t *types.Struct) {
			for i := 0; i < t.NumFields(); i++ {
				f := t.Field(i)
				key := "Canonicalize|unkeyed:snippets." + owner + f.Name()
				switch {
				case f.Embedded():
					// the embedded source.Span: Start and End by field, the file by File or Path()
					if sp, ok := f.Type().Underlying().(*types.Struct); ok {
						for j := 0; j < sp.NumFields(); j++ {
							g := sp.Field(j)
							k2 := "Canonicalize|unkeyed:snippets.Span." + g.Name()
							if mentioned[g] || (g.Name() == "File" && methods["Path"]) {
								w.ok(k2, g.Pos(), "span component is compared")
							} else {
								w.violation(k2, g.Pos(), "snippet span component "+g.Name()+" is not compared by the snippet ordering")
							}
						}
					}
				case mentioned[f]:
					w.ok(key, f.Pos(), "compared by the snippet ordering")
				default:
					w.violation(key, f.Pos(), "snippet/edit field "+f.Name()+" is not compared by the snippet ordering: diagnostics differing only there tie")
				}
			}
		}
		check("", snip.Underlying().(*types.Struct))
		check("Edit.", edit.Underlying().(*types.Struct))
	}
	if stable {
		w.info("Canonicalize|sort", canon.Decl.Pos(), "uses a stable sort")
	}
}
