package main

import (
	"fmt"
	"go/ast"
	"go/token"
	"go/types"
	"sort"
	"strings"

	"golang.org/x/tools/go/cfg"
	"golang.org/x/tools/go/packages"
)

// Rule RA: guarded-by. A table maps struct fields to the mutex field (of the same struct
// value) that must be held when the field is touched.

type guard struct {
	field *types.Var
	mutex string // name of the mutex field in the same struct
	rw    bool   // RWMutex: reads may hold R or W, writes need W
	label string
}

type lockAccess struct {
	fn      string // enclosing function display name
	fnObj   *types.Func
	pos     token.Pos
	g       *guard
	base    string // rendered base expression
	baseObj types.Object
	write   bool
	locks   Facts
	async   bool // inside a goroutine body: caller-held locks do not carry over
}

type lockCall struct {
	fn     string
	fnObj  *types.Func
	pos    token.Pos
	callee *types.Func
	recv   ast.Expr   // receiver expression (nil for plain functions)
	args   []ast.Expr // arguments
	locks  Facts
}

type lockUnit struct {
	fnObj  *types.Func // enclosing declared function
	name   string
	params map[types.Object]int // receiver = -1, params 0..n
	fresh  map[types.Object]token.Pos
}

type lockAnalysis struct {
	w        *World
	p        *packages.Package
	guards   map[*types.Var]*guard
	accesses []lockAccess
	calls    []lockCall
	blocking []lockBlocking
}

type lockBlocking struct {
	fn    string
	pos   token.Pos
	what  string
	locks Facts
}

func mutexMethod(f *types.Func) (kind string) {
	if f == nil || f.Pkg() == nil || f.Pkg().Path() != "sync" {
		return ""
	}
	sig := f.Type().(*types.Signature)
	if sig.Recv() == nil {
		return ""
	}
	t := sig.Recv().Type()
	if p, ok := t.(*types.Pointer); ok {
		t = p.Elem()
	}
	n, ok := t.(*types.Named)
	if !ok || (n.Obj().Name() != "Mutex" && n.Obj().Name() != "RWMutex") {
		return ""
	}
	switch f.Name() {
	case "Lock", "Unlock", "RLock", "RUnlock":
		return f.Name()
	}
	return ""
}

// lockTransfer applies Lock/Unlock calls found in node n (not in defers, not in FuncLits).
func lockTransfer(info *types.Info, n ast.Node, in Facts) Facts {
	if _, ok := n.(*ast.DeferStmt); ok {
		return in // deferred unlock releases at exit only
	}
	if _, ok := n.(*ast.GoStmt); ok {
		return in
	}
	out := in
	for _, c := range callsIn(n) {
		k := mutexMethod(callee(info, c))
		if k == "" {
			continue
		}
		sel, ok := ast.Unparen(c.Fun).(*ast.SelectorExpr)
		if !ok {
			continue
		}
		m := render(sel.X)
		switch k {
		case "Lock":
			out = out.with("W:" + m)
		case "RLock":
			out = out.with("R:" + m)
		case "Unlock":
			out = out.without("W:" + m)
		case "RUnlock":
			out = out.without("R:" + m)
		}
	}
	return out
}

func (la *lockAnalysis) analyzeBody(u *lockUnit, body *ast.BlockStmt, init Facts, label string, async bool) {
	info := la.p.TypesInfo
	g := buildCFG(info, body)
	d := &Dataflow{G: g, Must: true, Init: init,
		Transfer: func(n ast.Node, in Facts) Facts { return lockTransfer(info, n, in) }}
	d.Run()
	d.Walk(func(b *cfg.Block, n ast.Node, before Facts) {
		la.scanNode(u, n, before, label, async)
	})
}

// scanNode records guarded-field accesses, call sites and nested function literals in n.
func (la *lockAnalysis) scanNode(u *lockUnit, n ast.Node, locks Facts, label string, async bool) {
	info := la.p.TypesInfo
	// classify writes: LHS of assignment / inc-dec / delete() first arg / address-of
	writes := map[ast.Expr]bool{}
	markWrite := func(e ast.Expr) {
		e = ast.Unparen(e)
		for {
			if ix, ok := e.(*ast.IndexExpr); ok {
				e = ast.Unparen(ix.X)
				continue
			}
			break
		}
		writes[e] = true
	}
	switch s := n.(type) {
	case *ast.AssignStmt:
		for _, l := range s.Lhs {
			markWrite(l)
		}
	case *ast.IncDecStmt:
		markWrite(s.X)
	case *ast.DeferStmt, *ast.GoStmt:
	}
	// track locks taken inside this very node in order, so `x.mu.Lock(); x.f` on one line is fine
	cur := locks
	_, isDefer := n.(*ast.DeferStmt)
	_, isGo := n.(*ast.GoStmt)
	inspectPost(n, func(x ast.Node) {
		switch e := x.(type) {
		case *ast.UnaryExpr:
			if e.Op == token.AND {
				markWrite(e.X)
			}
		case *ast.CallExpr:
			if isBuiltinCall(info, e, "delete") && len(e.Args) > 0 {
				// the map operand was already visited (post-order); fix up below via re-scan
				la.fixDelete(u, e, cur, label)
			}
			f := callee(info, e)
			if k := mutexMethod(f); k != "" && !isDefer && !isGo {
				if sel, ok := ast.Unparen(e.Fun).(*ast.SelectorExpr); ok {
					m := render(sel.X)
					switch k {
					case "Lock":
						cur = cur.with("W:" + m)
					case "RLock":
						cur = cur.with("R:" + m)
					case "Unlock":
						cur = cur.without("W:" + m)
					case "RUnlock":
						cur = cur.without("R:" + m)
					}
				}
			}
			if f != nil && !isDefer && !isGo {
				lc := lockCall{fn: label, fnObj: u.fnObj, pos: e.Pos(), callee: f, args: e.Args, locks: cur}
				if sel, ok := ast.Unparen(e.Fun).(*ast.SelectorExpr); ok {
					if s := info.Selections[sel]; s != nil {
						lc.recv = sel.X
					}
				}
				la.calls = append(la.calls, lc)
				la.w.CallSites++
			}
		case *ast.SelectorExpr:
			sel := info.Selections[e]
			if sel == nil {
				return
			}
			v, ok := sel.Obj().(*types.Var)
			if !ok {
				return
			}
			g := la.guards[v]
			if g == nil {
				return
			}
			acc := lockAccess{fn: label, fnObj: u.fnObj, pos: e.Pos(), g: g, base: render(e.X), write: writes[ast.Expr(e)], locks: cur, async: async}
			if id, ok := ast.Unparen(e.X).(*ast.Ident); ok {
				acc.baseObj = info.Uses[id]
			}
			la.accesses = append(la.accesses, acc)
		case *ast.FuncLit:
			// synchronous if called directly or passed as a call argument in a non-go, non-defer node
			init := Facts{}
			lbl := label + "$lit"
			if !isGo && !isDefer {
				init = cur
			}
			la.analyzeBody(u, e.Body, init, lbl, async || isGo)
		}
	})
}

// fixDelete marks the most recent access matching delete's first argument as a write.
func (la *lockAnalysis) fixDelete(u *lockUnit, call *ast.CallExpr, cur Facts, label string) {
	arg := ast.Unparen(call.Args[0])
	for i := len(la.accesses) - 1; i >= 0; i-- {
		if la.accesses[i].pos == arg.Pos() {
			la.accesses[i].write = true
			return
		}
	}
}

func hasLock(locks Facts, mutexExpr string, write, rw bool) bool {
	if locks["W:"+mutexExpr] {
		return true
	}
	if rw && !write && locks["R:"+mutexExpr] {
		return true
	}
	return false
}

// freshLocals finds local variables bound to a freshly allocated object (&T{…}, new(T), T{…})
// in the function and the source position at which each first escapes (is used other than as the
// base of a field selector, or is captured by a function literal). Accesses through the variable
// before that position are constructor accesses on an unshared object.
func freshLocals(info *types.Info, body *ast.BlockStmt) map[types.Object]token.Pos {
	fresh := map[types.Object]token.Pos{}
	const never = token.Pos(1 << 40)
	isFresh := func(e ast.Expr) bool {
		e = ast.Unparen(e)
		if u, ok := e.(*ast.UnaryExpr); ok && u.Op == token.AND {
			e = ast.Unparen(u.X)
		}
		switch x := e.(type) {
		case *ast.CompositeLit:
			return true
		case *ast.CallExpr:
			return isBuiltinCall(info, x, "new")
		}
		return false
	}
	defIdents := map[*ast.Ident]bool{}
	ast.Inspect(body, func(n ast.Node) bool {
		switch s := n.(type) {
		case *ast.AssignStmt:
			if len(s.Lhs) == len(s.Rhs) {
				for i, l := range s.Lhs {
					if id, ok := l.(*ast.Ident); ok && isFresh(s.Rhs[i]) {
						if o := info.Defs[id]; o != nil {
							fresh[o] = never
							defIdents[id] = true
						} else if o := info.Uses[id]; o != nil && s.Tok == token.ASSIGN {
							if _, isVar := o.(*types.Var); isVar && o.Parent() != nil && o.Pkg() != nil && o.Parent() != o.Pkg().Scope() {
								fresh[o] = never
								defIdents[id] = true
							}
						}
					}
				}
			}
		case *ast.ValueSpec:
			for i, id := range s.Names {
				if i < len(s.Values) && isFresh(s.Values[i]) {
					fresh[info.Defs[id]] = never
					defIdents[id] = true
				}
			}
		}
		return true
	})
	if len(fresh) == 0 {
		return fresh
	}
	// escape positions
	var stack []ast.Node
	ast.Inspect(body, func(n ast.Node) bool {
		if n == nil {
			stack = stack[:len(stack)-1]
			return true
		}
		if id, ok := n.(*ast.Ident); ok && !defIdents[id] {
			if o := info.Uses[id]; o != nil {
				if cur, isFreshVar := fresh[o]; isFreshVar {
					esc := true
					if len(stack) > 0 {
						if sel, ok := stack[len(stack)-1].(*ast.SelectorExpr); ok && sel.X == id {
							if s := info.Selections[sel]; s != nil && s.Kind() == types.FieldVal {
								esc = false
							}
						}
					}
					pos := id.Pos()
					for _, a := range stack {
						if fl, ok := a.(*ast.FuncLit); ok {
							esc = true
							pos = fl.Pos()
							break
						}
					}
					if esc && pos < cur {
						fresh[o] = pos
					}
				}
			}
		}
		stack = append(stack, n)
		return true
	})
	return fresh
}

// runGuardedBy analyses all functions of package p against the guard table and emits obligations.
// It returns the analysis so that other rules (RF: no blocking under lock) can reuse the call sites.
func (w *World) runGuardedBy(p *packages.Package, guards []*guard) *lockAnalysis {
	la := &lockAnalysis{w: w, p: p, guards: map[*types.Var]*guard{}}
	for _, g := range guards {
		if g.field != nil {
			la.guards[g.field] = g
		}
	}
	units := map[*types.Func]*lockUnit{}
	for _, f := range p.Syntax {
		for _, d := range f.Decls {
			fd, ok := d.(*ast.FuncDecl)
			if !ok || fd.Body == nil {
				continue
			}
			obj, _ := p.TypesInfo.Defs[fd.Name].(*types.Func)
			if obj == nil {
				continue
			}
			u := &lockUnit{fnObj: obj, name: funcName(obj), params: map[types.Object]int{}}
			if fd.Recv != nil && len(fd.Recv.List) == 1 && len(fd.Recv.List[0].Names) == 1 {
				u.params[p.TypesInfo.Defs[fd.Recv.List[0].Names[0]]] = -1
			}
			i := 0
			for _, fl := range fd.Type.Params.List {
				if len(fl.Names) == 0 {
					i++
				}
				for _, nm := range fl.Names {
					u.params[p.TypesInfo.Defs[nm]] = i
					i++
				}
			}
			u.fresh = freshLocals(p.TypesInfo, fd.Body)
			units[obj] = u
			w.FuncsSeen[u.name] = true
			la.analyzeBody(u, fd.Body, Facts{}, u.name, false)
		}
	}

	// requirement: function fn needs lock (mode) on the mutex field `mutex` of its parameter idx.
	type req struct {
		fn    *types.Func
		idx   int
		mutex string
		write bool
		rw    bool
	}
	reqKey := func(r req) string {
		return fmt.Sprintf("%s#%d.%s/%v", funcName(r.fn), r.idx, r.mutex, r.write)
	}
	reqs := map[string]req{}
	var pending []req
	type accVerdict struct {
		acc lockAccess
		ok  bool
		via string
	}
	var verdicts []accVerdict
	for _, a := range la.accesses {
		mexpr := a.base + "." + a.g.mutex
		if hasLock(a.locks, mexpr, a.write, a.g.rw) {
			verdicts = append(verdicts, accVerdict{a, true, "lock " + mexpr + " held: " + a.locks.String()})
			continue
		}
		u := units[a.fnObj]
		if u != nil && a.baseObj != nil {
			if esc, isFresh := u.fresh[a.baseObj]; isFresh && a.pos < esc {
				verdicts = append(verdicts, accVerdict{a, true, "constructor access: " + a.base + " is a fresh object not yet shared"})
				continue
			}
			if idx, ok := u.params[a.baseObj]; ok && !a.async {
				r := req{fn: a.fnObj, idx: idx, mutex: a.g.mutex, write: a.write, rw: a.g.rw}
				if _, seen := reqs[reqKey(r)]; !seen {
					reqs[reqKey(r)] = r
					pending = append(pending, r)
				}
				verdicts = append(verdicts, accVerdict{a, true, "caller-holds: discharged at the call sites of " + funcName(a.fnObj) + " (separate obligations)"})
				continue
			}
		}
		verdicts = append(verdicts, accVerdict{a, false, ""})
	}
	for _, v := range verdicts {
		a := v.acc
		mode := "read"
		if a.write {
			mode = "write"
		}
		key := fmt.Sprintf("%s|%s %s.%s", a.fn, mode, a.base, a.g.field.Name())
		if v.ok {
			w.ok(key, a.pos, v.via)
		} else {
			w.violation(key, a.pos, fmt.Sprintf("%s of %s (guarded by %s.%s) with lock set %s: the guarding mutex of the same value is not held on every path to this access",
				mode, a.g.label, a.base, a.g.mutex, a.locks.String()))
		}
	}
	// discharge caller-holds requirements at call sites (propagating through helpers)
	for len(pending) > 0 {
		r := pending[0]
		pending = pending[1:]
		sites := 0
		for _, c := range la.calls {
			if c.callee != r.fn {
				continue
			}
			sites++
			var arg ast.Expr
			if r.idx == -1 {
				arg = c.recv
			} else if r.idx < len(c.args) {
				arg = c.args[r.idx]
			}
			key := fmt.Sprintf("%s|call %s needs %s.%s", c.fn, funcName(r.fn), "arg", r.mutex)
			if arg == nil {
				w.violation(key, c.pos, "cannot identify the argument whose mutex must be held")
				continue
			}
			mexpr := render(arg) + "." + r.mutex
			if hasLock(c.locks, mexpr, r.write, r.rw) {
				w.ok(key, c.pos, "caller holds "+mexpr+": "+c.locks.String())
				continue
			}
			// propagate to the caller if arg is the caller's own receiver/param
			u := units[c.fnObj]
			if id, ok := ast.Unparen(arg).(*ast.Ident); ok && u != nil {
				o := la.p.TypesInfo.Uses[id]
				if esc, isFresh := u.fresh[o]; isFresh && c.pos <= esc {
					w.ok(key, c.pos, "argument is a fresh, unshared object")
					continue
				}
				if idx, ok := u.params[o]; ok {
					nr := req{fn: c.fnObj, idx: idx, mutex: r.mutex, write: r.write, rw: r.rw}
					if _, seen := reqs[reqKey(nr)]; !seen {
						reqs[reqKey(nr)] = nr
						pending = append(pending, nr)
					}
					w.ok(key, c.pos, "propagated: "+funcName(c.fnObj)+" itself requires its caller to hold "+mexpr)
					continue
				}
			}
			w.violation(key, c.pos, fmt.Sprintf("%s touches guarded state of its argument and relies on the caller holding %s, but this call site holds only %s", funcName(r.fn), mexpr, c.locks.String()))
		}
		if sites == 0 {
			fd := w.decls[r.fn]
			pos := token.NoPos
			if fd != nil {
				pos = fd.Pos()
			}
			exported := r.fn.Exported()
			w.violation(fmt.Sprintf("%s|no-call-site needs %s", funcName(r.fn), r.mutex), pos,
				fmt.Sprintf("%s touches guarded state without taking the lock and has no static call site in the package that could hold it (exported=%v)", funcName(r.fn), exported))
		}
	}
	return la
}

// sortedKeys helper
func sortedKeys[V any](m map[string]V) []string {
	ks := make([]string, 0, len(m))
	for k := range m {
		ks = append(ks, k)
	}
	sort.Strings(ks)
	return ks
}

var _ = strings.Join
