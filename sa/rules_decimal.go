package main

import (
	"fmt"
	"go/ast"
	"go/constant"
	"go/token"
	"go/types"
	"math/big"
	"sort"
	"strings"

	"golang.org/x/tools/go/cfg"
)

// C39 — decimal → binary64 conversion (internal/decimal). Correct rounding as such is a numerical
// property; three clauses of it are visible in the shape of the code and are decided here:
//
//	RDC1  the power-of-five helper is evaluated on its whole (finite) domain: for every n admitted
//	      by a case of pow5's switch the table indexes are in range and the product of the table
//	      constants the case combines equals 5^n (to within the rounding of the constants). A
//	      mistyped table entry or index expression breaks the conversion of every numeral whose
//	      exponent selects it.
//	RDC3  single rounding: for every exponent the caller can pass (its path condition evaluated on
//	      a finite range of exponents, unknown boolean atoms enumerated), the fast path performs at
//	      most one inexact step — an IEEE multiplication/division by a value other than 1 counts
//	      one, a table constant whose exact value is not representable in binary64 counts one.
//	      Two inexact steps round twice, and the result is then not always the nearest binary64
//	      (Clinger's fast path condition: mantissa < 2^53 and |exponent| <= 22).
//	RDC2  the exactness flag is recomputed after every rounding-capable step: typestate over
//	      Float64's CFG — fact R "v was produced by a rounding-capable operation since `exact` was
//	      last assigned", fact T "exact may be true"; a return that reports `exact` with R and T
//	      both alive claims exactness for a rounded value.
//
// Not decided: that strconv.ParseFloat is correctly rounded (trusted), the bigx helpers, Ldexp
// underflow into the subnormal range, the parser of decimal numerals.

type hres struct {
	inexact int
	finite  bool
}

type ratVal struct {
	isInt bool
	i     int64
	r     *big.Rat // float-typed values, exact
	inf   bool
}

// exactConst evaluates a constant expression made of literals with exact arithmetic (go/constant on
// the literals' own text, not the value go/types rounded to the array's element type).
func exactConst(e ast.Expr) (constant.Value, bool) {
	e = ast.Unparen(e)
	switch x := e.(type) {
	case *ast.BasicLit:
		v := constant.MakeFromLiteral(x.Value, x.Kind, 0)
		return v, v.Kind() != constant.Unknown
	case *ast.BinaryExpr:
		a, ok1 := exactConst(x.X)
		b, ok2 := exactConst(x.Y)
		if !ok1 || !ok2 {
			return nil, false
		}
		if x.Op == token.QUO {
			a, b = constant.ToFloat(a), constant.ToFloat(b)
		}
		v := constant.BinaryOp(a, x.Op, b)
		return v, v.Kind() != constant.Unknown
	case *ast.UnaryExpr:
		a, ok := exactConst(x.X)
		if !ok {
			return nil, false
		}
		v := constant.UnaryOp(x.Op, a, 0)
		return v, v.Kind() != constant.Unknown
	}
	return nil, false
}

func constToRat(v constant.Value) (*big.Rat, bool) {
	switch x := constant.Val(constant.ToFloat(v)).(type) {
	case *big.Rat:
		return new(big.Rat).Set(x), true
	case *big.Float:
		r, _ := x.Rat(nil)
		return r, r != nil
	case int64:
		return new(big.Rat).SetInt64(x), true
	case *big.Int:
		return new(big.Rat).SetInt(x), true
	}
	return nil, false
}

// roundsToItself reports whether the exact rational r is representable as a binary64 value.
func roundsToItself(r *big.Rat) bool {
	f, _ := new(big.Float).SetPrec(2000).SetRat(r).Float64()
	back := new(big.Rat)
	if back.SetFloat64(f) == nil {
		return false
	}
	return back.Cmp(r) == 0
}

func toFloat64Rat(r *big.Rat) *big.Rat {
	f, _ := new(big.Float).SetPrec(2000).SetRat(r).Float64()
	back := new(big.Rat)
	if back.SetFloat64(f) == nil {
		return nil
	}
	return back
}

type decTables map[types.Object][]ast.Expr // package-level float tables -> element expressions

func decimalTables(info *types.Info, files []*ast.File) decTables {
	out := decTables{}
	for _, f := range files {
		for _, d := range f.Decls {
			gd, ok := d.(*ast.GenDecl)
			if !ok || gd.Tok != token.VAR {
				continue
			}
			for _, sp := range gd.Specs {
				vs := sp.(*ast.ValueSpec)
				for i, nm := range vs.Names {
					if i >= len(vs.Values) {
						continue
					}
					cl, ok := vs.Values[i].(*ast.CompositeLit)
					if !ok {
						continue
					}
					t := info.TypeOf(cl)
					if t == nil {
						continue
					}
					var elem types.Type
					switch u := t.Underlying().(type) {
					case *types.Array:
						elem = u.Elem()
					case *types.Slice:
						elem = u.Elem()
					}
					if bt, ok := elem.(*types.Basic); !ok || bt.Kind() != types.Float64 {
						continue
					}
					out[info.Defs[nm]] = cl.Elts
				}
			}
		}
	}
	return out
}

// pow5Eval evaluates a return expression of the power helper for one n: exact product of the
// (binary64-rounded) table constants, the number of inexact steps, and any index problem.
type pow5Eval struct {
	info    *types.Info
	tables  decTables
	nName   string
	fName   string
	n       int64
	inexact int      // IEEE operations that can round + constants that are not exact
	problem string   // out-of-range index etc.
	used    []string // table entries used
}

func (ev *pow5Eval) eval(e ast.Expr) (ratVal, bool) {
	e = ast.Unparen(e)
	switch x := e.(type) {
	case *ast.Ident:
		if x.Name == ev.nName {
			return ratVal{isInt: true, i: ev.n}, true
		}
		if x.Name == ev.fName {
			return ratVal{r: big.NewRat(1, 1)}, true
		}
		if tv, ok := ev.info.Types[x]; ok && tv.Value != nil {
			if tv.Value.Kind() == constant.Int {
				v, ok := constant.Int64Val(tv.Value)
				return ratVal{isInt: true, i: v}, ok
			}
			if r, ok := constToRat(tv.Value); ok {
				return ratVal{r: r}, true
			}
		}
	case *ast.BasicLit:
		if tv, ok := ev.info.Types[x]; ok && tv.Value != nil {
			if bt, ok := tv.Type.Underlying().(*types.Basic); ok && bt.Info()&types.IsInteger != 0 {
				v, ok := constant.Int64Val(constant.ToInt(tv.Value))
				return ratVal{isInt: true, i: v}, ok
			}
			if r, ok := constToRat(tv.Value); ok {
				return ratVal{r: r}, true
			}
		}
	case *ast.UnaryExpr:
		a, ok := ev.eval(x.X)
		if !ok {
			return ratVal{}, false
		}
		if x.Op == token.SUB {
			if a.isInt {
				return ratVal{isInt: true, i: -a.i}, true
			}
			return ratVal{r: new(big.Rat).Neg(a.r)}, true
		}
	case *ast.CallExpr:
		if tv, ok := ev.info.Types[x.Fun]; ok && tv.IsType() && len(x.Args) == 1 {
			a, ok := ev.eval(x.Args[0])
			if !ok {
				return ratVal{}, false
			}
			bt, _ := tv.Type.Underlying().(*types.Basic)
			if bt != nil && bt.Info()&types.IsInteger != 0 && a.isInt {
				if bt.Info()&types.IsUnsigned != 0 && a.i < 0 {
					ev.problem = fmt.Sprintf("%s converts the negative value %d to an unsigned type", types.ExprString(x), a.i)
				}
				return a, true
			}
			if bt != nil && bt.Info()&types.IsFloat != 0 {
				if a.isInt {
					return ratVal{r: new(big.Rat).SetInt64(a.i)}, true
				}
				return a, true
			}
		}
		if f := callee(ev.info, x); f != nil && f.Pkg() != nil && f.Pkg().Path() == "math" && f.Name() == "Inf" {
			return ratVal{inf: true}, true
		}
	case *ast.IndexExpr:
		id, ok := ast.Unparen(x.X).(*ast.Ident)
		if !ok {
			return ratVal{}, false
		}
		elts, ok := ev.tables[ev.info.Uses[id]]
		if !ok {
			return ratVal{}, false
		}
		ix, ok := ev.eval(x.Index)
		if !ok || !ix.isInt {
			return ratVal{}, false
		}
		if ix.i < 0 || ix.i >= int64(len(elts)) {
			ev.problem = fmt.Sprintf("%s[%d] is out of range (len %d)", id.Name, ix.i, len(elts))
			return ratVal{}, false
		}
		cv, ok := exactConst(elts[ix.i])
		if !ok {
			return ratVal{}, false
		}
		r, ok := constToRat(cv)
		if !ok {
			return ratVal{}, false
		}
		ev.used = append(ev.used, fmt.Sprintf("%s[%d]", id.Name, ix.i))
		if !roundsToItself(r) {
			ev.inexact++
			r = toFloat64Rat(r)
			if r == nil {
				return ratVal{}, false
			}
		}
		return ratVal{r: r}, true
	case *ast.BinaryExpr:
		a, ok1 := ev.eval(x.X)
		b, ok2 := ev.eval(x.Y)
		if !ok1 || !ok2 {
			return ratVal{}, false
		}
		if a.isInt && b.isInt {
			switch x.Op {
			case token.ADD:
				return ratVal{isInt: true, i: a.i + b.i}, true
			case token.SUB:
				return ratVal{isInt: true, i: a.i - b.i}, true
			case token.MUL:
				return ratVal{isInt: true, i: a.i * b.i}, true
			case token.QUO:
				if b.i == 0 {
					return ratVal{}, false
				}
				return ratVal{isInt: true, i: a.i / b.i}, true
			case token.REM:
				if b.i == 0 {
					return ratVal{}, false
				}
				return ratVal{isInt: true, i: a.i % b.i}, true
			}
			return ratVal{}, false
		}
		if a.isInt || b.isInt || a.inf || b.inf {
			return ratVal{}, false
		}
		one := big.NewRat(1, 1)
		switch x.Op {
		case token.MUL:
			// the running value is symbolic (f stands for an arbitrary mantissa): a multiplication
			// by anything but exactly 1 can round
			if b.r.Cmp(one) != 0 && !(types.ExprString(ast.Unparen(x.X)) == ev.fName && false) {
				ev.inexact++
			}
			return ratVal{r: new(big.Rat).Mul(a.r, b.r)}, true
		case token.QUO:
			if b.r.Sign() == 0 {
				return ratVal{}, false
			}
			if b.r.Cmp(one) != 0 {
				ev.inexact++
			}
			return ratVal{r: new(big.Rat).Quo(a.r, b.r)}, true
		}
	}
	return ratVal{}, false
}

func pow5Exact(n int64) *big.Rat {
	p := new(big.Int).Exp(big.NewInt(5), big.NewInt(abs64(n)), nil)
	if n >= 0 {
		return new(big.Rat).SetInt(p)
	}
	return new(big.Rat).SetFrac(big.NewInt(1), p)
}

func abs64(x int64) int64 {
	if x < 0 {
		return -x
	}
	return x
}

// powerHelpers finds the functions of the package with signature (float64, int) float64 whose
// return expressions index a float table: the "multiply by 5^n" helpers.
func powerHelpers(w *World, rel string, tables decTables) []*FuncRef {
	p := w.pkg(rel)
	if p == nil {
		return nil
	}
	var out []*FuncRef
	for _, b := range allFuncBodies(p) {
		if b.Lit != nil || b.Decl.Recv != nil {
			continue
		}
		sig := b.Obj.Type().(*types.Signature)
		if sig.Params().Len() != 2 || sig.Results().Len() < 1 {
			continue
		}
		p0, _ := sig.Params().At(0).Type().Underlying().(*types.Basic)
		p1, _ := sig.Params().At(1).Type().Underlying().(*types.Basic)
		if p0 == nil || p1 == nil || p0.Kind() != types.Float64 || p1.Info()&types.IsInteger == 0 {
			continue
		}
		usesTable := false
		ast.Inspect(b.Body, func(x ast.Node) bool {
			if ix, ok := x.(*ast.IndexExpr); ok {
				if id, ok := ast.Unparen(ix.X).(*ast.Ident); ok {
					if _, ok := tables[p.TypesInfo.Uses[id]]; ok {
						usesTable = true
					}
				}
			}
			return true
		})
		if usesTable {
			out = append(out, w.fn(rel, b.Obj.Name()))
		}
	}
	return out
}

// helperCases returns, for a helper, the function evaluating it for one n: which return expression
// applies (first case of the switch whose guard holds; or the single return) .
func helperReturnFor(info *types.Info, fr *FuncRef, n int64) (ast.Expr, bool) {
	nName := fr.Decl.Type.Params.List[len(fr.Decl.Type.Params.List)-1].Names[len(fr.Decl.Type.Params.List[len(fr.Decl.Type.Params.List)-1].Names)-1].Name
	env := &numEnv{info: info, vars: map[string]num{nName: {i: n}}}
	var walk func(list []ast.Stmt) (ast.Expr, bool)
	walk = func(list []ast.Stmt) (ast.Expr, bool) {
		for _, st := range list {
			switch s := st.(type) {
			case *ast.ReturnStmt:
				if len(s.Results) >= 1 {
					return s.Results[0], true
				}
				return nil, false
			case *ast.IfStmt:
				c, ok := env.eval(s.Cond)
				if !ok || !c.isBool {
					return nil, false
				}
				if c.b {
					if e, ok := walk(s.Body.List); ok || e != nil {
						return e, ok
					}
					// body fell through
				} else if s.Else != nil {
					switch el := s.Else.(type) {
					case *ast.BlockStmt:
						if e, ok := walk(el.List); ok {
							return e, ok
						}
					case *ast.IfStmt:
						if e, ok := walk([]ast.Stmt{el}); ok {
							return e, ok
						}
					}
				}
			case *ast.SwitchStmt:
				if s.Tag != nil || s.Init != nil {
					return nil, false
				}
				var def *ast.CaseClause
				matched := false
				for _, c := range s.Body.List {
					cc := c.(*ast.CaseClause)
					if cc.List == nil {
						def = cc
						continue
					}
					hit := false
					for _, ce := range cc.List {
						v, ok := env.eval(ce)
						if !ok || !v.isBool {
							return nil, false
						}
						if v.b {
							hit = true
						}
					}
					if hit {
						matched = true
						if e, ok := walk(cc.Body); ok {
							return e, ok
						}
						break
					}
				}
				if !matched && def != nil {
					if e, ok := walk(def.Body); ok {
						return e, ok
					}
				}
			case *ast.AssignStmt, *ast.DeclStmt, *ast.ExprStmt:
				return nil, false // local computation: not modelled
			}
		}
		return nil, false
	}
	return walk(fr.Decl.Body.List)
}

func rdcDecimal(w *World) {
	const rel = "internal/decimal"
	p := w.pkg(rel)
	conv := w.fn(rel, "(*Decimal).Float64")
	if p == nil || conv == nil {
		return
	}
	info := p.TypesInfo
	tables := decimalTables(info, p.Syntax)
	helpers := powerHelpers(w, rel, tables)
	isHelper := map[*types.Func]*FuncRef{}
	for _, h := range helpers {
		if h != nil {
			isHelper[h.Obj] = h
		}
	}

	// ---- call sites of the helpers and the exponents they can pass
	type site struct {
		fn       bodyRef
		call     *ast.CallExpr
		helper   *types.Func
		admitted []int64
		atoms    []string
		nConds   int
		problem  string
	}
	var sites []*site
	domain := map[*types.Func]map[int64]bool{}
	for _, b := range allFuncBodies(p) {
		if b.Lit != nil {
			continue
		}
		var parents map[ast.Node]ast.Node
		ast.Inspect(b.Body, func(x ast.Node) bool {
			call, ok := x.(*ast.CallExpr)
			if !ok {
				return true
			}
			f := callee(info, call)
			if f == nil || isHelper[f] == nil || len(call.Args) != 2 || b.Obj == f {
				return true
			}
			if parents == nil {
				parents = parentMap(b.Decl)
			}
			st := &site{fn: b, call: call, helper: f}
			sites = append(sites, st)
			if domain[f] == nil {
				domain[f] = map[int64]bool{}
			}
			argName := render(call.Args[1])
			conds := pathConds(info, parents, call)
			st.nConds = len(conds)
			ce := &condEval{info: info, vars: map[string]int64{argName: 7}, atoms: map[string]bool{}, missing: map[string]bool{}}
			for _, c := range conds {
				ce.evalLit(c)
			}
			for a := range ce.missing {
				st.atoms = append(st.atoms, a)
			}
			sort.Strings(st.atoms)
			if len(st.atoms) > 8 {
				st.problem = fmt.Sprintf("path condition has %d unknown atoms", len(st.atoms))
				for n := int64(-400); n <= 400; n++ {
					domain[f][n] = true
				}
				return true
			}
			for n := int64(-400); n <= 400; n++ {
				ok := false
				for mask := 0; mask < 1<<len(st.atoms) && !ok; mask++ {
					ce.atoms = map[string]bool{}
					for i, a := range st.atoms {
						ce.atoms[a] = mask&(1<<i) != 0
					}
					ce.vars[argName] = n
					all := true
					for _, c := range conds {
						if ce.evalLit(c) == triFalse {
							all = false
							break
						}
					}
					ok = all
				}
				if ok {
					st.admitted = append(st.admitted, n)
					domain[f][n] = true
				}
			}
			return true
		})
	}

	// ---------------- RDC1: the helper on the exponents its callers can pass
	w.rule("RDC1")
	results := map[*types.Func]map[int64]hres{}
	for _, h := range helpers {
		if h == nil {
			continue
		}
		var names []string
		for _, f := range h.Decl.Type.Params.List {
			for _, nm := range f.Names {
				names = append(names, nm.Name)
			}
		}
		if len(names) != 2 {
			w.undecided("power-helper|"+h.Name+"|shape", h.Decl.Pos(), "parameters are not (f float64, n int)")
			continue
		}
		results[h.Obj] = map[int64]hres{}
		dom := domain[h.Obj]
		if dom == nil {
			w.info("power-helper|"+h.Name+"|unused", h.Decl.Pos(), "the helper has no caller in the package")
			continue
		}
		checked, bad := 0, []string{}
		lo, hi := int64(1<<40), int64(-(1 << 40))
		for n := int64(-400); n <= 400; n++ {
			if !dom[n] {
				continue
			}
			if n < lo {
				lo = n
			}
			if n > hi {
				hi = n
			}
			re, ok := helperReturnFor(info, h, n)
			if !ok || re == nil {
				bad = append(bad, fmt.Sprintf("n=%d: the returned expression could not be determined", n))
				continue
			}
			ev := &pow5Eval{info: info, tables: tables, fName: names[0], nName: names[1], n: n}
			v, ok := ev.eval(re)
			if ev.problem != "" {
				bad = append(bad, fmt.Sprintf("n=%d: %s", n, ev.problem))
				continue
			}
			if !ok {
				bad = append(bad, fmt.Sprintf("n=%d: %s could not be evaluated", n, types.ExprString(re)))
				continue
			}
			want := pow5Exact(n)
			if v.inf || (v.r != nil && v.r.Sign() == 0) {
				// saturating cases: 5^n must really be outside the binary64 range
				wf := new(big.Float).SetPrec(2000).SetRat(want)
				if v.inf && wf.Cmp(big.NewFloat(1.7976931348623157e308)) <= 0 {
					bad = append(bad, fmt.Sprintf("n=%d: returns +Inf although 5^%d is a finite binary64 value", n, n))
				}
				if !v.inf && wf.Cmp(big.NewFloat(5e-324)) >= 0 {
					bad = append(bad, fmt.Sprintf("n=%d: returns 0 although 5^%d is a nonzero binary64 value", n, n))
				}
				results[h.Obj][n] = hres{finite: false}
				continue
			}
			checked++
			results[h.Obj][n] = hres{inexact: ev.inexact, finite: true}
			// relative error of the product of rounded constants: at most a few ulps
			diff := new(big.Rat).Sub(v.r, want)
			diff.Abs(diff)
			diff.Quo(diff, want)
			if diff.Cmp(big.NewRat(1, 1<<50)) > 0 {
				f, _ := new(big.Float).SetRat(v.r).Float64()
				bad = append(bad, fmt.Sprintf("n=%d: %s = %s yields %.6g·f, not 5^%d·f", n, types.ExprString(re), strings.Join(ev.used, "·"), f, n))
			}
		}
		key := "power-helper|" + h.Name
		if len(bad) == 0 {
			w.ok(key, h.Decl.Pos(), fmt.Sprintf("for each of the %d exponents in [%d, %d] its callers can pass, the table indexes are in range and the product of the table constants is 5^n (relative error below 2^-50)", checked, lo, hi))
		} else {
			// most informative first: wrong products before saturation
			sort.SliceStable(bad, func(i, j int) bool {
				return strings.Contains(bad[i], "yields") && !strings.Contains(bad[j], "yields")
			})
			more := ""
			if len(bad) > 4 {
				more = fmt.Sprintf(" … (%d exponents in all)", len(bad))
				bad = bad[:4]
			}
			w.violation(key, h.Decl.Pos(), fmt.Sprintf("the power-of-five helper does not compute f·5^n for every exponent in [%d, %d] its callers can pass: ", lo, hi)+strings.Join(bad, "; ")+more+" — every decimal numeral whose exponent selects such an entry is converted to a wrong binary64 value")
		}
	}
	w.floor("power-of-five helpers over float tables in "+rel, len(results), 1)

	// ---------------- RDC3: single rounding on the fast path
	w.rule("RDC3")
	for _, st := range sites {
		key := "single-rounding|" + st.fn.Label + "|" + st.helper.Name()
		if st.problem != "" {
			w.undecided(key, st.call.Pos(), st.problem)
			continue
		}
		if len(st.admitted) == 0 {
			w.undecided(key, st.call.Pos(), "no exponent satisfies the path condition of the call")
			continue
		}
		var twice []int64
		for _, n := range st.admitted {
			if r, have := results[st.helper][n]; have && r.finite && r.inexact > 1 {
				twice = append(twice, n)
			}
		}
		if len(twice) == 0 {
			w.ok(key, st.call.Pos(), fmt.Sprintf("the call is reached only for exponents in [%d, %d] (%d values; %d guards, atoms %v enumerated); for each of them the helper performs at most one inexact step", st.admitted[0], st.admitted[len(st.admitted)-1], len(st.admitted), st.nConds, st.atoms))
		} else {
			w.violation(key, st.call.Pos(), fmt.Sprintf("the fast path multiplies the mantissa by 5^n with more than one inexact step for %d of the %d exponents it is reached for (e.g. n = %s; admitted range [%d, %d]): the table constant is itself rounded (5^n needs more than 53 bits for n > 22) and/or two IEEE operations are chained, so the result is rounded twice and is not always the nearest binary64 value (e.g. 3e23 → 2.9999999999999997e+23)", len(twice), len(st.admitted), sample(twice), st.admitted[0], st.admitted[len(st.admitted)-1]))
		}
	}
	w.floor("calls of a power-of-five helper in "+rel, len(sites), 1)

	// ---------------- RDC2: exactness flag
	rdc2ExactFlag(w, conv, results)
	rdc4ConstantResults(w, conv)
}

func sample(ns []int64) string {
	var parts []string
	for i, n := range ns {
		if i == 3 {
			parts = append(parts, "…")
			break
		}
		parts = append(parts, fmt.Sprint(n))
	}
	// and the smallest magnitude
	best := ns[0]
	for _, n := range ns {
		if abs64(n) < abs64(best) {
			best = n
		}
	}
	return strings.Join(parts, ", ") + fmt.Sprintf(" (smallest magnitude %d)", best)
}

type condLit struct {
	e     ast.Expr
	truth bool
}

// pathConds: enclosing if conditions with polarity plus the earlier early-exit guards of every
// enclosing statement list (return / break / continue / panic bodies).
func pathConds(info *types.Info, parents map[ast.Node]ast.Node, at ast.Node) []condLit {
	terminates := func(bl *ast.BlockStmt) bool {
		if len(bl.List) == 0 {
			return false
		}
		switch s := bl.List[len(bl.List)-1].(type) {
		case *ast.ReturnStmt:
			return true
		case *ast.BranchStmt:
			return s.Tok == token.CONTINUE || s.Tok == token.BREAK || s.Tok == token.GOTO
		case *ast.ExprStmt:
			if c, ok := s.X.(*ast.CallExpr); ok && isBuiltinCall(info, c, "panic") {
				return true
			}
		}
		return false
	}
	var conds []condLit
	var child ast.Node = at
	for cur := parents[at]; cur != nil; child, cur = cur, parents[cur] {
		if ifs, ok := cur.(*ast.IfStmt); ok {
			if child == ast.Node(ifs.Body) {
				conds = append(conds, condLit{ifs.Cond, true})
			} else if ifs.Else != nil && child == ifs.Else {
				conds = append(conds, condLit{ifs.Cond, false})
			}
		}
		if list, idx := containingList(parents, child); idx > 0 {
			for j := 0; j < idx; j++ {
				if g, ok := list[j].(*ast.IfStmt); ok && g.Else == nil && g.Init == nil && terminates(g.Body) {
					conds = append(conds, condLit{g.Cond, false})
				}
			}
		}
		if _, isFn := cur.(*ast.FuncDecl); isFn {
			break
		}
	}
	return conds
}

// condEval: three-valued evaluation of a condition over integer variables and boolean atoms.
// Atoms are keyed canonically (`X == 0` and `X != 0` share the atom "X == 0"); zero-argument
// predicate methods with a single return are inlined, so base2() and base10() share their atom.
type condEval struct {
	info    *types.Info
	vars    map[string]int64
	atoms   map[string]bool
	missing map[string]bool
	depth   int
}

func (ce *condEval) evalLit(c condLit) tri {
	t := ce.eval(ce.info, c.e)
	if c.truth || t == triUnknown {
		return t
	}
	if t == triTrue {
		return triFalse
	}
	return triTrue
}

func (ce *condEval) atom(key string) tri {
	if v, ok := ce.atoms[key]; ok {
		return triOf(v)
	}
	ce.missing[key] = true
	return triUnknown
}

func (ce *condEval) intVal(info *types.Info, e ast.Expr) (int64, bool) {
	env := &numEnv{info: info, vars: map[string]num{}}
	for k, v := range ce.vars {
		env.vars[k] = num{i: v}
	}
	v, ok := env.eval(e)
	if !ok || v.isBool || v.isFloat {
		return 0, false
	}
	return v.i, true
}

func (ce *condEval) eval(info *types.Info, e ast.Expr) tri {
	e = ast.Unparen(e)
	switch x := e.(type) {
	case *ast.BinaryExpr:
		switch x.Op {
		case token.LAND:
			a, b := ce.eval(info, x.X), ce.eval(info, x.Y)
			if a == triFalse || b == triFalse {
				return triFalse
			}
			if a == triTrue && b == triTrue {
				return triTrue
			}
			return triUnknown
		case token.LOR:
			a, b := ce.eval(info, x.X), ce.eval(info, x.Y)
			if a == triTrue || b == triTrue {
				return triTrue
			}
			if a == triFalse && b == triFalse {
				return triFalse
			}
			return triUnknown
		case token.EQL, token.NEQ, token.LSS, token.LEQ, token.GTR, token.GEQ:
			l, ok1 := ce.intVal(info, x.X)
			r, ok2 := ce.intVal(info, x.Y)
			if ok1 && ok2 {
				if v, ok := cmpInt(x.Op, l, r); ok {
					return triOf(v)
				}
			}
			if x.Op == token.EQL || x.Op == token.NEQ {
				other := ast.Expr(nil)
				if ok2 && r == 0 {
					other = x.X
				} else if ok1 && l == 0 {
					other = x.Y
				}
				if other != nil {
					t := ce.atom(stripRecv(types.ExprString(other)) + " == 0")
					if x.Op == token.NEQ {
						switch t {
						case triTrue:
							return triFalse
						case triFalse:
							return triTrue
						}
					}
					return t
				}
			}
			return ce.atom(stripRecv(types.ExprString(x)))
		}
	case *ast.UnaryExpr:
		if x.Op == token.NOT {
			switch ce.eval(info, x.X) {
			case triTrue:
				return triFalse
			case triFalse:
				return triTrue
			}
			return triUnknown
		}
	case *ast.Ident:
		if tv, ok := info.Types[x]; ok && tv.Value != nil && tv.Value.Kind() == constant.Bool {
			return triOf(constant.BoolVal(tv.Value))
		}
		return ce.atom(x.Name)
	case *ast.CallExpr:
		if f := callee(info, x); f != nil && len(x.Args) == 0 && ce.depth < 3 {
			if d := gDecls[f.Origin()]; d != nil && d.Body != nil && len(d.Body.List) == 1 {
				if r, ok := d.Body.List[0].(*ast.ReturnStmt); ok && len(r.Results) == 1 {
					ce.depth++
					t := ce.eval(gInfos[f.Origin()], r.Results[0])
					ce.depth--
					return t
				}
			}
		}
		return ce.atom(stripRecv(types.ExprString(x)))
	}
	return ce.atom(stripRecv(types.ExprString(e)))
}

// stripRecv makes atoms of inlined methods comparable with atoms written at the call site: the
// receiver identifier is replaced by "·".
func stripRecv(s string) string {
	if i := strings.Index(s, "."); i > 0 {
		head := s[:i]
		if !strings.ContainsAny(head, " ()[]&|+-*/<>=!") {
			return "·" + s[i:]
		}
	}
	return s
}

// rdc2ExactFlag: typestate of the exactness flag in Float64.
func rdc2ExactFlag(w *World, conv *FuncRef, helpers map[*types.Func]map[int64]hres) {
	w.rule("RDC2")
	info := conv.Pkg.TypesInfo
	res := conv.Decl.Type.Results
	if res == nil || len(res.List) == 0 {
		return
	}
	var names []string
	for _, f := range res.List {
		for _, nm := range f.Names {
			names = append(names, nm.Name)
		}
	}
	if len(names) != 2 {
		w.undecided("exact-flag|"+conv.Name+"|results", conv.Decl.Pos(), "Float64 no longer has two named results (value, exact)")
		return
	}
	vName, xName := names[0], names[1]
	// functions of the package that contain a float multiplication/division/addition on
	// non-constant operands (transitively): calling them can round
	p := conv.Pkg
	rounds := map[*types.Func]bool{}
	calls := map[*types.Func][]*types.Func{}
	for _, b := range allFuncBodies(p) {
		if b.Lit != nil {
			continue
		}
		ast.Inspect(b.Body, func(x ast.Node) bool {
			switch y := x.(type) {
			case *ast.BinaryExpr:
				if isFloatArith(info, y) {
					rounds[b.Obj] = true
				}
			case *ast.CallExpr:
				if f := callee(info, y); f != nil && f.Pkg() == p.Types {
					calls[b.Obj] = append(calls[b.Obj], f)
				}
			}
			return true
		})
	}
	for changed := true; changed; {
		changed = false
		for f, cs := range calls {
			if rounds[f] {
				continue
			}
			for _, c := range cs {
				if rounds[c] {
					rounds[f] = true
					changed = true
					break
				}
			}
		}
	}
	mentions := func(e ast.Node, name string) bool {
		found := false
		ast.Inspect(e, func(y ast.Node) bool {
			if id, ok := y.(*ast.Ident); ok && id.Name == name {
				found = true
			}
			return !found
		})
		return found
	}
	roundingRHS := func(e ast.Expr, in Facts) (bool, string) {
		why := ""
		ast.Inspect(e, func(y ast.Node) bool {
			if why != "" {
				return false
			}
			switch z := y.(type) {
			case *ast.BinaryExpr:
				if isFloatArith(info, z) {
					why = "the floating-point operation " + types.ExprString(z)
				}
			case *ast.CallExpr:
				if f := callee(info, z); f != nil {
					switch {
					case f.Pkg() == p.Types && rounds[f] && f != conv.Obj:
						why = "the call " + types.ExprString(z) + " (performs floating-point arithmetic)"
					case f.Pkg() != nil && f.Pkg().Path() == "strconv" && f.Name() == "ParseFloat":
						why = "strconv.ParseFloat"
					}
				} else if tv, ok := info.Types[z.Fun]; ok && tv.IsType() && len(z.Args) == 1 {
					if bt, ok := tv.Type.Underlying().(*types.Basic); ok && bt.Info()&types.IsFloat != 0 {
						if at, ok := info.TypeOf(z.Args[0]).Underlying().(*types.Basic); ok && at.Info()&types.IsInteger != 0 {
							why = "the integer-to-float conversion " + types.ExprString(z)
						}
					}
				}
			case *ast.Ident:
				if in["rv:"+z.Name] {
					why = "the rounded value " + z.Name
				}
			}
			return true
		})
		return why != "", why
	}
	g := buildCFG(info, conv.Decl.Body)
	d := &Dataflow{G: g, Must: false, Init: Facts{}}
	lastWhy := map[string]string{}
	d.Transfer = func(n ast.Node, in Facts) Facts {
		as, ok := n.(*ast.AssignStmt)
		if !ok {
			return in
		}
		out := in
		assignsExact := false
		for _, l := range as.Lhs {
			if id, ok := l.(*ast.Ident); ok && id.Name == xName {
				assignsExact = true
			}
		}
		for i, l := range as.Lhs {
			id, ok := l.(*ast.Ident)
			if !ok {
				continue
			}
			var rhs ast.Expr
			if len(as.Rhs) == len(as.Lhs) {
				rhs = as.Rhs[i]
			} else if len(as.Rhs) == 1 {
				rhs = as.Rhs[0]
			}
			if rhs == nil {
				continue
			}
			isR, why := roundingRHS(rhs, in)
			if id.Name == vName {
				if isR && !assignsExact && in["T"] {
					// recorded only while the flag may be true: the fact stands for "rounded while
					// exact was (possibly) true and not reassigned since" along one path
					k := "R:" + why + " at " + w.pos(as.Pos())
					out = out.with(k)
					lastWhy[k] = k
				}
			} else if id.Name != xName && id.Name != "_" {
				if isR {
					out = out.with("rv:" + id.Name)
				} else {
					out = out.without("rv:" + id.Name)
				}
			}
		}
		if assignsExact {
			// the flag is recomputed: values it was computed from (or everything, for a literal)
			// are accounted for
			var xr ast.Expr
			for i, l := range as.Lhs {
				if id, ok := l.(*ast.Ident); ok && id.Name == xName {
					if len(as.Rhs) == len(as.Lhs) {
						xr = as.Rhs[i]
					} else if len(as.Rhs) == 1 {
						xr = as.Rhs[0]
					}
				}
			}
			isLit := false
			if xr != nil {
				if tv, ok := info.Types[xr]; ok && tv.Value != nil {
					isLit = true
				}
			}
			for k := range out {
				if strings.HasPrefix(k, "R:") && (isLit || xr == nil || mentions(xr, vName)) {
					out = out.without(k)
				}
				if strings.HasPrefix(k, "rv:") && (isLit || xr == nil || mentions(xr, strings.TrimPrefix(k, "rv:"))) {
					out = out.without(k)
				}
			}
			isFalse := false
			if len(as.Rhs) == len(as.Lhs) {
				for i, l := range as.Lhs {
					if id, ok := l.(*ast.Ident); ok && id.Name == xName {
						if tv, ok := info.Types[as.Rhs[i]]; ok && tv.Value != nil && tv.Value.Kind() == constant.Bool && !constant.BoolVal(tv.Value) {
							isFalse = true
						}
					}
				}
			}
			if isFalse {
				out = out.without("T")
			} else {
				out = out.with("T")
			}
		}
		return out
	}
	d.Branch = func(leaf ast.Expr, truth bool, s Facts) Facts {
		if id, ok := ast.Unparen(leaf).(*ast.Ident); ok && id.Name == xName && !truth {
			s = s.without("T")
			for k := range s {
				if strings.HasPrefix(k, "R:") {
					s = s.without(k)
				}
			}
			return s
		}
		return s
	}
	d.Run()
	nRet, bad := 0, []string{}
	d.Walk(func(_ *cfg.Block, n ast.Node, before Facts) {
		r, ok := n.(*ast.ReturnStmt)
		if !ok {
			return
		}
		nRet++
		reportsFlag := len(r.Results) == 0
		if len(r.Results) == 2 && mentions(r.Results[1], xName) {
			reportsFlag = true
		}
		if reportsFlag {
			for k := range before {
				if strings.HasPrefix(k, "R:") {
					bad = append(bad, w.pos(r.Pos())+" after "+strings.TrimPrefix(k, "R:"))
				}
			}
		}
	})
	key := "exact-flag|" + conv.Name
	if len(bad) == 0 {
		w.ok(key, conv.Decl.Pos(), fmt.Sprintf("on every path to the %d returns, `%s` is reassigned after the last rounding-capable computation of `%s`, or is known to be false", nRet, xName, vName))
	} else {
		sort.Strings(bad)
		w.violation(key, conv.Decl.Pos(), "Float64 can report exact = true for a value that was produced by a rounding-capable step after the flag was last computed (return at "+strings.Join(bad, "; ")+"): `"+xName+"` only records that the mantissa fits 53 bits, so 0.3 or 1e-1 — which no binary64 value equals — are reported as exact")
	}
	w.floor("returns of Float64", nRet, 3)
}

func isFloatArith(info *types.Info, b *ast.BinaryExpr) bool {
	switch b.Op {
	case token.MUL, token.QUO, token.ADD, token.SUB:
	default:
		return false
	}
	tv, ok := info.Types[b]
	if !ok || tv.Value != nil {
		return false
	}
	bt, ok := tv.Type.Underlying().(*types.Basic)
	return ok && bt.Info()&types.IsFloat != 0
}

var _ = cfg.New

// RDC4 (C39): a constant result is decided from a bound on the right side. A decimal with D
// mantissa digits and exponent field z.exp has a magnitude in [10^(z.exp-1), 10^z.exp); the
// "integer-mantissa exponent" z.exp - z.digits() only bounds it from below. A shortcut that sets
// the result to 0 (or ±Inf) under a condition on an exponent is correct only if the condition
// forces *every* decimal that satisfies it below 2^-1075 (above 2^1024). For each conditional
// constant result in Float64 the path condition (plus the negated conditions of later sibling
// `if … { v = … }` overrides) is evaluated over a finite model of (z.exp, digit count), with local
// variables such as `exp := int(z.exp) - z.digits()` expanded from their single definition and
// unknown boolean atoms enumerated; a model point that satisfies it with z.exp > -324 (zero) or
// z.exp < 310 (infinity) is a numeral whose nearest binary64 is not that constant — e.g. a tiny
// value written with many digits.
func rdc4ConstantResults(w *World, conv *FuncRef) {
	w.rule("RDC4")
	info := conv.Pkg.TypesInfo
	res := conv.Decl.Type.Results
	if res == nil || len(res.List) == 0 || len(res.List[0].Names) == 0 {
		return
	}
	vName := res.List[0].Names[0].Name
	parents := parentMap(conv.Decl)
	constKind := func(e ast.Expr) string {
		e = ast.Unparen(e)
		if tv, ok := info.Types[e]; ok && tv.Value != nil {
			if r, ok := constToRat(tv.Value); ok && r.Sign() == 0 {
				return "0"
			}
			return ""
		}
		if c, ok := e.(*ast.CallExpr); ok {
			if f := callee(info, c); f != nil && f.Pkg() != nil && f.Pkg().Path() == "math" && f.Name() == "Inf" {
				return "Inf"
			}
		}
		return ""
	}
	type site struct {
		node ast.Node
		kind string
	}
	var sites []site
	ast.Inspect(conv.Decl.Body, func(x ast.Node) bool {
		if _, ok := x.(*ast.FuncLit); ok {
			return false
		}
		switch s := x.(type) {
		case *ast.AssignStmt:
			if len(s.Lhs) == len(s.Rhs) {
				for i, l := range s.Lhs {
					if id, ok := l.(*ast.Ident); ok && id.Name == vName {
						if k := constKind(s.Rhs[i]); k != "" {
							sites = append(sites, site{s, k})
						}
					}
				}
			}
		case *ast.ReturnStmt:
			if len(s.Results) >= 1 {
				if k := constKind(s.Results[0]); k != "" {
					sites = append(sites, site{s, k})
				}
			}
		}
		return true
	})
	digitsVals := []int64{1, 2, 5, 17, 20, 40, 400}
	nChecked := 0
	for _, st := range sites {
		conds := pathConds(info, parents, st.node)
		// later sibling overrides of v
		if list, idx := containingList(parents, st.node); idx >= 0 {
			for j := idx + 1; j < len(list); j++ {
				ifs, ok := list[j].(*ast.IfStmt)
				if !ok || ifs.Else != nil {
					break
				}
				assignsV := false
				for _, b := range ifs.Body.List {
					if as, ok := b.(*ast.AssignStmt); ok {
						for _, l := range as.Lhs {
							if id, ok := l.(*ast.Ident); ok && id.Name == vName {
								assignsV = true
							}
						}
					}
				}
				if !assignsV {
					break
				}
				conds = append(conds, condLit{ifs.Cond, false})
			}
		}
		// only conditions that talk about an exponent make the result "decided from a bound"
		mentionsExp := false
		localDefs := map[string]ast.Expr{}
		for _, c := range conds {
			ast.Inspect(c.e, func(y ast.Node) bool {
				switch z := y.(type) {
				case *ast.SelectorExpr:
					if z.Sel.Name == "exp" {
						mentionsExp = true
					}
				case *ast.Ident:
					if v, ok := info.Uses[z].(*types.Var); ok && !v.IsField() && v.Pkg() == conv.Pkg.Types && v.Parent() != v.Pkg().Scope() {
						// single definition
						var rhs ast.Expr
						nDef := 0
						ast.Inspect(conv.Decl.Body, func(q ast.Node) bool {
							if as, ok := q.(*ast.AssignStmt); ok && len(as.Lhs) == len(as.Rhs) {
								for i, l := range as.Lhs {
									if id, ok := l.(*ast.Ident); ok && (info.Defs[id] == v || info.Uses[id] == v) {
										nDef++
										rhs = as.Rhs[i]
									}
								}
							}
							return true
						})
						if nDef == 1 {
							localDefs[z.Name] = rhs
							ast.Inspect(rhs, func(r ast.Node) bool {
								if s, ok := r.(*ast.SelectorExpr); ok && s.Sel.Name == "exp" {
									mentionsExp = true
								}
								return true
							})
						}
					}
				}
				return true
			})
		}
		if !mentionsExp {
			continue
		}
		nChecked++
		ce := &condEval{info: info, vars: map[string]int64{}, atoms: map[string]bool{}, missing: map[string]bool{}}
		setVars := func(zexp, D int64) bool {
			ce.vars = map[string]int64{"z.exp": zexp, "z.digits()": D}
			for name, rhs := range localDefs {
				v, ok := ce.intVal(info, rhs)
				if !ok {
					return false
				}
				ce.vars[name] = v
			}
			return true
		}
		if !setVars(0, 1) {
			w.undecided(fmt.Sprintf("constant-result|%s|%s", conv.Name, w.pos(st.node.Pos())), st.node.Pos(), "a local variable of the path condition cannot be expanded")
			continue
		}
		for _, c := range conds {
			ce.evalLit(c)
		}
		var atoms []string
		for a := range ce.missing {
			atoms = append(atoms, a)
		}
		sort.Strings(atoms)
		if len(atoms) > 8 {
			atoms = atoms[:8]
		}
		witness := ""
		for zexp := int64(-420); zexp <= 420 && witness == ""; zexp++ {
			justified := (st.kind == "0" && zexp <= -324) || (st.kind == "Inf" && zexp >= 310)
			if justified {
				continue
			}
			for _, D := range digitsVals {
				if !setVars(zexp, D) {
					continue
				}
				for mask := 0; mask < 1<<len(atoms); mask++ {
					ce.atoms = map[string]bool{}
					for i, a := range atoms {
						ce.atoms[a] = mask&(1<<i) != 0
					}
					all := true
					for _, c := range conds {
						if ce.evalLit(c) == triFalse {
							all = false
							break
						}
					}
					if all {
						witness = fmt.Sprintf("a numeral with %d mantissa digits and magnitude in [1e%d, 1e%d) (integer-mantissa exponent %d)", D, zexp-1, zexp, zexp-D)
						break
					}
				}
				if witness != "" {
					break
				}
			}
		}
		key := fmt.Sprintf("constant-result|%s|%s under %s", conv.Name, st.kind, types.ExprString(conds[0].e))
		if witness == "" {
			w.ok(key, st.node.Pos(), "every decimal that satisfies the path condition is out of the binary64 range on that side")
		} else {
			w.violation(key, st.node.Pos(), "the result is set to "+st.kind+" under a condition that does not force the value out of range: "+witness+" satisfies it, but its nearest binary64 value is not "+st.kind+" — the integer-mantissa exponent bounds the magnitude from below only, so a small value written with many digits is flushed to zero")
		}
	}
	w.info("constant-result|sites", conv.Decl.Pos(), fmt.Sprintf("%d constant-result sites in Float64, %d of them conditional on an exponent", len(sites), nChecked))
}
