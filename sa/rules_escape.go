package main

import (
	"fmt"
	"go/ast"
	"go/constant"
	"go/token"
	"go/types"
	"sort"
	"strings"
)

// RP: escape-table agreement (C14, C25, C26). The escape tables are extracted from the switch
// statements of the decoders/encoder themselves:
//   readers: parser.(*protoLex).readStringLiteral, fastscan.(*lexer).readStringLiteral, linker.unescape
//   writer:  internal.EscapeBytes
// A table maps each escape letter to the byte a *simple* clause produces (a clause consisting of
// one statement that writes a constant byte or the letter itself), or to "complex" for the
// multi-character forms (hex, octal, \u, \U).

type escTable struct {
	name    string
	pos     token.Pos
	simple  map[byte]byte // letter -> produced byte
	complex map[byte]bool // letters introducing multi-character escapes
}

// evalWith evaluates a boolean expression over one rune variable v set to val (three-valued).
func evalWith(info *types.Info, e ast.Expr, v string, val int64) tri {
	ex := &valEval{info: info, v: v, val: val}
	return ex.eval(e)
}

type valEval struct {
	info *types.Info
	v    string
	val  int64
}

func (ex *valEval) num(e ast.Expr) (int64, bool) {
	e = ast.Unparen(e)
	if render(e) == ex.v {
		return ex.val, true
	}
	if tv, ok := ex.info.Types[e]; ok && tv.Value != nil {
		if v, ok := constant.Int64Val(constant.ToInt(tv.Value)); ok {
			return v, true
		}
	}
	return 0, false
}

func (ex *valEval) eval(e ast.Expr) tri {
	e = ast.Unparen(e)
	switch x := e.(type) {
	case *ast.BinaryExpr:
		switch x.Op {
		case token.LAND:
			a, b := ex.eval(x.X), ex.eval(x.Y)
			if a == triFalse || b == triFalse {
				return triFalse
			}
			if a == triTrue && b == triTrue {
				return triTrue
			}
			return triUnknown
		case token.LOR:
			a, b := ex.eval(x.X), ex.eval(x.Y)
			if a == triTrue || b == triTrue {
				return triTrue
			}
			if a == triFalse && b == triFalse {
				return triFalse
			}
			return triUnknown
		}
		l, ok1 := ex.num(x.X)
		r, ok2 := ex.num(x.Y)
		if ok1 && ok2 {
			if v, ok := cmpInt(x.Op, l, r); ok {
				return triOf(v)
			}
		}
	case *ast.UnaryExpr:
		if x.Op == token.NOT {
			switch ex.eval(x.X) {
			case triTrue:
				return triFalse
			case triFalse:
				return triTrue
			}
		}
	}
	return triUnknown
}

// extractReaderTable finds the escape switch of a decoder function.
func extractReaderTable(w *World, fr *FuncRef) *escTable {
	info := fr.Pkg.TypesInfo
	var best *ast.SwitchStmt
	bestN := 0
	ast.Inspect(fr.Decl.Body, func(x ast.Node) bool {
		sw, ok := x.(*ast.SwitchStmt)
		if !ok {
			return true
		}
		if n := len(sw.Body.List); n > bestN {
			best, bestN = sw, n
		}
		return true
	})
	if best == nil || bestN < 10 {
		w.undecided("escape-switch|"+fr.Name, fr.Decl.Pos(), "no escape switch with at least 10 clauses found")
		return nil
	}
	t := &escTable{name: fr.Name, pos: best.Pos(), simple: map[byte]byte{}, complex: map[byte]bool{}}
	tag := ""
	if best.Tag != nil {
		tag = render(best.Tag)
	}
	// for a tagless switch the variable is the one compared in the first clause
	varName := tag
	if varName == "" {
		ast.Inspect(best.Body.List[0].(*ast.CaseClause).List[0], func(y ast.Node) bool {
			if be, ok := y.(*ast.BinaryExpr); ok && varName == "" {
				if _, isConst := info.Types[be.Y]; isConst && info.Types[be.Y].Value != nil {
					varName = render(be.X)
				}
			}
			return true
		})
	}
	for _, cl := range best.Body.List {
		cc := cl.(*ast.CaseClause)
		if cc.List == nil {
			continue // default: invalid escape
		}
		var letters []byte
		if tag != "" {
			for _, e := range cc.List {
				if tv, ok := info.Types[e]; ok && tv.Value != nil {
					if v, ok := constant.Int64Val(constant.ToInt(tv.Value)); ok && v >= 0 && v < 128 {
						letters = append(letters, byte(v))
					}
				}
			}
		} else {
			for ch := int64(0); ch < 128; ch++ {
				for _, e := range cc.List {
					if evalWith(info, e, varName, ch) == triTrue {
						letters = append(letters, byte(ch))
					}
				}
			}
		}
		// simple clause: one statement producing one byte
		prod, isSimple := int64(-1), false
		identity := false
		if len(cc.Body) == 1 {
			ast.Inspect(cc.Body[0], func(y ast.Node) bool {
				c, ok := y.(*ast.CallExpr)
				if !ok {
					return true
				}
				var arg ast.Expr
				if s, ok := ast.Unparen(c.Fun).(*ast.SelectorExpr); ok && (s.Sel.Name == "WriteByte" || s.Sel.Name == "WriteRune") && len(c.Args) == 1 {
					arg = c.Args[0]
				}
				if isBuiltinCall(info, c, "append") && len(c.Args) == 2 {
					arg = c.Args[1]
				}
				if arg == nil {
					return true
				}
				if tv, ok := info.Types[arg]; ok && tv.Value != nil {
					if v, ok := constant.Int64Val(constant.ToInt(tv.Value)); ok {
						prod, isSimple = v, true
					}
				} else if render(arg) == varName {
					identity, isSimple = true, true
				}
				return true
			})
		}
		for _, l := range letters {
			switch {
			case isSimple && identity:
				t.simple[l] = l
			case isSimple:
				t.simple[l] = byte(prod)
			default:
				t.complex[l] = true
			}
		}
	}
	return t
}

func (t *escTable) describe() string {
	var ls []string
	for l, b := range t.simple {
		ls = append(ls, fmt.Sprintf("\\%c→%#02x", l, b))
	}
	sort.Strings(ls)
	var cs []string
	for l := range t.complex {
		cs = append(cs, string(rune(l)))
	}
	sort.Strings(cs)
	return strings.Join(ls, " ") + " | complex: " + strings.Join(cs, "")
}

func compareReaders(w *World, a, b *escTable) {
	key := "readers-agree|" + a.name + "~" + b.name
	var diffs []string
	for l := byte(0); l < 128; l++ {
		av, aok := a.simple[l]
		bv, bok := b.simple[l]
		switch {
		case aok != bok:
			diffs = append(diffs, fmt.Sprintf("\\%c is a simple escape in %s only", l, map[bool]string{true: a.name, false: b.name}[aok]))
		case aok && av != bv:
			diffs = append(diffs, fmt.Sprintf("\\%c decodes to %#02x in %s but %#02x in %s", l, av, a.name, bv, b.name))
		}
		if a.complex[l] != b.complex[l] {
			diffs = append(diffs, fmt.Sprintf("\\%c introduces a multi-character escape in %s only", l, map[bool]string{true: a.name, false: b.name}[a.complex[l]]))
		}
	}
	if len(diffs) == 0 {
		w.ok(key, a.pos, fmt.Sprintf("both decoders accept the same %d simple escapes with the same bytes and the same %d multi-character introducers", len(a.simple), len(a.complex)))
	} else {
		w.violation(key, b.pos, "the two decoders of Protobuf string escapes disagree, so at least one differs from protoc: "+strings.Join(diffs, "; "))
	}
}

func rpReaders(w *World, which ...string) []*escTable {
	w.rule("RP")
	specs := map[string][2]string{
		"parser":   {"parser", "(*protoLex).readStringLiteral"},
		"fastscan": {"parser/fastscan", "(*lexer).readStringLiteral"},
		"linker":   {"linker", "unescape"},
	}
	var out []*escTable
	for _, k := range which {
		fr := w.fn(specs[k][0], specs[k][1])
		if fr == nil {
			continue
		}
		if t := extractReaderTable(w, fr); t != nil {
			w.info("table|"+t.name, t.pos, t.describe())
			if len(t.simple) < 11 || len(t.complex) < 11 {
				w.undecided("table-size|"+t.name, t.pos, fmt.Sprintf("extracted only %d simple and %d complex escape letters (expected 11 and 12): the extractor no longer understands this switch", len(t.simple), len(t.complex)))
				continue
			}
			out = append(out, t)
		}
	}
	return out
}

// C14: the three source-level decoders agree.
func rpC14(w *World) {
	ts := rpReaders(w, "parser", "fastscan", "linker")
	w.floor("string-escape decoders extracted", len(ts), 3)
	for i := 0; i+1 < len(ts); i++ {
		compareReaders(w, ts[i], ts[i+1])
	}
	// the reference table of the Protobuf language: simple escapes and their bytes
	ref := map[byte]byte{'a': 7, 'b': 8, 'f': 12, 'n': 10, 'r': 13, 't': 9, 'v': 11, '\\': '\\', '\'': '\'', '"': '"', '?': '?'}
	for _, t := range ts {
		var diffs []string
		for l, b := range ref {
			if got, ok := t.simple[l]; !ok || got != b {
				diffs = append(diffs, fmt.Sprintf("\\%c", l))
			}
		}
		for l := range t.simple {
			if _, ok := ref[l]; !ok {
				diffs = append(diffs, fmt.Sprintf("extra \\%c", l))
			}
		}
		sort.Strings(diffs)
		if len(diffs) == 0 {
			w.ok("spec-table|"+t.name, t.pos, "simple escapes are exactly the 11 of the Protobuf language specification with their C values")
		} else {
			w.violation("spec-table|"+t.name, t.pos, "simple escape table differs from the language specification (\\a \\b \\f \\n \\r \\t \\v \\\\ \\' \\\" \\?): "+strings.Join(diffs, ", "))
		}
	}
}

// C25: fast scanner and parser agree (strings), and the import modifiers agree with the grammar.
func rpC25(w *World) {
	ts := rpReaders(w, "parser", "fastscan")
	w.floor("string-escape decoders extracted", len(ts), 2)
	if len(ts) == 2 {
		compareReaders(w, ts[0], ts[1])
	}
	rpImportModifiers(w)
}

// rpImportModifiers: the modifiers fastscan.Scan recognises after `import` equal the keyword
// alternatives of importDecl in the grammar (read from the compiled parser tables' source, proto.y).
func rpImportModifiers(w *World) {
	p := w.pkg("parser/fastscan")
	scan := w.fn("parser/fastscan", "Scan")
	if p == nil || scan == nil {
		return
	}
	info := p.TypesInfo
	// modifiers in Scan: string constants compared or switched on that are import modifiers
	cand := map[string]bool{}
	ast.Inspect(scan.Decl.Body, func(x ast.Node) bool {
		if bl, ok := x.(*ast.BasicLit); ok && bl.Kind == token.STRING {
			if tv, ok := info.Types[bl]; ok && tv.Value != nil {
				s := constant.StringVal(tv.Value)
				switch s {
				case "public", "weak", "option", "optional", "private", "static":
					cand[s] = true
				}
			}
		}
		return true
	})
	// grammar: alternatives of importDecl in proto.y
	src, err := readRepoFile(w, "parser/proto.y")
	if err != nil {
		w.undecided("import-modifiers|grammar", token.NoPos, "cannot read parser/proto.y: "+err.Error())
		return
	}
	gram := map[string]bool{}
	inRule := false
	for _, line := range strings.Split(src, "\n") {
		t := strings.TrimSpace(line)
		if strings.HasPrefix(t, "importDecl") && strings.Contains(t, ":") {
			inRule = true
		} else if inRule && (t == "" || (len(t) > 0 && !strings.HasPrefix(t, "|") && !strings.HasPrefix(t, "{") && !strings.HasPrefix(t, "}") && strings.Contains(t, ":") && !strings.Contains(t, "_IMPORT"))) {
			if !strings.HasPrefix(t, "|") && !strings.Contains(t, "_IMPORT") && t != "" && !strings.HasPrefix(t, "$") && !strings.HasPrefix(t, "protolex") {
				// next rule starts
				if strings.HasSuffix(strings.Fields(t)[0], ":") || (len(strings.Fields(t)) > 1 && strings.Fields(t)[1] == ":") {
					inRule = false
				}
			}
		}
		if inRule && strings.Contains(t, "_IMPORT") {
			for _, f := range strings.Fields(t) {
				switch f {
				case "_PUBLIC":
					gram["public"] = true
				case "_WEAK":
					gram["weak"] = true
				case "_OPTION":
					gram["option"] = true
				}
			}
		}
	}
	if len(gram) == 0 {
		w.undecided("import-modifiers|grammar", token.NoPos, "no importDecl alternatives with modifiers found in proto.y")
		return
	}
	var diffs []string
	for m := range gram {
		if !cand[m] {
			diffs = append(diffs, "grammar accepts `import "+m+"` but the fast scanner does not recognise it")
		}
	}
	for m := range cand {
		if !gram[m] {
			diffs = append(diffs, "fast scanner treats `"+m+"` as an import modifier but the grammar does not")
		}
	}
	sort.Strings(diffs)
	if len(diffs) == 0 {
		w.ok("import-modifiers", scan.Decl.Pos(), fmt.Sprintf("the fast scanner recognises exactly the import modifiers of the grammar's importDecl: %v", sortedKeys(gram)))
	} else {
		w.violation("import-modifiers", scan.Decl.Pos(), strings.Join(diffs, "; "))
	}
}

func readRepoFile(w *World, rel string) (string, error) {
	b, err := readFile(w.RepoDir + "/" + rel)
	return string(b), err
}

// C26: writer (EscapeBytes) and reader (linker.unescape) agree.
func rpC26(w *World) {
	ts := rpReaders(w, "linker")
	esc := w.fn("internal", "EscapeBytes")
	if len(ts) != 1 || esc == nil {
		return
	}
	reader := ts[0]
	info := esc.Pkg.TypesInfo
	var sw *ast.SwitchStmt
	ast.Inspect(esc.Decl.Body, func(x ast.Node) bool {
		if s, ok := x.(*ast.SwitchStmt); ok && sw == nil {
			sw = s
		}
		return true
	})
	if sw == nil || sw.Tag == nil {
		w.undecided("writer-switch", esc.Decl.Pos(), "EscapeBytes has no tag switch over the byte")
		return
	}
	n := 0
	for _, cl := range sw.Body.List {
		cc := cl.(*ast.CaseClause)
		if cc.List == nil {
			// default: printable bytes verbatim, everything else as exactly three octal digits
			nDigits := 0
			ast.Inspect(cc, func(y ast.Node) bool {
				if c, ok := y.(*ast.CallExpr); ok {
					if s, ok := ast.Unparen(c.Fun).(*ast.SelectorExpr); ok && s.Sel.Name == "WriteByte" && len(c.Args) == 1 {
						if be, ok := ast.Unparen(c.Args[0]).(*ast.BinaryExpr); ok && be.Op == token.ADD && render(be.X) == "'0'" {
							nDigits++
						}
					}
				}
				return true
			})
			// reader: octal branch consumes 1 + matchPrefix(..., K, isOctal) digits
			limit := int64(-1)
			if fr := w.fn("linker", "unescape"); fr != nil {
				ast.Inspect(fr.Decl.Body, func(y ast.Node) bool {
					if c, ok := y.(*ast.CallExpr); ok && len(c.Args) == 3 && render(c.Args[2]) == "isOctal" {
						if tv, ok := fr.Pkg.TypesInfo.Types[c.Args[1]]; ok && tv.Value != nil {
							limit, _ = constant.Int64Val(tv.Value)
						}
					}
					return true
				})
			}
			for _, d := range "01234567" {
				if !reader.complex[byte(d)] {
					w.violation("octal|reader-accepts-digit", reader.pos, fmt.Sprintf("unescape does not treat \\%c as the start of an octal escape", d))
				}
			}
			if nDigits == 3 && limit == 2 {
				w.ok("octal|three-digits", cc.Pos(), "the writer always emits exactly three octal digits and the reader consumes at most 1+2: a following digit character can never be absorbed")
			} else {
				w.violation("octal|three-digits", cc.Pos(), fmt.Sprintf("writer emits %d octal digits, reader consumes at most 1+%d: bytes followed by a digit character would decode differently", nDigits, limit))
			}
			// printable range passes through verbatim and must not contain the escape character handled elsewhere
			continue
		}
		for _, e := range cc.List {
			tv, ok := info.Types[e]
			if !ok || tv.Value == nil {
				continue
			}
			bv, _ := constant.Int64Val(constant.ToInt(tv.Value))
			// emitted string
			emitted := ""
			ast.Inspect(cc, func(y ast.Node) bool {
				if c, ok := y.(*ast.CallExpr); ok {
					if s, ok := ast.Unparen(c.Fun).(*ast.SelectorExpr); ok && s.Sel.Name == "WriteString" && len(c.Args) == 1 {
						if atv, ok := info.Types[c.Args[0]]; ok && atv.Value != nil {
							emitted = constant.StringVal(atv.Value)
						}
					}
				}
				return true
			})
			n++
			key := fmt.Sprintf("writer-reader|%#02x", bv)
			if len(emitted) != 2 || emitted[0] != '\\' {
				w.violation(key, cc.Pos(), fmt.Sprintf("byte %#02x is escaped as %q, not a two-character backslash escape", bv, emitted))
				continue
			}
			got, ok := reader.simple[emitted[1]]
			if ok && int64(got) == bv {
				w.ok(key, cc.Pos(), fmt.Sprintf("byte %#02x is written as %q and unescape maps \\%c back to %#02x", bv, emitted, emitted[1], got))
			} else {
				w.violation(key, cc.Pos(), fmt.Sprintf("byte %#02x is written as %q but linker.unescape decodes \\%c to %v (known=%v): a bytes default containing this byte does not survive", bv, emitted, emitted[1], got, ok))
			}
		}
	}
	w.floor("simple escapes emitted by EscapeBytes", n, 6)
	// per-byte map: the loop body depends on data only through data[i]
	uses := 0
	whole := 0
	ast.Inspect(esc.Decl.Body, func(x ast.Node) bool {
		if id, ok := x.(*ast.Ident); ok && id.Name == "data" {
			uses++
		}
		if ix, ok := x.(*ast.IndexExpr); ok && render(ix.X) == "data" {
			whole--
		}
		if c, ok := x.(*ast.CallExpr); ok && isBuiltinCall(info, c, "len") && len(c.Args) == 1 && render(c.Args[0]) == "data" {
			whole--
		}
		return true
	})
	if uses+whole == 0 {
		w.ok("writer|per-byte", esc.Decl.Pos(), "EscapeBytes reads its input only as len(data) and data[i]: the escaping is a per-byte map, so table agreement covers every input")
	} else {
		w.violation("writer|per-byte", esc.Decl.Pos(), "EscapeBytes uses its input other than through len(data)/data[i]: escaping may depend on context")
	}
}

// ---- RP3: character-class agreement between the two lexers (C25) and with the specification (C14)

type charClasses map[string]string // class name -> 128-character signature over ASCII ('1' in, '0' out, '?' undecidable)

func lexerClasses(w *World, rel, recvType string) charClasses {
	p := w.pkg(rel)
	if p == nil {
		return nil
	}
	info := p.TypesInfo
	out := charClasses{}
	sig := func(cond ast.Expr, v string) string {
		var sb strings.Builder
		for ch := int64(0); ch < 128; ch++ {
			switch evalWithStrings(info, cond, v, ch) {
			case triTrue:
				sb.WriteByte('1')
			case triFalse:
				sb.WriteByte('0')
			default:
				sb.WriteByte('?')
			}
		}
		return sb.String()
	}
	lex := w.fn(rel, "(*"+recvType+").Lex")
	if lex == nil {
		return nil
	}
	// the rune variable: first result of the first readRune assignment in Lex
	v := ""
	ast.Inspect(lex.Decl.Body, func(x ast.Node) bool {
		if as, ok := x.(*ast.AssignStmt); ok && v == "" && len(as.Rhs) == 1 {
			if c, ok := as.Rhs[0].(*ast.CallExpr); ok {
				if s, ok := ast.Unparen(c.Fun).(*ast.SelectorExpr); ok && s.Sel.Name == "readRune" {
					v = render(as.Lhs[0])
				}
			}
		}
		return true
	})
	callsIn := func(blk *ast.BlockStmt, name string) bool {
		found := false
		for _, st := range blk.List {
			ast.Inspect(st, func(y ast.Node) bool {
				if _, isIf := y.(*ast.IfStmt); isIf {
					return false // only the guard's own statements, not nested guards
				}
				if c, ok := y.(*ast.CallExpr); ok {
					if s, ok := ast.Unparen(c.Fun).(*ast.SelectorExpr); ok && s.Sel.Name == name {
						found = true
					}
				}
				return true
			})
		}
		return found
	}
	ast.Inspect(lex.Decl.Body, func(x ast.Node) bool {
		ifs, ok := x.(*ast.IfStmt)
		if !ok {
			return true
		}
		s := sig(ifs.Cond, v)
		if !strings.Contains(s, "?") && len(ifs.Body.List) > 0 {
			if bs, ok := ifs.Body.List[len(ifs.Body.List)-1].(*ast.BranchStmt); ok && bs.Tok == token.CONTINUE {
				if _, have := out["whitespace"]; !have && strings.Contains(s, "1") && s[' '] == '1' {
					out["whitespace"] = s
				}
			}
		}
		for class, callee := range map[string]string{"ident-start": "readIdentifier", "number-start": "readNumber", "string-start": "readStringLiteral"} {
			if callsIn(ifs.Body, callee) {
				if prev, have := out[class]; !have || (!strings.Contains(prev, "1") && strings.Contains(s, "1")) {
					out[class] = s
				}
			}
		}
		return true
	})
	// continuation classes from the break conditions of readIdentifier / readNumber
	for class, fname := range map[string]string{"ident-continue": "readIdentifier", "number-continue": "readNumber"} {
		fr := w.fn(rel, "(*"+recvType+")."+fname)
		if fr == nil {
			continue
		}
		fv := ""
		ast.Inspect(fr.Decl.Body, func(x ast.Node) bool {
			if as, ok := x.(*ast.AssignStmt); ok && fv == "" && len(as.Rhs) == 1 {
				if c, ok := as.Rhs[0].(*ast.CallExpr); ok {
					if s, ok := ast.Unparen(c.Fun).(*ast.SelectorExpr); ok && s.Sel.Name == "readRune" {
						fv = render(as.Lhs[0])
					}
				}
			}
			return true
		})
		var parts []string
		ast.Inspect(fr.Decl.Body, func(x ast.Node) bool {
			ifs, ok := x.(*ast.IfStmt)
			if !ok {
				return true
			}
			hasBreak := false
			for _, st := range ifs.Body.List {
				if bs, ok := st.(*ast.BranchStmt); ok && bs.Tok == token.BREAK {
					hasBreak = true
				}
			}
			if hasBreak && !strings.Contains(types.ExprString(ifs.Cond), "err") {
				parts = append(parts, sig(ifs.Cond, fv))
			}
			return true
		})
		if len(parts) > 0 {
			out[class] = strings.Join(parts, "|")
		}
	}
	return out
}

// evalWithStrings is evalWith plus strings.ContainsRune(lit, v).
func evalWithStrings(info *types.Info, e ast.Expr, v string, val int64) tri {
	e = ast.Unparen(e)
	switch x := e.(type) {
	case *ast.CallExpr:
		if f := callee(info, x); f != nil && f.Pkg() != nil && f.Pkg().Path() == "strings" && f.Name() == "ContainsRune" && len(x.Args) == 2 && render(x.Args[1]) == v {
			if tv, ok := info.Types[x.Args[0]]; ok && tv.Value != nil && tv.Value.Kind() == constant.String {
				return triOf(strings.ContainsRune(constant.StringVal(tv.Value), rune(val)))
			}
		}
		// a call of a small predicate of the module on the rune itself: isLetter(c), isDigit(c) …
		// (one parameter, body = a single return of a boolean expression) is inlined
		if f := callee(info, x); f != nil && len(x.Args) == 1 && render(x.Args[0]) == v {
			if d := gDecls[f.Origin()]; d != nil && d.Body != nil && len(d.Body.List) == 1 && d.Type.Params.NumFields() == 1 && len(d.Type.Params.List[0].Names) == 1 {
				if r, ok := d.Body.List[0].(*ast.ReturnStmt); ok && len(r.Results) == 1 {
					return evalWithStrings(gInfos[f.Origin()], r.Results[0], d.Type.Params.List[0].Names[0].Name, val)
				}
			}
		}
		return triUnknown
	case *ast.BinaryExpr:
		if x.Op == token.LAND || x.Op == token.LOR {
			a, b := evalWithStrings(info, x.X, v, val), evalWithStrings(info, x.Y, v, val)
			if x.Op == token.LAND {
				if a == triFalse || b == triFalse {
					return triFalse
				}
				if a == triTrue && b == triTrue {
					return triTrue
				}
				return triUnknown
			}
			if a == triTrue || b == triTrue {
				return triTrue
			}
			if a == triFalse && b == triFalse {
				return triFalse
			}
			return triUnknown
		}
	case *ast.UnaryExpr:
		if x.Op == token.NOT {
			switch evalWithStrings(info, x.X, v, val) {
			case triTrue:
				return triFalse
			case triFalse:
				return triTrue
			}
			return triUnknown
		}
	}
	return evalWith(info, e, v, val)
}

func describeClass(sig string) string {
	var parts []string
	for _, part := range strings.Split(sig, "|") {
		var sb strings.Builder
		for ch := 0; ch < len(part) && ch < 128; ch++ {
			if part[ch] == '1' {
				q := fmt.Sprintf("%q", rune(ch))
				sb.WriteString(q[1 : len(q)-1])
			}
		}
		parts = append(parts, sb.String())
	}
	return strings.Join(parts, " | ")
}

func rp3LexerClasses(w *World, withSpec bool) {
	w.rule("RP3")
	a := lexerClasses(w, "parser", "protoLex")
	b := lexerClasses(w, "parser/fastscan", "lexer")
	if a == nil || b == nil {
		return
	}
	classes := []string{"whitespace", "ident-start", "number-start", "string-start", "ident-continue", "number-continue"}
	n := 0
	for _, c := range classes {
		sa, oka := a[c]
		sb, okb := b[c]
		key := "class-agree|" + c
		switch {
		case !oka || !okb:
			w.undecided(key, token.NoPos, fmt.Sprintf("character class %q could not be extracted from both lexers (parser=%v fastscan=%v)", c, oka, okb))
		case sa == sb:
			n++
			w.ok(key, token.NoPos, "parser lexer and fast scanner use the same "+c+" set: "+describeClass(sa))
		default:
			var diff []string
			for i := 0; i < len(sa) && i < len(sb); i++ {
				if sa[i] != sb[i] && sa[i] != '|' {
					diff = append(diff, fmt.Sprintf("%q", rune(i%129)))
				}
			}
			w.violation(key, token.NoPos, fmt.Sprintf("the fast scanner's %s character set differs from the full lexer's (differs at %s): the scanner tokenises some accepted files differently", c, strings.Join(diff, " ")))
		}
	}
	w.floor("character classes compared between the lexers", n, 0)
	if !withSpec {
		return
	}
	spec := map[string]func(ch int) bool{
		"whitespace":   func(ch int) bool { return strings.ContainsRune(" \t\n\r\f\v", rune(ch)) },
		"ident-start":  func(ch int) bool { return ch == '_' || ch >= 'a' && ch <= 'z' || ch >= 'A' && ch <= 'Z' },
		"string-start": func(ch int) bool { return ch == '"' || ch == '\'' },
		"ident-continue": func(ch int) bool {
			return !(ch == '_' || ch >= 'a' && ch <= 'z' || ch >= 'A' && ch <= 'Z' || ch >= '0' && ch <= '9')
		},
	}
	for _, c := range []string{"whitespace", "ident-start", "string-start", "ident-continue"} {
		s, ok := a[c]
		if !ok {
			continue
		}
		bad := ""
		for ch := 0; ch < 128 && ch < len(s); ch++ {
			want := byte('0')
			if spec[c](ch) {
				want = '1'
			}
			if s[ch] != want {
				bad += fmt.Sprintf(" %q", rune(ch))
			}
		}
		key := "class-spec|" + c
		if bad == "" {
			w.ok(key, token.NoPos, "the full lexer's "+c+" set equals the language specification's")
		} else {
			w.violation(key, token.NoPos, "the full lexer's "+c+" set differs from the language specification at"+bad)
		}
	}
}

func rp3C25(w *World) { rp3LexerClasses(w, false) }
func rp3C14(w *World) { rp3LexerClasses(w, true) }

// ---- RP2: bounded digit counts of the numeric escapes; RH-num: float conversion helper -----------

func rp2EscapeBounds(w *World) {
	w.rule("RP2")
	for _, sp := range [][2]string{{"parser", "(*protoLex).readStringLiteral"}, {"parser/fastscan", "(*lexer).readStringLiteral"}} {
		fr := w.fn(sp[0], sp[1])
		if fr == nil {
			continue
		}
		info := fr.Pkg.TypesInfo
		var sw *ast.SwitchStmt
		n := 0
		ast.Inspect(fr.Decl.Body, func(x ast.Node) bool {
			if s, ok := x.(*ast.SwitchStmt); ok && len(s.Body.List) > n {
				sw, n = s, len(s.Body.List)
			}
			return true
		})
		if sw == nil {
			continue
		}
		tag := ""
		if sw.Tag != nil {
			tag = render(sw.Tag)
		}
		for _, cl := range sw.Body.List {
			cc := cl.(*ast.CaseClause)
			if cc.List == nil {
				continue
			}
			// classify the clause by a representative letter
			kind := ""
			for _, probe := range []struct {
				ch   int64
				name string
				max  int
			}{{'x', "hex", 2}, {'3', "octal", 2}, {'u', "u", 0}, {'U', "U", 0}} {
				match := false
				for _, e := range cc.List {
					if tag != "" {
						if tv, ok := info.Types[e]; ok && tv.Value != nil {
							if v, ok := constant.Int64Val(constant.ToInt(tv.Value)); ok && v == probe.ch {
								match = true
							}
						}
					} else if evalWith(info, e, clauseVar(info, cc), probe.ch) == triTrue {
						match = true
					}
				}
				if match {
					kind = probe.name
				}
			}
			if kind == "" {
				continue
			}
			reads, loops := 0, 0
			var makeSizes []int64
			for _, st := range cc.Body {
				ast.Inspect(st, func(y ast.Node) bool {
					switch e := y.(type) {
					case *ast.ForStmt, *ast.RangeStmt:
						loops++
					case *ast.CallExpr:
						if s, ok := ast.Unparen(e.Fun).(*ast.SelectorExpr); ok && s.Sel.Name == "readRune" {
							reads++
						}
						if isBuiltinCall(info, e, "make") && len(e.Args) == 2 {
							if tv, ok := info.Types[e.Args[1]]; ok && tv.Value != nil {
								v, _ := constant.Int64Val(tv.Value)
								makeSizes = append(makeSizes, v)
							}
						}
					}
					return true
				})
			}
			key := "escape-bound|" + fr.Name + "|" + kind
			switch kind {
			case "hex", "octal":
				if loops == 0 && reads == 2 {
					w.ok(key, cc.Pos(), fmt.Sprintf("the %s escape reads at most 2 further characters (straight-line code, %d reads): \\x takes at most two hex digits, an octal escape at most three digits in total", kind, reads))
				} else if loops > 0 {
					w.undecided(key, cc.Pos(), fmt.Sprintf("the %s escape is decoded by a loop (%d reads): the bound on consumed digits (hex 2, octal 3 in total) can no longer be read off the code shape — review the loop bound", kind, reads))
				} else {
					w.violation(key, cc.Pos(), fmt.Sprintf("the %s escape reads %d further characters; the language allows at most 2 (\\xHH, \\OOO)", kind, reads))
				}
			case "u", "U":
				want := int64(4)
				if kind == "U" {
					want = 8
				}
				okSize := false
				for _, m := range makeSizes {
					if m == want {
						okSize = true
					}
				}
				// or: the digits are read by a helper of the package called with the constant group
				// size, whose body allocates make([]rune, <that parameter>) and fills it in a loop
				if !okSize {
					for _, st := range cc.Body {
						ast.Inspect(st, func(y ast.Node) bool {
							c, ok := y.(*ast.CallExpr)
							if !ok {
								return true
							}
							f := callee(info, c)
							if f == nil {
								return true
							}
							d := gDecls[f.Origin()]
							if d == nil || d.Body == nil {
								return true
							}
							// parameter positions that receive the constant `want`
							pi := 0
							for _, fl := range d.Type.Params.List {
								for _, nm := range fl.Names {
									if pi < len(c.Args) {
										if tv, ok := info.Types[c.Args[pi]]; ok && tv.Value != nil {
											if v, ok := constant.Int64Val(constant.ToInt(tv.Value)); ok && v == want {
												hasMake, hasLoop := false, false
												ast.Inspect(d.Body, func(z ast.Node) bool {
													switch e := z.(type) {
													case *ast.ForStmt, *ast.RangeStmt:
														hasLoop = true
													case *ast.CallExpr:
														if id, ok := ast.Unparen(e.Fun).(*ast.Ident); ok && id.Name == "make" && len(e.Args) == 2 && render(e.Args[1]) == nm.Name {
															hasMake = true
														}
													}
													return true
												})
												if hasMake && hasLoop {
													okSize = true
													loops++
												}
											}
										}
									}
									pi++
								}
							}
							return true
						})
					}
				}
				if okSize && loops >= 1 {
					w.ok(key, cc.Pos(), fmt.Sprintf("\\%s reads into a buffer of exactly %d hex digits", kind, want))
				} else {
					w.violation(key, cc.Pos(), fmt.Sprintf("\\%s does not read a fixed group of %d hex digits (buffers: %v)", kind, want, makeSizes))
				}
			}
		}
	}
	// RH-num: strconv.ParseFloat only inside the parseFloat helper of package parser
	p := w.pkg("parser")
	helper := w.fn("parser", "parseFloat")
	if p == nil || helper == nil {
		return
	}
	n := 0
	for _, b := range allFuncBodies(p) {
		if b.Lit != nil {
			continue
		}
		ast.Inspect(b.Body, func(x ast.Node) bool {
			if c, ok := x.(*ast.CallExpr); ok {
				if f := callee(p.TypesInfo, c); f != nil && f.Pkg() != nil && f.Pkg().Path() == "strconv" && f.Name() == "ParseFloat" {
					n++
					if b.Obj == helper.Obj {
						w.ok("float-conversion|"+b.Label, c.Pos(), "float literals are converted only by the parseFloat helper, which maps overflow to ±Inf as protoc's strtod does")
					} else {
						w.violation("float-conversion|"+b.Label, c.Pos(), "strconv.ParseFloat called outside the parseFloat helper: the overflow-to-infinity rule (and underscore rejection) of numeric literals is bypassed here")
					}
				}
			}
			return true
		})
	}
	w.floor("strconv.ParseFloat call sites in package parser", n, 1)
}

func clauseVar(info *types.Info, cc *ast.CaseClause) string {
	v := ""
	for _, e := range cc.List {
		ast.Inspect(e, func(y ast.Node) bool {
			if be, ok := y.(*ast.BinaryExpr); ok && v == "" {
				if tv, ok := info.Types[be.Y]; ok && tv.Value != nil {
					v = render(be.X)
				}
			}
			return true
		})
	}
	return v
}
