package main

import (
	"fmt"
	"go/ast"
	"go/constant"
	"go/token"
	"go/types"
	"sort"
	"strings"
)

// RP: escape-table agreement (C14, C25, C26). The escape tables are extracted from the switch
// statements of the decoders/encoder themselves:
//   readers: parser.(*protoLex).readStringLiteral, fastscan.(*lexer).readStringLiteral, linker.unescape
//   writer:  internal.EscapeBytes
// A table maps each escape letter to the byte a *simple* clause produces (a clause consisting of
// one statement that writes a constant byte or the letter itself), or to "complex" for the
// multi-character forms (hex, octal, \u, \U).

type escTable struct {
	name    string
	pos     token.Pos
	simple  map[byte]byte // letter -> produced byte
	complex map[byte]bool // letters introducing multi-character escapes
}

// evalWith evaluates a boolean expression over one rune variable v set to val (three-valued).
func evalWith(info *types.Info, e ast.Expr, v string, val int64) tri {
	ex := &valEval{info: info, v: v, val: val}
	return ex.eval(e)
}

type valEval struct {
	info *types.Info
	v    string
	val  int64
}

func (ex *valEval) num(e ast.Expr) (int64, bool) {
	e = ast.Unparen(e)
	if render(e) == ex.v {
		return ex.val, true
	}
	if tv, ok := ex.info.Types[e]; ok && tv.Value != nil {
		if v, ok := constant.Int64Val(constant.ToInt(tv.Value)); ok {
			return v, true
		}
	}
	return 0, false
}

func (ex *valEval) eval(e ast.Expr) tri {
	e = ast.Unparen(e)
	switch x := e.(type) {
	case *ast.BinaryExpr:
		switch x.Op {
		case token.LAND:
			a, b := ex.eval(x.X), ex.eval(x.Y)
			if a == triFalse || b == triFalse {
				return triFalse
			}
			if a == triTrue && b == triTrue {
				return triTrue
			}
			return triUnknown
		case token.LOR:
			a, b := ex.eval(x.X), ex.eval(x.Y)
			if a == triTrue || b == triTrue {
				return triTrue
			}
			if a == triFalse && b == triFalse {
				return triFalse
			}
			return triUnknown
		}
		l, ok1 := ex.num(x.X)
		r, ok2 := ex.num(x.Y)
		if ok1 && ok2 {
			if v, ok := cmpInt(x.Op, l, r); ok {
				return triOf(v)
			}
		}
	case *ast.UnaryExpr:
		if x.Op == token.NOT {
			switch ex.eval(x.X) {
			case triTrue:
				return triFalse
			case triFalse:
				return triTrue
			}
		}
	}
	return triUnknown
}

// extractReaderTable finds the escape switch of a decoder function.
func extractReaderTable(w *World, fr *FuncRef) *escTable {
	info := fr.Pkg.TypesInfo
	var best *ast.SwitchStmt
	bestN := 0
	ast.Inspect(fr.Decl.Body, func(x ast.Node) bool {
		sw, ok := x.(*ast.SwitchStmt)
		if !ok {
			return true
		}
		if n := len(sw.Body.List); n > bestN {
			best, bestN = sw, n
		}
		return true
	})
	if best == nil || bestN < 10 {
		w.undecided("escape-switch|"+fr.Name, fr.Decl.Pos(), "no escape switch with at least 10 clauses found")
		return nil
	}
	t := &escTable{name: fr.Name, pos: best.Pos(), simple: map[byte]byte{}, complex: map[byte]bool{}}
	tag := ""
	if best.Tag != nil {
		tag = render(best.Tag)
	}
	// for a tagless switch the variable is the one compared in the first clause
	varName := tag
	if varName == "" {
		ast.Inspect(best.Body.List[0].(*ast.CaseClause).List[0], func(y ast.Node) bool {
			if be, ok := y.(*ast.BinaryExpr); ok && varName == "" {
				if _, isConst := info.Types[be.Y]; isConst && info.Types[be.Y].Value != nil {
					varName = render(be.X)
				}
			}
			return true
		})
	}
	for _, cl := range best.Body.List {
		cc := cl.(*ast.CaseClause)
		if cc.List == nil {
			continue // default: invalid escape
		}
		var letters []byte
		if tag != "" {
			for _, e := range cc.List {
				if tv, ok := info.Types[e]; ok && tv.Value != nil {
					if v, ok := constant.Int64Val(constant.ToInt(tv.Value)); ok && v >= 0 && v < 128 {
						letters = append(letters, byte(v))
					}
				}
			}
		} else {
			for ch := int64(0); ch < 128; ch++ {
				for _, e := range cc.List {
					if evalWith(info, e, varName, ch) == triTrue {
						letters = append(letters, byte(ch))
					}
				}
			}
		}
		// simple clause: one statement producing one byte
		prod, isSimple := int64(-1), false
		identity := false
		if len(cc.Body) == 1 {
			ast.Inspect(cc.Body[0], func(y ast.Node) bool {
				c, ok := y.(*ast.CallExpr)
				if !ok {
					return true
				}
				var arg ast.Expr
				if s, ok := ast.Unparen(c.Fun).(*ast.SelectorExpr); ok && (s.Sel.Name == "WriteByte" || s.Sel.Name == "WriteRune") && len(c.Args) == 1 {
					arg = c.Args[0]
				}
				if isBuiltinCall(info, c, "append") && len(c.Args) == 2 {
					arg = c.Args[1]
				}
				if arg == nil {
					return true
				}
				if tv, ok := info.Types[arg]; ok && tv.Value != nil {
					if v, ok := constant.Int64Val(constant.ToInt(tv.Value)); ok {
						prod, isSimple = v, true
					}
				} else if render(arg) == varName {
					identity, isSimple = true, true
				}
				return true
			})
		}
		for _, l := range letters {
			switch {
			case isSimple && identity:
				t.simple[l] = l
			case isSimple:
				t.simple[l] = byte(prod)
			default:
				t.complex[l] = true
			}
		}
	}
	return t
}

func (t *escTable) describe() string {
	var ls []string
	for l, b := range t.simple {
		ls = append(ls, fmt.Sprintf("\\%c→%#02x", l, b))
	}
	sort.Strings(ls)
	var cs []string
	for l := range t.complex {
		cs = append(cs, string(rune(l)))
	}
	sort.Strings(cs)
	return strings.Join(ls, " ") + " | complex: " + strings.Join(cs, "")
}

func compareReaders(w *World, a, b *escTable) {
	key := "readers-agree|" + a.name + "~" + b.name
	var diffs []string
	for l := byte(0); l < 128; l++ {
		av, aok := a.simple[l]
		bv, bok := b.simple[l]
		switch {
		case aok != bok:
			diffs = append(diffs, fmt.Sprintf("\\%c is a simple escape in %s only", l, map[bool]string{true: a.name, false: b.name}[aok]))
		case aok && av != bv:
			diffs = append(diffs, fmt.Sprintf("\\%c decodes to %#02x in %s but %#02x in %s", l, av, a.name, bv, b.name))
		}
		if a.complex[l] != b.complex[l] {
			diffs = append(diffs, fmt.Sprintf("\\%c introduces a multi-character escape in %s only", l, map[bool]string{true: a.name, false: b.name}[a.complex[l]]))
		}
	}
	if len(diffs) == 0 {
		w.ok(key, a.pos, fmt.Sprintf("both decoders accept the same %d simple escapes with the same bytes and the same %d multi-character introducers", len(a.simple), len(a.complex)))
	} else {
		w.violation(key, b.pos, "the two decoders of Protobuf string escapes disagree, so at least one differs from protoc: "+strings.Join(diffs, "; "))
	}
}

func rpReaders(w *World, which ...string) []*escTable {
	w.rule("RP")
	specs := map[string][2]string{
		"parser":   {"parser", "(*protoLex).readStringLiteral"},
		"fastscan": {"parser/fastscan", "(*lexer).readStringLiteral"},
		"linker":   {"linker", "unescape"},
	}
	var out []*escTable
	for _, k := range which {
		fr := w.fn(specs[k][0], specs[k][1])
		if fr == nil {
			continue
		}
		if t := extractReaderTable(w, fr); t != nil {
			w.info("table|"+t.name, t.pos, t.describe())
			if len(t.simple) < 11 || len(t.complex) < 11 {
				w.undecided("table-size|"+t.name, t.pos, fmt.Sprintf("extracted only %d simple and %d complex escape letters (expected 11 and 12): the extractor no longer understands this switch", len(t.simple), len(t.complex)))
				continue
			}
			out = append(out, t)
		}
	}
	return out
}

// C14: the three source-level decoders agree.
func rpC14(w *World) {
	ts := rpReaders(w, "parser", "fastscan", "linker")
	w.floor("string-escape decoders extracted", len(ts), 3)
	for i := 0; i+1 < len(ts); i++ {
		compareReaders(w, ts[i], ts[i+1])
	}
	// the reference table of the Protobuf language: simple escapes and their bytes
	ref := map[byte]byte{'a': 7, 'b': 8, 'f': 12, 'n': 10, 'r': 13, 't': 9, 'v': 11, '\\': '\\', '\'': '\'', '"': '"', '?': '?'}
	for _, t := range ts {
		var diffs []string
		for l, b := range ref {
			if got, ok := t.simple[l]; !ok || got != b {
				diffs = append(diffs, fmt.Sprintf("\\%c", l))
			}
		}
		for l := range t.simple {
			if _, ok := ref[l]; !ok {
				diffs = append(diffs, fmt.Sprintf("extra \\%c", l))
			}
		}
		sort.Strings(diffs)
		if len(diffs) == 0 {
			w.ok("spec-table|"+t.name, t.pos, "simple escapes are exactly the 11 of the Protobuf language specification with their C values")
		} else {
			w.violation("spec-table|"+t.name, t.pos, "simple escape table differs from the language specification (\\a \\b \\f \\n \\r \\t \\v \\\\ \\' \\\" \\?): "+strings.Join(diffs, ", "))
		}
	}
}

// C25: fast scanner and parser agree (strings), and the import modifiers agree with the grammar.
func rpC25(w *World) {
	ts := rpReaders(w, "parser", "fastscan")
	w.floor("string-escape decoders extracted", len(ts), 2)
	if len(ts) == 2 {
		compareReaders(w, ts[0], ts[1])
	}
	rpImportModifiers(w)
}

// rpImportModifiers: the modifiers fastscan.Scan recognises after `import` equal the keyword
// alternatives of importDecl in the grammar (read from the compiled parser tables' source, proto.y).
func rpImportModifiers(w *World) {
	p := w.pkg("parser/fastscan")
	scan := w.fn("parser/fastscan", "Scan")
	if p == nil || scan == nil {
		return
	}
	info := p.TypesInfo
	// modifiers in Scan: string constants compared or switched on that are import modifiers
	cand := map[string]bool{}
	ast.Inspect(scan.Decl.Body, func(x ast.Node) bool {
		if bl, ok := x.(*ast.BasicLit); ok && bl.Kind == token.STRING {
			if tv, ok := info.Types[bl]; ok && tv.Value != nil {
				s := constant.StringVal(tv.Value)
				switch s {
				case "public", "weak", "option", "optional", "private", "static":
					cand[s] = true
				}
			}
		}
		return true
	})
	// grammar: alternatives of importDecl in proto.y
	src, err := readRepoFile(w, "parser/proto.y")
	if err != nil {
		w.undecided("import-modifiers|grammar", token.NoPos, "cannot read parser/proto.y: "+err.Error())
		return
	}
	gram := map[string]bool{}
	inRule := false
	for _, line := range strings.Split(src, "\n") {
		t := strings.TrimSpace(line)
		if strings.HasPrefix(t, "importDecl") && strings.Contains(t, ":") {
			inRule = true
		} else if inRule && (t == "" || (len(t) > 0 && !strings.HasPrefix(t, "|") && !strings.HasPrefix(t, "{") && !strings.HasPrefix(t, "}") && strings.Contains(t, ":") && !strings.Contains(t, "_IMPORT"))) {
			if !strings.HasPrefix(t, "|") && !strings.Contains(t, "_IMPORT") && t != "" && !strings.HasPrefix(t, "$") && !strings.HasPrefix(t, "protolex") {
				// next rule starts
				if strings.HasSuffix(strings.Fields(t)[0], ":") || (len(strings.Fields(t)) > 1 && strings.Fields(t)[1] == ":") {
					inRule = false
				}
			}
		}
		if inRule && strings.Contains(t, "_IMPORT") {
			for _, f := range strings.Fields(t) {
				switch f {
				case "_PUBLIC":
					gram["public"] = true
				case "_WEAK":
					gram["weak"] = true
				case "_OPTION":
					gram["option"] = true
				}
			}
		}
	}
	if len(gram) == 0 {
		w.undecided("import-modifiers|grammar", token.NoPos, "no importDecl alternatives with modifiers found in proto.y")
		return
	}
	var diffs []string
	for m := range gram {
		if !cand[m] {
			diffs = append(diffs, "grammar accepts `import "+m+"` but the fast scanner does not recognise it")
		}
	}
	for m := range cand {
		if !gram[m] {
			diffs = append(diffs, "fast scanner treats `"+m+"` as an import modifier but the grammar does not")
		}
	}
	sort.Strings(diffs)
	if len(diffs) == 0 {
		w.ok("import-modifiers", scan.Decl.Pos(), fmt.Sprintf("the fast scanner recognises exactly the import modifiers of the grammar's importDecl: %v", sortedKeys(gram)))
	} else {
		w.violation("import-modifiers", scan.Decl.Pos(), strings.Join(diffs, "; "))
	}
}

func readRepoFile(w *World, rel string) (string, error) {
	b, err := readFile(w.RepoDir + "/" + rel)
	return string(b), err
}

// C26: writer (EscapeBytes) and reader (linker.unescape) agree.
func rpC26(w *World) {
	ts := rpReaders(w, "linker")
	esc := w.fn("internal", "EscapeBytes")
	if len(ts) != 1 || esc == nil {
		return
	}
	reader := ts[0]
	info := esc.Pkg.TypesInfo
	var sw *ast.SwitchStmt
	ast.Inspect(esc.Decl.Body, func(x ast.Node) bool {
		if s, ok := x.(*ast.SwitchStmt); ok && sw == nil {
			sw = s
		}
		return true
	})
	if sw == nil || sw.Tag == nil {
		w.undecided("writer-switch", esc.Decl.Pos(), "EscapeBytes has no tag switch over the byte")
		return
	}
	n := 0
	for _, cl := range sw.Body.List {
		cc := cl.(*ast.CaseClause)
		if cc.List == nil {
			// default: printable bytes verbatim, everything else as exactly three octal digits
			nDigits := 0
			ast.Inspect(cc, func(y ast.Node) bool {
				if c, ok := y.(*ast.CallExpr); ok {
					if s, ok := ast.Unparen(c.Fun).(*ast.SelectorExpr); ok && s.Sel.Name == "WriteByte" && len(c.Args) == 1 {
						if be, ok := ast.Unparen(c.Args[0]).(*ast.BinaryExpr); ok && be.Op == token.ADD && render(be.X) == "'0'" {
							nDigits++
						}
					}
				}
				return true
			})
			// reader: octal branch consumes 1 + matchPrefix(..., K, isOctal) digits
			limit := int64(-1)
			if fr := w.fn("linker", "unescape"); fr != nil {
				ast.Inspect(fr.Decl.Body, func(y ast.Node) bool {
					if c, ok := y.(*ast.CallExpr); ok && len(c.Args) == 3 && render(c.Args[2]) == "isOctal" {
						if tv, ok := fr.Pkg.TypesInfo.Types[c.Args[1]]; ok && tv.Value != nil {
							limit, _ = constant.Int64Val(tv.Value)
						}
					}
					return true
				})
			}
			for _, d := range "01234567" {
				if !reader.complex[byte(d)] {
					w.violation("octal|reader-accepts-digit", reader.pos, fmt.Sprintf("unescape does not treat \\%c as the start of an octal escape", d))
				}
			}
			if nDigits == 3 && limit == 2 {
				w.ok("octal|three-digits", cc.Pos(), "the writer always emits exactly three octal digits and the reader consumes at most 1+2: a following digit character can never be absorbed")
			} else {
				w.violation("octal|three-digits", cc.Pos(), fmt.Sprintf("writer emits %d octal digits, reader consumes at most 1+%d: bytes followed by a digit character would decode differently", nDigits, limit))
			}
			// printable range passes through verbatim and must not contain the escape character handled elsewhere
			continue
		}
		for _, e := range cc.List {
			tv, ok := info.Types[e]
			if !ok || tv.Value == nil {
				continue
			}
			bv, _ := constant.Int64Val(constant.ToInt(tv.Value))
			// emitted string
			emitted := ""
			ast.Inspect(cc, func(y ast.Node) bool {
				if c, ok := y.(*ast.CallExpr); ok {
					if s, ok := ast.Unparen(c.Fun).(*ast.SelectorExpr); ok && s.Sel.Name == "WriteString" && len(c.Args) == 1 {
						if atv, ok := info.Types[c.Args[0]]; ok && atv.Value != nil {
							emitted = constant.StringVal(atv.Value)
						}
					}
				}
				return true
			})
			n++
			key := fmt.Sprintf("writer-reader|%#02x", bv)
			if len(emitted) != 2 || emitted[0] != '\\' {
				w.violation(key, cc.Pos(), fmt.Sprintf("byte %#02x is escaped as %q, not a two-character backslash escape", bv, emitted))
				continue
			}
			got, ok := reader.simple[emitted[1]]
			if ok && int64(got) == bv {
				w.ok(key, cc.Pos(), fmt.Sprintf("byte %#02x is written as %q and unescape maps \\%c back to %#02x", bv, emitted, emitted[1], got))
			} else {
				w.violation(key, cc.Pos(), fmt.Sprintf("byte %#02x is written as %q but linker.unescape decodes \\%c to %v (known=%v): a bytes default containing this byte does not survive", bv, emitted, emitted[1], got, ok))
			}
		}
	}
	w.floor("simple escapes emitted by EscapeBytes", n, 6)
	// per-byte map: the loop body depends on data only through data[i]
	uses := 0
	whole := 0
	ast.Inspect(esc.Decl.Body, func(x ast.Node) bool {
		if id, ok := x.(*ast.Ident); ok && id.Name == "data" {
			uses++
		}
		if ix, ok := x.(*ast.IndexExpr); ok && render(ix.X) == "data" {
			whole--
		}
		if c, ok := x.(*ast.CallExpr); ok && isBuiltinCall(info, c, "len") && len(c.Args) == 1 && render(c.Args[0]) == "data" {
			whole--
		}
		return true
	})
	if uses+whole == 0 {
		w.ok("writer|per-byte", esc.Decl.Pos(), "EscapeBytes reads its input only as len(data) and data[i]: the escaping is a per-byte map, so table agreement covers every input")
	} else {
		w.violation("writer|per-byte", esc.Decl.Pos(), "EscapeBytes uses its input other than through len(data)/data[i]: escaping may depend on context")
	}
}
