package main

import (
	"fmt"
	"go/ast"
	"go/token"
	"go/types"

	"golang.org/x/tools/go/cfg"
)

// Rules over /repo/reporter/reporter.go for C08.

func raReporter(w *World) *lockAnalysis {
	w.rule("RA")
	p := w.pkg("reporter")
	if p == nil {
		return nil
	}
	guards := []*guard{
		w.mkGuard("reporter", "Handler", "err", "mu", false),
		w.mkGuard("reporter", "Handler", "errsReported", "mu", false),
	}
	la := w.runGuardedBy(p, guards)
	w.floor("guarded accesses of Handler.err/errsReported", len(la.accesses), 7)
	// parent and reporter are set only by the constructors
	raTableComplete(w, "reporter", "Handler", []string{"parent", "mu", "reporter"}, guards)
	raImmutableAfterConstruction(w, "reporter", "Handler", []string{"parent", "reporter"})
	raNoBlockingUnderLock(w, la, "reporter")
	return la
}

func rhReporter(w *World) {
	la := raReporter(w)
	w.rule("RH")
	p := w.pkg("reporter")
	if p == nil || la == nil {
		return
	}
	info := p.TypesInfo
	rep := w.typ("reporter", "Reporter")
	handleError := w.fn("reporter", "(*Handler).HandleError")
	handleWarning := w.fn("reporter", "(*Handler).HandleWarning")
	errFld := w.field("reporter", "Handler", "err")
	errsReported := w.field("reporter", "Handler", "errsReported")
	parent := w.field("reporter", "Handler", "parent")
	if rep == nil || handleError == nil || handleWarning == nil || errFld == nil || errsReported == nil || parent == nil {
		return
	}
	iface, _ := rep.Underlying().(*types.Interface)
	var repError, repWarning *types.Func
	for i := 0; i < iface.NumMethods(); i++ {
		switch iface.Method(i).Name() {
		case "Error":
			repError = iface.Method(i)
		case "Warning":
			repWarning = iface.Method(i)
		}
	}
	if repError == nil || repWarning == nil {
		w.undecided("RH1|anchor", token.NoPos, "reporter.Reporter no longer has Error and Warning methods")
		return
	}

	// RH1: invocations of the Reporter interface anywhere in the module (non-test)
	allowed := map[*types.Func]*types.Func{repError: handleError.Obj, repWarning: handleWarning.Obj}
	n := 0
	for _, pk := range w.Roots {
		for _, b := range allFuncBodies(pk) {
			if b.Lit != nil {
				continue
			}
			ast.Inspect(b.Body, func(x ast.Node) bool {
				c, ok := x.(*ast.CallExpr)
				if !ok {
					return true
				}
				f := callee(pk.TypesInfo, c)
				want, isRep := allowed[f]
				if !isRep {
					return true
				}
				n++
				key := "RH1|" + b.Label + "|" + f.Name()
				if b.Obj != want {
					w.violation(key, c.Pos(), "reporter.Reporter."+f.Name()+" invoked outside (*Handler)."+want.Name()+": the call is not serialised by the root handler's mutex and bypasses the abort latch")
				} else {
					w.okTrivial(key, c.Pos(), "Reporter invoked from the handler method that owns it")
				}
				return true
			})
		}
	}
	w.floor("invocations of reporter.Reporter methods in the module", n, 2)
	// under the exclusive lock of the same handler
	for _, c := range la.calls {
		if want, ok := allowed[c.callee]; ok && c.fnObj == want {
			key := "RH1|" + c.fn + "|" + c.callee.Name() + "|locked"
			recv := ""
			if c.recv != nil {
				// c.recv is h.reporter; the handler is its base
				if s, ok := ast.Unparen(c.recv).(*ast.SelectorExpr); ok {
					recv = render(s.X)
				}
			}
			if c.locks["W:"+recv+".mu"] {
				w.ok(key, c.pos, "called with "+recv+".mu held exclusively: the reporter is never entered concurrently through this handler")
			} else {
				w.violation(key, c.pos, "Reporter."+c.callee.Name()+" called with lock set "+c.locks.String()+": without the exclusive lock two tasks can be inside the reporter at once")
			}
		}
	}
	// on the root path only: the call is not reachable on the branch where h.parent != nil
	for _, fr := range []*FuncRef{handleError, handleWarning} {
		body := fr.Decl.Body
		g := buildCFG(info, body)
		// must-analysis: the fact "root" holds only where `h.parent == nil` has been established on
		// every path (a handler method without any test of h.parent establishes nothing: a
		// sub-handler that carries a reporter of its own would call it under its own mutex)
		d := &Dataflow{G: g, Must: true, Init: Facts{}, Transfer: func(n ast.Node, in Facts) Facts {
			// `p := h.parent`: p stands for the parent
			if as, ok := n.(*ast.AssignStmt); ok && len(as.Lhs) == 1 && len(as.Rhs) == 1 {
				if selField(info, as.Rhs[0]) == parent {
					return in.with("par:" + render(as.Lhs[0]))
				}
				return in.without("par:" + render(as.Lhs[0]))
			}
			return in
		}}
		d.Branch = func(leaf ast.Expr, truth bool, s Facts) Facts {
			if be, ok := leaf.(*ast.BinaryExpr); ok && isNilIdent(info, be.Y) && (selField(info, be.X) == parent || s["par:"+render(be.X)]) {
				if (be.Op == token.NEQ && !truth) || (be.Op == token.EQL && truth) {
					return s.with("root")
				}
			}
			return s
		}
		d.Run()
		d.Walk(func(_ *cfg.Block, n ast.Node, before Facts) {
			inspectPost(n, func(x ast.Node) {
				if c, ok := x.(*ast.CallExpr); ok {
					if _, isRep := allowed[callee(info, c)]; isRep {
						if !before["root"] {
							w.violation("RH1|"+fr.Name+"|root-only", c.Pos(), "the reporter can be reached without h.parent == nil having been established: a sub-handler then enters the reporter under its own mutex, not the root's, so tasks reporting through different sub-handlers are inside the reporter at the same time")
						} else {
							w.ok("RH1|"+fr.Name+"|root-only", c.Pos(), "the reporter is reached only on the root handler path (parent == nil established on every path)")
						}
					}
				}
			})
		})
	}

	// RH3: abort latch in the root branch of HandleError
	{
		body := handleError.Decl.Body
		g := buildCFG(info, body)
		d := &Dataflow{G: g, Must: true, Init: Facts{}}
		d.Transfer = func(n ast.Node, in Facts) Facts {
			out := in
			if as, ok := n.(*ast.AssignStmt); ok {
				for i, l := range as.Lhs {
					if selField(info, l) == errsReported && i < len(as.Rhs) && render(as.Rhs[i]) == "true" {
						out = out.with("reported-flag")
					}
					if selField(info, l) == errFld {
						out = out.with("latched")
					}
				}
			}
			return out
		}
		d.Branch = func(leaf ast.Expr, truth bool, s Facts) Facts {
			if be, ok := leaf.(*ast.BinaryExpr); ok && selField(info, be.X) == errFld && isNilIdent(info, be.Y) {
				if (be.Op == token.NEQ && !truth) || (be.Op == token.EQL && truth) {
					return s.with("not-aborted")
				}
			}
			return s
		}
		d.Run()
		d.Walk(func(_ *cfg.Block, n ast.Node, before Facts) {
			inspectPost(n, func(x ast.Node) {
				if c, ok := x.(*ast.CallExpr); ok && callee(info, c) == repError {
					if before["not-aborted"] {
						w.ok("RH3|HandleError|latch-dominates-report", c.Pos(), "Reporter.Error is reached only on the false branch of `h.err != nil`: once the reporter returned an error no further error reaches it")
					} else {
						w.violation("RH3|HandleError|latch-dominates-report", c.Pos(), "Reporter.Error can be called although the handler already aborted (h.err != nil not tested on this path)")
					}
					if before["reported-flag"] {
						w.ok("RH3|HandleError|flag-before-report", c.Pos(), "errsReported is set before the reporter is consulted, so an accepted error still fails the compilation with ErrInvalidSource")
					} else {
						w.violation("RH3|HandleError|flag-before-report", c.Pos(), "Reporter.Error can be called without errsReported having been set: an accepted error would let the compilation succeed")
					}
				}
			})
		})
		// after the reporter call h.err is assigned from its result before any exit
		isRep := func(x ast.Node) bool { c, ok := x.(*ast.CallExpr); return ok && callee(info, c) == repError }
		isLatch := func(x ast.Node) bool {
			as, ok := x.(*ast.AssignStmt)
			if !ok {
				return false
			}
			for _, l := range as.Lhs {
				if selField(info, l) == errFld {
					return true
				}
			}
			return false
		}
		na, bad := mustFollow(info, body, isRep, isLatch)
		if na >= 1 && len(bad) == 0 {
			w.ok("RH3|HandleError|latch-set-from-report", body.Pos(), "every path from Reporter.Error to an exit assigns h.err (the abort latch)")
		} else {
			w.violation("RH3|HandleError|latch-set-from-report", body.Pos(), "HandleError can return after Reporter.Error without recording its result in h.err")
		}
		// the value stored in the latch and returned is the reporter's result: the variable assigned from
		// the reporter call is the one assigned to h.err and returned
		rhLatchValue(w, info, body, repError, errFld)
	}

	// RH2: HandleWarning* write no Handler field
	hw := []*FuncRef{handleWarning, w.fn("reporter", "(*Handler).HandleWarningWithPos"), w.fn("reporter", "(*Handler).HandleWarningf")}
	handler := w.typ("reporter", "Handler")
	for _, fr := range hw {
		if fr == nil || handler == nil {
			continue
		}
		writes := 0
		ast.Inspect(fr.Decl.Body, func(x ast.Node) bool {
			var lhs []ast.Expr
			switch s := x.(type) {
			case *ast.AssignStmt:
				lhs = s.Lhs
			case *ast.IncDecStmt:
				lhs = []ast.Expr{s.X}
			}
			for _, l := range lhs {
				if v := selField(info, l); v != nil {
					st := handler.Underlying().(*types.Struct)
					for i := 0; i < st.NumFields(); i++ {
						if st.Field(i) == v {
							writes++
							w.violation("RH2|"+fr.Name+"|writes:"+v.Name(), l.Pos(), "a warning path writes Handler."+v.Name()+": warnings must not be able to fail a compilation")
						}
					}
				}
			}
			// calls: only HandleWarning*, Error/Errorf constructors, Lock/Unlock, Reporter.Warning
			if c, ok := x.(*ast.CallExpr); ok {
				if f := callee(info, c); f != nil && f.Pkg() != nil && f.Pkg().Path() == modPath+"/reporter" {
					if sig := f.Type().(*types.Signature); sig.Recv() != nil {
						rt := sig.Recv().Type()
						if pt, ok := rt.(*types.Pointer); ok {
							rt = pt.Elem()
						}
						if rt == types.Type(handler) && f.Name() != "HandleWarning" {
							writes++
							w.violation("RH2|"+fr.Name+"|calls:"+f.Name(), c.Pos(), "a warning path calls (*Handler)."+f.Name()+", which is not a warning method")
						}
					}
				}
			}
			return true
		})
		if writes == 0 {
			w.ok("RH2|"+fr.Name, fr.Decl.Pos(), "writes no Handler field and calls no non-warning Handler method")
		}
	}
}

func rhLatchValue(w *World, info *types.Info, body *ast.BlockStmt, repError *types.Func, errFld *types.Var) {
	// find `X = h.reporter.Error(..)`, then `h.err = X` and `return X`
	var v string
	ast.Inspect(body, func(x ast.Node) bool {
		if as, ok := x.(*ast.AssignStmt); ok && len(as.Rhs) == 1 && len(as.Lhs) == 1 {
			if c, ok := ast.Unparen(as.Rhs[0]).(*ast.CallExpr); ok && callee(info, c) == repError {
				v = render(as.Lhs[0])
			}
		}
		return true
	})
	if v == "" {
		w.violation("RH3|HandleError|report-result-kept", body.Pos(), "the result of Reporter.Error is not stored in a variable (it must become the latch and the return value)")
		return
	}
	latchFrom, returns := false, false
	var rootRet *ast.ReturnStmt
	ast.Inspect(body, func(x ast.Node) bool {
		switch s := x.(type) {
		case *ast.AssignStmt:
			for i, l := range s.Lhs {
				if selField(info, l) == errFld && i < len(s.Rhs) && render(s.Rhs[i]) == v {
					latchFrom = true
				}
			}
		case *ast.ReturnStmt:
			rootRet = s
		}
		return true
	})
	if rootRet != nil && len(rootRet.Results) == 1 && render(rootRet.Results[0]) == v {
		returns = true
	}
	if latchFrom && returns {
		w.ok("RH3|HandleError|report-result-kept", body.Pos(), fmt.Sprintf("the reporter's result (%s) is what is latched in h.err and returned: the compilation fails with that same error", v))
	} else {
		w.violation("RH3|HandleError|report-result-kept", body.Pos(), fmt.Sprintf("the reporter's result %s is not both stored in h.err (%v) and returned (%v)", v, latchFrom, returns))
	}
}
