package main

import (
	"go/ast"
	"go/token"
	"go/types"
	"sort"
	"strings"

	"golang.org/x/tools/go/cfg"
)

// Facts is a small set of strings used as a dataflow state.
type Facts map[string]bool

func (f Facts) clone() Facts {
	n := make(Facts, len(f))
	for k := range f {
		n[k] = true
	}
	return n
}
func (f Facts) with(k string) Facts {
	if f[k] {
		return f
	}
	n := f.clone()
	n[k] = true
	return n
}
func (f Facts) without(k string) Facts {
	if !f[k] {
		return f
	}
	n := f.clone()
	delete(n, k)
	return n
}
func (f Facts) equal(g Facts) bool {
	if len(f) != len(g) {
		return false
	}
	for k := range f {
		if !g[k] {
			return false
		}
	}
	return true
}
func (f Facts) String() string {
	var ks []string
	for k := range f {
		ks = append(ks, k)
	}
	sort.Strings(ks)
	return "{" + strings.Join(ks, ", ") + "}"
}

func intersect(a, b Facts) Facts {
	n := Facts{}
	for k := range a {
		if b[k] {
			n[k] = true
		}
	}
	return n
}
func union(a, b Facts) Facts {
	n := a.clone()
	for k := range b {
		n[k] = true
	}
	return n
}

// isNoReturnCall: panic(...) and a few well-known non-returning functions.
func isNoReturnCall(info *types.Info, call *ast.CallExpr) bool {
	if isBuiltinCall(info, call, "panic") {
		return true
	}
	if f := callee(info, call); f != nil && f.Pkg() != nil {
		switch f.Pkg().Path() + "." + f.Name() {
		case "os.Exit", "log.Fatal", "log.Fatalf", "log.Fatalln", "runtime.Goexit":
			return true
		}
	}
	return false
}

func buildCFG(info *types.Info, body *ast.BlockStmt) *cfg.CFG {
	return cfg.New(body, func(call *ast.CallExpr) bool { return !isNoReturnCall(info, call) })
}

// inspectPost visits the sub-nodes of n in (approximate) evaluation order: children before
// parents, left to right. Function literal bodies are not entered (the FuncLit node itself is
// visited); neither are nested statement bodies (go/cfg never puts compound statements in Nodes).
func inspectPost(n ast.Node, visit func(ast.Node)) {
	if n == nil {
		return
	}
	var stack []ast.Node
	ast.Inspect(n, func(x ast.Node) bool {
		if x == nil {
			top := stack[len(stack)-1]
			stack = stack[:len(stack)-1]
			visit(top)
			return true
		}
		if fl, ok := x.(*ast.FuncLit); ok && x != n {
			visit(fl)
			return false
		}
		stack = append(stack, x)
		return true
	})
}

// bottom marks an infeasible state: a Branch function may return Facts{bottom: true} to prune an edge.
const bottom = "⊥"

// Dataflow is a forward analysis over a go/cfg graph with per-node transfer.
type Dataflow struct {
	G        *cfg.CFG
	Must     bool // true: join = intersection (facts hold on all paths); false: union
	Init     Facts
	Transfer func(n ast.Node, in Facts) Facts // must not mutate in
	// Branch, if set, refines the state along the true/false edge of a conditional block. It is
	// called on the leaves of the condition (after splitting &&, || and !) whose truth is implied.
	Branch func(leaf ast.Expr, truth bool, s Facts) Facts
	// OnCycle, if set, is called by Paths when a path reaches a block that is already on it (a loop
	// back edge): the state is the one carried along the path into that block.
	OnCycle func(to *cfg.Block, s Facts)
	in      map[*cfg.Block]Facts
}

// refine applies Branch to the leaves of cond whose value is implied by cond == truth.
func (d *Dataflow) refine(cond ast.Expr, truth bool, s Facts) Facts {
	if s[bottom] {
		return s
	}
	cond = ast.Unparen(cond)
	switch c := cond.(type) {
	case *ast.BinaryExpr:
		if c.Op == token.LAND {
			if truth {
				return d.refine(c.Y, true, d.refine(c.X, true, s))
			}
			// false: X is false, or X is true and Y is false
			return d.joinBottom(d.refine(c.X, false, s), d.refine(c.Y, false, d.refine(c.X, true, s)))
		}
		if c.Op == token.LOR {
			if !truth {
				return d.refine(c.Y, false, d.refine(c.X, false, s))
			}
			return d.joinBottom(d.refine(c.X, true, s), d.refine(c.Y, true, d.refine(c.X, false, s)))
		}
	case *ast.UnaryExpr:
		if c.Op == token.NOT {
			return d.refine(c.X, !truth, s)
		}
	}
	return d.Branch(cond, truth, s)
}

// joinBottom joins two states where bottom (infeasible) is the identity.
func (d *Dataflow) joinBottom(a, b Facts) Facts {
	if a[bottom] {
		return b
	}
	if b[bottom] {
		return a
	}
	return d.join(a, b)
}

// edgeState gives the state flowing from b (whose end state is o) to its i-th successor.
func (d *Dataflow) edgeState(b *cfg.Block, i int, o Facts) Facts {
	if d.Branch == nil || len(b.Succs) != 2 || len(b.Nodes) == 0 {
		return o
	}
	cond, ok := b.Nodes[len(b.Nodes)-1].(ast.Expr)
	if !ok {
		return o
	}
	return d.refine(cond, i == 0, o)
}

func (d *Dataflow) join(a, b Facts) Facts {
	if d.Must {
		return intersect(a, b)
	}
	return union(a, b)
}

func (d *Dataflow) out(b *cfg.Block, s Facts) Facts {
	for _, n := range b.Nodes {
		s = d.Transfer(n, s)
	}
	return s
}

// Run computes the fixpoint; the result maps each reachable block to its entry state.
func (d *Dataflow) Run() {
	d.in = map[*cfg.Block]Facts{}
	if len(d.G.Blocks) == 0 {
		return
	}
	entry := d.G.Blocks[0]
	d.in[entry] = d.Init
	work := []*cfg.Block{entry}
	for len(work) > 0 {
		b := work[0]
		work = work[1:]
		o := d.out(b, d.in[b])
		for i, s := range b.Succs {
			old, seen := d.in[s]
			eo := d.edgeState(b, i, o)
			if eo[bottom] {
				continue // infeasible edge
			}
			var nw Facts
			if !seen {
				nw = eo
			} else {
				nw = d.join(old, eo)
			}
			if !seen || !nw.equal(old) {
				d.in[s] = nw
				work = append(work, s)
			}
		}
	}
}

// Walk replays every reachable block and calls visit with the state before each node.
func (d *Dataflow) Walk(visit func(b *cfg.Block, n ast.Node, before Facts)) {
	for _, b := range d.G.Blocks {
		s, ok := d.in[b]
		if !ok {
			continue
		}
		for _, n := range b.Nodes {
			visit(b, n, s)
			s = d.Transfer(n, s)
		}
	}
}

// Exit describes one way out of the function.
type Exit struct {
	Block *cfg.Block
	State Facts    // state at the exit (after the last node)
	Last  ast.Node // *ast.ReturnStmt, a panic ExprStmt, or nil for falling off the end
	Kind  string   // "return" | "panic" | "end"
	Pos   token.Pos
}

// Exits lists reachable blocks without successors with the state at their end.
func (d *Dataflow) Exits(info *types.Info, endPos token.Pos) []Exit {
	var out []Exit
	for _, b := range d.G.Blocks {
		s, ok := d.in[b]
		if !ok || len(b.Succs) != 0 {
			continue
		}
		if b.Kind == cfg.KindSelectAfterCase && len(b.Nodes) == 0 {
			continue // "no case ready" pseudo-block of a select without default: not an exit
		}
		s = d.out(b, s)
		e := Exit{Block: b, State: s, Kind: "end", Pos: endPos}
		if len(b.Nodes) > 0 {
			last := b.Nodes[len(b.Nodes)-1]
			e.Last = last
			e.Pos = last.Pos()
			switch x := last.(type) {
			case *ast.ReturnStmt:
				e.Kind = "return"
			case *ast.ExprStmt:
				if c, ok := x.X.(*ast.CallExpr); ok && isNoReturnCall(info, c) {
					e.Kind = "panic"
				}
			}
		}
		out = append(out, e)
	}
	return out
}

// funcLits returns the function literals syntactically inside n (not nested ones inside those).
func funcLits(n ast.Node) []*ast.FuncLit {
	var out []*ast.FuncLit
	ast.Inspect(n, func(x ast.Node) bool {
		if fl, ok := x.(*ast.FuncLit); ok {
			out = append(out, fl)
			return false
		}
		return true
	})
	return out
}

// callsIn lists the call expressions evaluated by node n in evaluation order (no FuncLit bodies).
func callsIn(n ast.Node) []*ast.CallExpr {
	var out []*ast.CallExpr
	inspectPost(n, func(x ast.Node) {
		if c, ok := x.(*ast.CallExpr); ok {
			out = append(out, c)
		}
	})
	return out
}

// mustPrecede checks Before(F, A, B): every path from the entry to a node for which isB holds has
// passed a node for which isA holds. It returns the B nodes that can be reached without A.
// isA / isB are evaluated on sub-nodes in evaluation order.
func mustPrecede(info *types.Info, body *ast.BlockStmt, isA, isB func(ast.Node) bool) (bs int, bad []ast.Node) {
	g := buildCFG(info, body)
	d := &Dataflow{G: g, Must: true, Init: Facts{}}
	d.Transfer = func(n ast.Node, in Facts) Facts {
		out := in
		inspectPost(n, func(x ast.Node) {
			if isA(x) {
				out = out.with("A")
			}
		})
		return out
	}
	d.Run()
	d.Walk(func(b *cfg.Block, n ast.Node, before Facts) {
		seen := before["A"]
		inspectPost(n, func(x ast.Node) {
			if isA(x) {
				seen = true
			}
			if isB(x) {
				bs++
				if !seen {
					bad = append(bad, x)
				}
			}
		})
	})
	return bs, bad
}

// mustFollow checks After(F, A, B): every path from an A node to a function exit passes a B node
// (a B registered with defer before the exit counts). Returns exits reachable with A pending.
func mustFollow(info *types.Info, body *ast.BlockStmt, isA, isB func(ast.Node) bool) (as int, bad []Exit) {
	g := buildCFG(info, body)
	d := &Dataflow{G: g, Must: false, Init: Facts{}}
	d.Transfer = func(n ast.Node, in Facts) Facts {
		out := in
		if ds, ok := n.(*ast.DeferStmt); ok {
			hasB := false
			inspectPost(ds.Call, func(x ast.Node) {
				if isB(x) {
					hasB = true
				}
			})
			for _, fl := range funcLits(ds.Call) {
				ast.Inspect(fl.Body, func(x ast.Node) bool {
					if x != nil && isB(x) {
						hasB = true
					}
					return true
				})
			}
			if hasB {
				// a deferred B is only reliable if registered on every path; model by a
				// "nodefer" may-fact that is set at entry and cleared here.
				out = out.without("nodefer")
			}
			return out
		}
		inspectPost(n, func(x ast.Node) {
			if isA(x) {
				out = out.with("pending")
			}
			if isB(x) {
				out = out.without("pending")
			}
		})
		return out
	}
	d.Init = Facts{"nodefer": true}
	d.Run()
	d.Walk(func(b *cfg.Block, n ast.Node, before Facts) {
		inspectPost(n, func(x ast.Node) {
			if isA(x) {
				as++
			}
		})
	})
	for _, e := range d.Exits(info, body.End()) {
		if e.State["pending"] && e.State["nodefer"] {
			bad = append(bad, e)
		}
	}
	return as, bad
}

// Paths enumerates the acyclic paths of a (small) CFG from the entry, carrying the state with the
// same Transfer/Branch functions but without joining: it is path-sensitive. A block is visited at
// most once per path. It returns the exit of every feasible path (at most max of them; ok=false if
// the bound was hit).
func (d *Dataflow) Paths(info *types.Info, endPos token.Pos, max int) (exits []Exit, ok bool) {
	ok = true
	if len(d.G.Blocks) == 0 {
		return nil, true
	}
	var walk func(b *cfg.Block, s Facts, onPath map[*cfg.Block]bool)
	walk = func(b *cfg.Block, s Facts, onPath map[*cfg.Block]bool) {
		if len(exits) >= max {
			ok = false
			return
		}
		if onPath[b] {
			if d.OnCycle != nil {
				d.OnCycle(b, s)
			}
			return
		}
		onPath[b] = true
		defer delete(onPath, b)
		o := d.out(b, s)
		if len(b.Succs) == 0 {
			if b.Kind == cfg.KindSelectAfterCase && len(b.Nodes) == 0 {
				return
			}
			e := Exit{Block: b, State: o, Kind: "end", Pos: endPos}
			if len(b.Nodes) > 0 {
				last := b.Nodes[len(b.Nodes)-1]
				e.Last = last
				e.Pos = last.Pos()
				switch x := last.(type) {
				case *ast.ReturnStmt:
					e.Kind = "return"
				case *ast.ExprStmt:
					if c, isCall := x.X.(*ast.CallExpr); isCall && isNoReturnCall(info, c) {
						e.Kind = "panic"
					}
				}
			}
			exits = append(exits, e)
			return
		}
		for i, succ := range b.Succs {
			eo := d.edgeState(b, i, o)
			if eo[bottom] {
				continue
			}
			walk(succ, eo, onPath)
		}
	}
	walk(d.G.Blocks[0], d.Init, map[*cfg.Block]bool{})
	return exits, ok
}

// withinExprState refines the state holding before node root for a sub-expression target that is
// evaluated only after short-circuit operands to its left: for every enclosing `X && Y` with
// target inside Y the state is refined by X being true, for `X || Y` by X being false (go/cfg
// keeps a whole condition as one node; the Branch callback sees its leaves).
func (d *Dataflow) withinExprState(root ast.Node, target ast.Node, before Facts) Facts {
	if d.Branch == nil {
		return before
	}
	var path []ast.Node
	found := false
	var walk func(n ast.Node) bool
	walk = func(n ast.Node) bool {
		if n == nil || found {
			return found
		}
		if n == target {
			found = true
			return true
		}
		path = append(path, n)
		ast.Inspect(n, func(c ast.Node) bool {
			if c == nil || found {
				return false
			}
			if c == n {
				return true
			}
			if _, isLit := c.(*ast.FuncLit); isLit {
				return false
			}
			walk(c)
			return false
		})
		if !found {
			path = path[:len(path)-1]
		}
		return found
	}
	walk(root)
	if !found {
		return before
	}
	s := before
	chain := append(path, target)
	for i := 0; i+1 < len(chain); i++ {
		be, ok := chain[i].(*ast.BinaryExpr)
		if !ok {
			continue
		}
		inY := false
		ast.Inspect(be.Y, func(c ast.Node) bool {
			if c == chain[i+1] {
				inY = true
			}
			return !inY
		})
		if !inY {
			continue
		}
		switch be.Op {
		case token.LAND:
			s = d.refine(be.X, true, s)
		case token.LOR:
			s = d.refine(be.X, false, s)
		}
	}
	return s
}
