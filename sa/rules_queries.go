package main

import (
	"fmt"
	"go/ast"
	"go/token"
	"go/types"
	"sort"
	"strings"
)

const queriesRel = "experimental/incremental/queries"

// R35 query-key completeness (C35): everything a query's Execute reads from its receiver is part
// of what Key() returns, so two queries that behave differently never share a cache entry and an
// eviction by key invalidates exactly what was computed from it.
func r35Queries(w *World) {
	w.rule("R35")
	p := w.pkg(queriesRel)
	if p == nil {
		return
	}
	info := p.TypesInfo
	type qinfo struct {
		name     string
		st       *types.Struct
		key, exe *ast.FuncDecl
	}
	qs := map[string]*qinfo{}
	for _, f := range p.Syntax {
		for _, d := range f.Decls {
			fd, ok := d.(*ast.FuncDecl)
			if !ok || fd.Recv == nil || fd.Body == nil || (fd.Name.Name != "Key" && fd.Name.Name != "Execute") {
				continue
			}
			obj := info.Defs[fd.Name].(*types.Func)
			rt := obj.Type().(*types.Signature).Recv().Type()
			if pt, ok := rt.(*types.Pointer); ok {
				rt = pt.Elem()
			}
			n, ok := rt.(*types.Named)
			if !ok {
				continue
			}
			st, ok := n.Underlying().(*types.Struct)
			if !ok {
				continue
			}
			qi := qs[n.Obj().Name()]
			if qi == nil {
				qi = &qinfo{name: n.Obj().Name(), st: st}
				qs[qi.name] = qi
			}
			if fd.Name.Name == "Key" {
				qi.key = fd
			} else {
				qi.exe = fd
			}
		}
	}
	var names []string
	for n, q := range qs {
		if q.key != nil && q.exe != nil {
			names = append(names, n)
		}
	}
	sort.Strings(names)
	w.floor("query types in experimental/incremental/queries", len(names), 6)

	recvName := func(fd *ast.FuncDecl) string {
		if len(fd.Recv.List) == 1 && len(fd.Recv.List[0].Names) == 1 {
			return fd.Recv.List[0].Names[0].Name
		}
		return ""
	}
	// fieldsUsed returns the set of receiver struct field indices a body reads, and whether the
	// receiver is used as a whole value.
	fieldsUsed := func(fd *ast.FuncDecl) (map[int]bool, bool) {
		rn := recvName(fd)
		used := map[int]bool{}
		whole := false
		var recvObj types.Object
		if rn != "" {
			recvObj = info.Defs[fd.Recv.List[0].Names[0]]
		}
		parents := parentMap(fd.Body)
		ast.Inspect(fd.Body, func(x ast.Node) bool {
			id, ok := x.(*ast.Ident)
			if !ok || info.Uses[id] != recvObj || recvObj == nil {
				return true
			}
			if sel, ok := parents[id].(*ast.SelectorExpr); ok && sel.X == ast.Expr(id) {
				if s := info.Selections[sel]; s != nil && len(s.Index()) > 0 {
					// a pure write `recv.f = v` is not a read
					if as, ok := parents[sel].(*ast.AssignStmt); ok {
						for _, l := range as.Lhs {
							if l == ast.Expr(sel) {
								return true
							}
						}
					}
					used[s.Index()[0]] = true
					return true
				}
			}
			whole = true
			return true
		})
		return used, whole
	}
	for _, n := range names {
		q := qs[n]
		w.FuncsSeen["queries."+n+".Execute"] = true
		// Key returns the receiver itself?
		selfKey := false
		if len(q.key.Body.List) == 1 {
			if r, ok := q.key.Body.List[0].(*ast.ReturnStmt); ok && len(r.Results) == 1 {
				if id, ok := ast.Unparen(r.Results[0]).(*ast.Ident); ok && id.Name == recvName(q.key) {
					selfKey = true
				}
			}
		}
		key := "key-covers-execute|" + n
		if selfKey {
			// all fields must be comparable for the key to be usable; check no func/map/slice fields
			bad := ""
			for i := 0; i < q.st.NumFields(); i++ {
				if !types.Comparable(q.st.Field(i).Type()) {
					bad = q.st.Field(i).Name()
				}
			}
			if bad != "" {
				w.violation(key, q.key.Pos(), "Key() returns the query itself but field "+bad+" is not comparable: using it as a map key panics")
			} else {
				w.ok(key, q.key.Pos(), "Key() returns the whole query value: every field Execute can read is part of the key")
			}
			continue
		}
		kUsed, kWhole := fieldsUsed(q.key)
		eUsed, eWhole := fieldsUsed(q.exe)
		var missing []string
		for i := range eUsed {
			if !kUsed[i] && !kWhole {
				missing = append(missing, q.st.Field(i).Name())
			}
		}
		sort.Strings(missing)
		switch {
		case eWhole && !kWhole:
			w.violation(key, q.exe.Pos(), "Execute uses the whole query value but Key() is built from selected fields only")
		case len(missing) > 0:
			w.violation(key, q.exe.Pos(), "Execute reads receiver field(s) "+strings.Join(missing, ", ")+" that do not flow into Key(): two queries differing only there share a cache entry, so the memoized value depends on who asked first")
		default:
			var ks []string
			for i := range kUsed {
				ks = append(ks, q.st.Field(i).Name())
			}
			sort.Strings(ks)
			w.ok(key, q.key.Pos(), fmt.Sprintf("custom key built from {%s}; Execute reads only those receiver fields", strings.Join(ks, ", ")))
		}
		// non-key fields: the executor keeps the query value of whoever created the task first, so
		// a field that is not part of the key holds a value that depends on the order in which
		// queries were first asked — i.e. on the cache history. Reading it anywhere (through the
		// receiver or through a query value handed back by the executor, e.g. the entries of
		// ErrCycle.Cycle) makes the output differ between a long-lived and a fresh executor.
		for i := 0; i < q.st.NumFields(); i++ {
			if kUsed[i] || kWhole {
				continue
			}
			fld := q.st.Field(i)
			var reads []string
			seenPos := map[token.Pos]bool{}
			for _, b := range allFuncBodies(p) {
				if b.Lit != nil {
					continue // visited as part of the enclosing declaration
				}
				parents := parentMap(b.Body)
				ast.Inspect(b.Body, func(x ast.Node) bool {
					sel, ok := x.(*ast.SelectorExpr)
					if !ok || info.Uses[sel.Sel] != types.Object(fld) {
						return true
					}
					// a pure write is not a read
					if as, ok := parents[sel].(*ast.AssignStmt); ok {
						for _, l := range as.Lhs {
							if l == ast.Expr(sel) {
								return true
							}
						}
					}
					if !seenPos[sel.Pos()] {
						seenPos[sel.Pos()] = true
						reads = append(reads, w.pos(sel.Pos()))
					}
					return true
				})
			}
			fkey := "non-key-field-read|" + n + "." + fld.Name()
			if len(reads) == 0 {
				w.ok(fkey, fld.Pos(), n+"."+fld.Name()+" is not part of the key and is never read")
			} else {
				sort.Strings(reads)
				w.violation(fkey, fld.Pos(), n+"."+fld.Name()+" is not part of the query key but is read at "+strings.Join(reads, ", ")+": the executor keeps the query value of whoever created the task first, so what is read there depends on the order in which queries were first asked (the cache history), not on the files — the same workspace gives different diagnostics on a long-lived and on a fresh executor")
			}
		}
	}
}

// RH7: source.Opener.Open is invoked (outside package source itself) only from queries.File.Execute,
// the evictable leaf; every other query obtains file contents through Resolve (a recorded edge).
func rh7Queries(w *World) {
	w.rule("RH7")
	src := w.pkg("experimental/source")
	qp := w.pkg(queriesRel)
	if src == nil || qp == nil {
		return
	}
	op, _ := src.Types.Scope().Lookup("Opener").(*types.TypeName)
	if op == nil {
		w.undecided("anchor:source.Opener", token.NoPos, "source.Opener not found")
		return
	}
	iface, _ := op.Type().Underlying().(*types.Interface)
	var open *types.Func
	for i := 0; iface != nil && i < iface.NumMethods(); i++ {
		if iface.Method(i).Name() == "Open" {
			open = iface.Method(i)
		}
	}
	if open == nil {
		w.undecided("anchor:source.Opener.Open", token.NoPos, "Opener.Open not found")
		return
	}
	n := 0
	for _, pk := range w.Roots {
		if pk == src || strings.Contains(pk.PkgPath, "/internal/testing") {
			continue
		}
		for _, b := range allFuncBodies(pk) {
			if b.Lit != nil {
				continue
			}
			ast.Inspect(b.Body, func(x ast.Node) bool {
				c, ok := x.(*ast.CallExpr)
				if !ok {
					return true
				}
				f := callee(pk.TypesInfo, c)
				if f == nil || f.Name() != "Open" {
					return true
				}
				// interface call or a concrete Opener implementation from package source
				isOpen := f == open
				if !isOpen && f.Pkg() == src.Types {
					if sig := f.Type().(*types.Signature); sig.Recv() != nil && types.Implements(sig.Recv().Type(), iface) {
						isOpen = true
					}
				}
				if !isOpen {
					return true
				}
				n++
				if pk == qp && b.Label == "queries.File.Execute" {
					w.ok("open-site|"+b.Label, c.Pos(), "files are opened only in the File query (the leaf that edits evict)")
				} else {
					w.violation("open-site|"+b.Label, c.Pos(), "source.Opener.Open called outside queries.File.Execute: file contents read here are not a recorded dependency, so evicting the File query does not invalidate this computation")
				}
				return true
			})
		}
	}
	w.floor("Opener.Open call sites outside package source", n, 1)
}
