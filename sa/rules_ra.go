package main

import (
	"go/ast"
	"go/token"
	"go/types"
	"golang.org/x/tools/go/cfg"
)

// ---- RA instances ------------------------------------------------------------

func (w *World) mkGuard(rel, typ, field, mutex string, rw bool) *guard {
	f := w.field(rel, typ, field)
	m := w.field(rel, typ, mutex)
	if f == nil || m == nil {
		return &guard{}
	}
	// the mutex field must really be a sync.Mutex / sync.RWMutex of the stated kind
	mt := m.Type().String()
	want := "sync.Mutex"
	if rw {
		want = "sync.RWMutex"
	}
	if mt != want {
		w.undecided("anchor:mutex:"+typ+"."+mutex, m.Pos(), "guard table says "+typ+"."+mutex+" is a "+want+" but it is "+mt)
	}
	return &guard{field: f, mutex: mutex, rw: rw, label: typ + "." + field}
}

// raSymbols: linker.Symbols / packageSymbols (C16, C05).
func raSymbols(w *World) {
	w.rule("RA")
	p := w.pkg("linker")
	if p == nil {
		return
	}
	guards := []*guard{
		w.mkGuard("linker", "packageSymbols", "children", "mu", true),
		w.mkGuard("linker", "packageSymbols", "files", "mu", true),
		w.mkGuard("linker", "packageSymbols", "symbols", "mu", true),
		w.mkGuard("linker", "packageSymbols", "exts", "mu", true),
		w.mkGuard("linker", "Symbols", "extDecls", "extDeclsMu", false),
	}
	la := w.runGuardedBy(p, guards)
	w.floor("guarded accesses in linker (Symbols table)", len(la.accesses), 30)
	raTableComplete(w, "linker", "packageSymbols", []string{"mu"}, guards)
	raTableComplete(w, "linker", "Symbols", []string{"extDeclsMu", "pkgTrie"}, guards)
	raNoBlockingUnderLock(w, la, "linker")
}

// raTableComplete: every field of the struct is either in the guard table or in the listed
// exceptions (the mutexes themselves, immutable-after-construction fields). A new field added to a
// shared structure therefore needs a reviewed table entry.
func raTableComplete(w *World, rel, typ string, exempt []string, guards []*guard) {
	n := w.typ(rel, typ)
	if n == nil {
		return
	}
	st, ok := n.Underlying().(*types.Struct)
	if !ok {
		return
	}
	for i := 0; i < st.NumFields(); i++ {
		f := st.Field(i)
		covered := false
		for _, g := range guards {
			if g.field == f {
				covered = true
			}
		}
		for _, e := range exempt {
			if e == f.Name() {
				covered = true
			}
		}
		key := "table|" + typ + "." + f.Name()
		if covered {
			w.okTrivial(key, f.Pos(), "field is in the guard table or the reviewed exemption list")
		} else {
			w.undecided(key, f.Pos(), "field "+typ+"."+f.Name()+" of a structure shared between goroutines is neither in the guarded-by table nor in the reviewed exemptions: say which lock protects it")
		}
	}
}

// raNoBlockingUnderLock (RF part): while a table mutex is held no channel operation, select,
// semaphore Acquire, WaitGroup.Wait or Cond.Wait may execute in the same function body.
func raNoBlockingUnderLock(w *World, la *lockAnalysis, rel string) {
	p := la.p
	info := p.TypesInfo
	count := 0
	for _, f := range p.Syntax {
		for _, d := range f.Decls {
			fd, ok := d.(*ast.FuncDecl)
			if !ok || fd.Body == nil {
				continue
			}
			obj, _ := info.Defs[fd.Name].(*types.Func)
			var check func(body *ast.BlockStmt, init Facts, label string)
			check = func(body *ast.BlockStmt, init Facts, label string) {
				g := buildCFG(info, body)
				df := &Dataflow{G: g, Must: false, Init: init,
					Transfer: func(n ast.Node, in Facts) Facts { return lockTransfer(info, n, in) }}
				df.Run()
				df.Walk(func(_ *cfg.Block, n ast.Node, before Facts) {
					if len(before) == 0 {
						// fast path: still need nested literals
					}
					inspectPost(n, func(x ast.Node) {
						what := ""
						switch e := x.(type) {
						case *ast.UnaryExpr:
							if e.Op == token.ARROW {
								what = "channel receive"
							}
						case *ast.SendStmt:
							what = "channel send"
						case *ast.CallExpr:
							if c := callee(info, e); c != nil && c.Pkg() != nil {
								switch {
								case isFunc(c, "golang.org/x/sync/semaphore", "Weighted", "Acquire"):
									what = "semaphore Acquire"
								case isFunc(c, "sync", "WaitGroup", "Wait"), isFunc(c, "sync", "Cond", "Wait"):
									what = "sync wait"
								case isFunc(c, "time", "", "Sleep"):
									what = "time.Sleep"
								}
							}
						case *ast.FuncLit:
							_, isGo := n.(*ast.GoStmt)
							in := before
							if isGo {
								in = Facts{}
							}
							check(e.Body, in, label+"$lit")
						}
						if what != "" {
							held := guardLocksHeld(before, la)
							if len(held) > 0 {
								count++
								w.violation(label+"|blocking:"+what, x.Pos(), what+" while holding "+held.String()+": a goroutine blocked here stalls every user of the lock")
							}
						}
					})
				})
			}
			check(fd.Body, Facts{}, funcName(obj))
		}
	}
	if count == 0 {
		w.ok("no-blocking-under-lock:"+rel, token.NoPos, "no channel operation, select arm, semaphore Acquire, WaitGroup/Cond wait or Sleep executes while a table mutex may be held (may-analysis over every function body of the package)")
	}
}

func guardLocksHeld(locks Facts, la *lockAnalysis) Facts {
	held := Facts{}
	names := map[string]bool{}
	for _, g := range la.guards {
		names[g.mutex] = true
	}
	for l := range locks {
		// l is "W:expr" or "R:expr"; the mutex name is the last selector component
		e := l[2:]
		last := e
		for i := len(e) - 1; i >= 0; i-- {
			if e[i] == '.' {
				last = e[i+1:]
				break
			}
		}
		if names[last] {
			held[l] = true
		}
	}
	return held
}
