package main

import (
	"go/ast"
	"go/constant"
	"go/token"
	"go/types"
	"golang.org/x/tools/go/cfg"
	"strings"
)

// ---- RDV: default_value rendering of the experimental descriptor generator -------------
//
// FieldDescriptorProto.default_value is a string, so the two compilers agree on it only if they
// render every kind of default identically. Two structural necessary conditions are decided here
// on whichever function(s) of experimental/fdp assign FieldDescriptorProto.DefaultValue:
//
//	width  — a `float` field holds a 32-bit value and the stable compiler renders the shortest
//	         representation of the float32 ("0.1"); rendering its widening with a constant bit
//	         size of 64 gives "0.10000000149011612". The renderer must distinguish the width:
//	         a strconv.FormatFloat whose bitSize is not the constant 64 (non-constant, or both 32
//	         and 64 appear), or a conversion to float32, must be present.
//	alias  — an ir enum value records only the number (Element.AsEnum resolves it back with
//	         Type.MemberByNumber), and aliases share numbers, so the name written in the source
//	         cannot be recovered from the value alone. The branch that renders an enum default
//	         must consult the name (a resolved call of Type.MemberByName / MemberByInternedName).
func rdvDefaultRendering(w *World) {
	w.rule("RDV")
	p := w.pkg("experimental/fdp")
	if p == nil {
		return
	}
	info := p.TypesInfo
	isDefaultValueField := func(e ast.Expr) bool {
		v := selField(info, e)
		if v == nil || v.Name() != "DefaultValue" || v.Pkg() == nil || !strings.HasSuffix(v.Pkg().Path(), "descriptorpb") {
			return false
		}
		return true
	}
	nFuncs := 0
	for _, b := range allFuncBodies(p) {
		if b.Lit != nil {
			continue
		}
		writes := false
		ast.Inspect(b.Body, func(x ast.Node) bool {
			if as, ok := x.(*ast.AssignStmt); ok {
				for _, l := range as.Lhs {
					if isDefaultValueField(l) {
						writes = true
					}
				}
			}
			return true
		})
		if !writes {
			continue
		}
		nFuncs++
		// width
		var fmtCalls []*ast.CallExpr
		consts := map[int64]bool{}
		nonConst := false
		conv32 := false
		ast.Inspect(b.Body, func(x ast.Node) bool {
			c, ok := x.(*ast.CallExpr)
			if !ok {
				return true
			}
			if tv, ok := info.Types[c.Fun]; ok && tv.IsType() {
				if bt, ok := tv.Type.Underlying().(*types.Basic); ok && bt.Kind() == types.Float32 {
					conv32 = true
				}
				return true
			}
			f := callee(info, c)
			if f != nil && f.Pkg() != nil && f.Pkg().Path() == "strconv" && (f.Name() == "FormatFloat" || f.Name() == "AppendFloat") {
				fmtCalls = append(fmtCalls, c)
				arg := c.Args[len(c.Args)-1]
				if tv, ok := info.Types[arg]; ok && tv.Value != nil {
					if n, ok := constant.Int64Val(constant.ToInt(tv.Value)); ok {
						consts[n] = true
					}
				} else {
					nonConst = true
				}
			}
			return true
		})
		key := "width|" + b.Label
		var pos token.Pos = b.Decl.Pos()
		if len(fmtCalls) > 0 {
			pos = fmtCalls[0].Pos()
		}
		switch {
		case len(fmtCalls) == 0 && !conv32:
			w.info(key, pos, "no strconv float rendering in this function")
		case nonConst || conv32 || (consts[32] && consts[64]):
			w.ok(key, pos, "float defaults are rendered with a bit size that depends on the field (non-constant bitSize, both 32 and 64, or a float32 conversion)")
		default:
			w.violation(key, pos, "every float default is rendered with the same constant bit size: a `float` field's default (a 32-bit value) comes out as the shortest form of its 64-bit widening (0.1 → \"0.10000000149011612\"), unlike the stable compiler")
		}
		// alias
		nEnum := 0
		ast.Inspect(b.Body, func(x ast.Node) bool {
			ifs, ok := x.(*ast.IfStmt)
			if !ok {
				return true
			}
			// if v := d.AsEnum(); !v.IsZero() { ... }
			usesAsEnum := false
			for _, part := range []ast.Node{ifs.Init, ifs.Cond} {
				if part == nil {
					continue
				}
				ast.Inspect(part, func(y ast.Node) bool {
					if c, ok := y.(*ast.CallExpr); ok {
						if f := callee(info, c); f != nil && f.Name() == "AsEnum" && f.Pkg() != nil && strings.HasSuffix(f.Pkg().Path(), "experimental/ir") {
							usesAsEnum = true
						}
					}
					return true
				})
			}
			if !usesAsEnum {
				return true
			}
			assigns := false
			byName := false
			ast.Inspect(ifs.Body, func(y ast.Node) bool {
				switch s := y.(type) {
				case *ast.AssignStmt:
					for _, l := range s.Lhs {
						if isDefaultValueField(l) {
							assigns = true
						}
					}
				case *ast.CallExpr:
					if f := callee(info, s); f != nil && (f.Name() == "MemberByName" || f.Name() == "MemberByInternedName") && f.Pkg() != nil && strings.HasSuffix(f.Pkg().Path(), "experimental/ir") {
						byName = true
					}
				}
				return true
			})
			if !assigns {
				return true
			}
			nEnum++
			k := "alias|" + b.Label
			if byName {
				w.ok(k, ifs.Pos(), "the enum default's name is looked up by the name written (Type.MemberByName), not only recovered from the number")
			} else {
				w.violation(k, ifs.Pos(), "the enum default's name is recovered from the value's number alone (Value.AsEnum → Type.MemberByNumber): for `allow_alias` enums the first member with that number is printed instead of the one written (default = C → \"B\"), unlike the stable compiler")
			}
			return true
		})
		w.floor("enum-default branches in "+b.Label, nEnum, 1)
	}
	w.floor("functions assigning FieldDescriptorProto.DefaultValue in experimental/fdp", nFuncs, 1)
}

// ---- RSB: sibling validators agree on when an enum-value name conflict is reported ---------
//
// Both compilers reject (or warn about) two enum values whose names collapse to the same
// canonical name — but only when their numbers differ: with allow_alias two names of one number
// are not a collision. The verdicts agree only if both report sites are guarded by the inequality
// of the two values' numbers. Decided per function with the branch-sensitive dataflow: the fact
// "numbers differ" is established on the false edge of `a.N() == b.N()` / the true edge of
// `a.N() != b.N()` (N the number accessor), and every conflict report must be reached only with it.
func rsbEnumNameConflict(w *World) {
	w.rule("RSB")
	type side struct {
		rel, fn, accessor string
		isReport          func(info *types.Info, c *ast.CallExpr) bool
	}
	sides := []side{
		{"linker", "(*result).validateJSONNamesInEnum", "GetNumber", func(info *types.Info, c *ast.CallExpr) bool {
			f := callee(info, c)
			return f != nil && (f.Name() == "HandleErrorWithPos" || f.Name() == "HandleWarningWithPos" || f.Name() == "HandleErrorf" || f.Name() == "HandleWarningf")
		}},
		{"experimental/ir", "validateEnumValueNames", "Number", func(info *types.Info, c *ast.CallExpr) bool {
			for _, a := range c.Args {
				if cl, ok := ast.Unparen(a).(*ast.CompositeLit); ok {
					if tv, ok := info.Types[cl]; ok {
						if nt, ok := types.Unalias(tv.Type).(*types.Named); ok && nt.Obj().Name() == "errEnumValueConflict" {
							return true
						}
					}
				}
			}
			return false
		}},
	}
	for _, s := range sides {
		p := w.pkg(s.rel)
		fn := w.fn(s.rel, s.fn)
		if p == nil || fn == nil {
			continue
		}
		info := p.TypesInfo
		isAcc := func(e ast.Expr) bool {
			c, ok := ast.Unparen(e).(*ast.CallExpr)
			if !ok {
				return false
			}
			f := callee(info, c)
			return f != nil && f.Name() == s.accessor
		}
		g := buildCFG(info, fn.Decl.Body)
		d := &Dataflow{G: g, Must: true, Init: Facts{}, Transfer: func(n ast.Node, in Facts) Facts { return in }}
		d.Branch = func(leaf ast.Expr, truth bool, st Facts) Facts {
			if be, ok := ast.Unparen(leaf).(*ast.BinaryExpr); ok && isAcc(be.X) && isAcc(be.Y) {
				if (be.Op == token.EQL && !truth) || (be.Op == token.NEQ && truth) {
					return st.with("differ")
				}
			}
			return st
		}
		d.Run()
		n := 0
		d.Walk(func(_ *cfg.Block, node ast.Node, before Facts) {
			inspectPost(node, func(x ast.Node) {
				c, ok := x.(*ast.CallExpr)
				if !ok || !s.isReport(info, c) {
					return
				}
				n++
				key := "number-guard|" + fn.Name + "#" + itoa(n)
				if before["differ"] {
					w.ok(key, c.Pos(), "the canonical-name conflict is reported only where the two values' numbers are known to differ (aliases are not conflicts) — as in the sibling compiler")
				} else {
					w.violation(key, c.Pos(), "an enum-value name conflict is reported without the two values' numbers having been compared: aliases of one number are rejected here but accepted by the sibling compiler")
				}
			})
		})
		w.floor("enum-name conflict reports in "+fn.Name, n, 1)
	}
}

// RFC (C27): the frame-size accounting of option marshalling is never dropped. Value.marshal,
// MessageValue.marshal and marshalFramed return the encoded buffer together with the number of
// length-prefix bytes that will be trimmed later; an enclosing length-delimited message must
// subtract exactly that count from its own prefix. A call that discards the count (binds it to _)
// — e.g. on the group path, which has no prefix of its own but may *contain* prefixed messages —
// makes the enclosing prefix too long: the options bytes written into the descriptor are malformed.
// Computed: all functions/methods of package ir whose results are ([]byte, int) and whose name
// contains "marshal"; every static call site must bind the int result to a variable.
func rfcFrameCountNotDropped(w *World) {
	w.rule("RFC")
	p := w.pkg("experimental/ir")
	if p == nil {
		return
	}
	info := p.TypesInfo
	counted := func(f *types.Func) bool {
		if f == nil || f.Pkg() != p.Types || !strings.Contains(strings.ToLower(f.Name()), "marshal") {
			return false
		}
		sig, ok := f.Type().(*types.Signature)
		if !ok || sig.Results().Len() != 2 {
			return false
		}
		if sl, ok := sig.Results().At(0).Type().Underlying().(*types.Slice); !ok || !types.Identical(sl.Elem(), types.Typ[types.Byte]) {
			return false
		}
		bt, ok := sig.Results().At(1).Type().Underlying().(*types.Basic)
		return ok && bt.Kind() == types.Int
	}
	n := 0
	for _, b := range allFuncBodies(p) {
		if b.Lit != nil {
			continue
		}
		ast.Inspect(b.Body, func(x ast.Node) bool {
			switch s := x.(type) {
			case *ast.AssignStmt:
				if len(s.Rhs) != 1 || len(s.Lhs) != 2 {
					return true
				}
				c, ok := ast.Unparen(s.Rhs[0]).(*ast.CallExpr)
				if !ok || callee(info, c) == nil || !counted(callee(info, c).Origin()) {
					return true
				}
				n++
				key := "frame-count|" + b.Label + "|" + types.ExprString(c.Fun)
				if id, ok := s.Lhs[1].(*ast.Ident); ok && id.Name == "_" && !counted(b.Obj) {
					w.ok(key, s.Pos(), "outermost frame ("+b.Label+" does not itself report a count): nothing encloses it, so the count is not needed")
				} else if ok && id.Name == "_" {
					w.violation(key, s.Pos(), "the prefix-byte count returned by "+types.ExprString(c.Fun)+" is discarded: length prefixes of messages nested below this point are trimmed later without the enclosing message's prefix being reduced, so the serialized options are malformed or carry a different value than the stable compiler's")
				} else {
					w.ok(key, s.Pos(), "the prefix-byte count is bound to "+types.ExprString(s.Lhs[1]))
				}
			case *ast.ExprStmt:
				if c, ok := s.X.(*ast.CallExpr); ok && callee(info, c) != nil && counted(callee(info, c).Origin()) {
					n++
					w.violation("frame-count|"+b.Label+"|"+types.ExprString(c.Fun), s.Pos(), "both results of "+types.ExprString(c.Fun)+" are discarded")
				}
			}
			return true
		})
	}
	w.floor("call sites of the counting marshal functions", n, 3)
}
