package main

import (
	"fmt"
	"go/ast"
	"go/token"
	"go/types"
	"sort"
	"strings"

	"golang.org/x/tools/go/cfg"
)

// Rules over experimental/incremental (C33, C34, C35, C36).

const incRel = "experimental/incremental"

// atomicMethod reports calls of methods on atomic.Pointer / sync.Map fields: returns method name.
func methodOnField(info *types.Info, c *ast.CallExpr, fld *types.Var) (string, bool) {
	if fld == nil {
		return "", false
	}
	s, ok := ast.Unparen(c.Fun).(*ast.SelectorExpr)
	if !ok {
		return "", false
	}
	if selField(info, s.X) == fld {
		return s.Sel.Name, true
	}
	return "", false
}

// ---- RH4: Execute only as CAS-elected leader ---------------------------------------

func rh4Incremental(w *World) {
	w.rule("RH4")
	p := w.pkg(incRel)
	run := w.fn(incRel, "(*task).run")
	anyExec := w.fn(incRel, "(*AnyQuery).Execute")
	resultFld := w.field(incRel, "task", "result")
	execFld := w.field(incRel, "AnyQuery", "execute")
	q := w.typ(incRel, "Query")
	if p == nil || run == nil || anyExec == nil || resultFld == nil || execFld == nil || q == nil {
		return
	}
	var qExecute *types.Func
	if it, ok := q.Underlying().(*types.Interface); ok {
		for i := 0; i < it.NumMethods(); i++ {
			if it.Method(i).Name() == "Execute" {
				qExecute = it.Method(i)
			}
		}
	}
	if qExecute == nil {
		w.undecided("anchor:Query.Execute", token.NoPos, "Query interface has no Execute method")
		return
	}
	nAny, nIface, nField := 0, 0, 0
	for _, pk := range w.Roots {
		if strings.Contains(pk.PkgPath, "/internal/testing") {
			continue
		}
		info := pk.TypesInfo
		for _, b := range allFuncBodies(pk) {
			if b.Lit != nil {
				continue
			}
			ast.Inspect(b.Body, func(x ast.Node) bool {
				c, ok := x.(*ast.CallExpr)
				if !ok {
					return true
				}
				f := callee(info, c)
				if f != nil && (f == anyExec.Obj) {
					nAny++
					if b.Obj == run.Obj {
						w.okTrivial("site|(*AnyQuery).Execute|"+b.Label, c.Pos(), "type-erased Execute is called from task.run")
					} else {
						w.violation("site|(*AnyQuery).Execute|"+b.Label, c.Pos(), "(*AnyQuery).Execute called outside task.run: the query body would run without leader election, so it can execute more than once per cache entry")
					}
				}
				if f != nil && f.Origin() == qExecute {
					nIface++
					if pk == p && b.Label == "incremental.AsAny" {
						w.okTrivial("site|Query.Execute|"+b.Label, c.Pos(), "the only invocation of Query.Execute is inside the closure built by AsAny")
					} else {
						w.violation("site|Query.Execute|"+b.Label, c.Pos(), "Query.Execute invoked directly (outside AsAny's closure): bypasses the executor's memoization")
					}
				}
				// call of the execute func field
				if s, ok := ast.Unparen(c.Fun).(*ast.SelectorExpr); ok && selField(info, s) == execFld {
					nField++
					if b.Obj == anyExec.Obj {
						w.okTrivial("site|AnyQuery.execute|"+b.Label, c.Pos(), "the execute closure is invoked only by (*AnyQuery).Execute")
					} else {
						w.violation("site|AnyQuery.execute|"+b.Label, c.Pos(), "AnyQuery.execute invoked outside (*AnyQuery).Execute")
					}
				}
				return true
			})
		}
	}
	w.floor("calls of (*AnyQuery).Execute", nAny, 1)
	w.floor("invocations of Query.Execute", nIface, 1)
	w.floor("invocations of AnyQuery.execute", nField, 1)

	// within task.run: the Execute call is dominated by the success edge of result.CompareAndSwap(nil, …)
	info := p.TypesInfo
	g := buildCFG(info, run.Decl.Body)
	d := &Dataflow{G: g, Must: true, Init: Facts{}, Transfer: func(n ast.Node, in Facts) Facts { return in }}
	d.Branch = func(leaf ast.Expr, truth bool, s Facts) Facts {
		if c, ok := leaf.(*ast.CallExpr); ok {
			if m, ok := methodOnField(info, c, resultFld); ok && m == "CompareAndSwap" && len(c.Args) == 2 && isNilIdent(info, c.Args[0]) && truth {
				return s.with("leader")
			}
		}
		return s
	}
	d.Run()
	d.Walk(func(_ *cfg.Block, n ast.Node, before Facts) {
		inspectPost(n, func(x ast.Node) {
			if c, ok := isCallTo(info, x, anyExec.Obj); ok {
				if before["leader"] {
					w.ok("leader-only|task.run", c.Pos(), "Execute is reached only on the success edge of t.result.CompareAndSwap(nil, output): at most one goroutine executes the query per cache entry, on any schedule")
				} else {
					w.violation("leader-only|task.run", c.Pos(), "Execute is reachable without having won t.result.CompareAndSwap(nil, …): two goroutines can run the same query")
				}
			}
		})
	})
	// the published pointer is only ever set by CAS(nil, x) / CAS(x, nil); no Store
	for _, b := range allFuncBodies(p) {
		if b.Lit != nil {
			continue
		}
		ast.Inspect(b.Body, func(x ast.Node) bool {
			if c, ok := x.(*ast.CallExpr); ok {
				if m, ok := methodOnField(info, c, resultFld); ok {
					key := "result-ptr|" + b.Label + "|" + m
					switch m {
					case "Load":
						w.okTrivial(key, c.Pos(), "read")
					case "CompareAndSwap":
						if b.Obj == run.Obj && len(c.Args) == 2 && (isNilIdent(info, c.Args[0]) || isNilIdent(info, c.Args[1])) {
							w.ok(key, c.Pos(), "task.result changes only by election CAS(nil, r) or un-publication CAS(r, nil) in task.run")
						} else {
							w.violation(key, c.Pos(), "task.result modified by a CAS that is neither election nor un-publication, or outside task.run")
						}
					default:
						w.violation(key, c.Pos(), "task.result."+m+" bypasses leader election")
					}
				}
			}
			return true
		})
	}
}

// ---- RH5: eviction only under the exclusive dirty lock; Run holds it shared ------------

func rh5Incremental(w *World) {
	w.rule("RH5")
	p := w.pkg(incRel)
	tasks := w.field(incRel, "Executor", "tasks")
	dirty := w.field(incRel, "Executor", "dirty")
	runFn := w.fn(incRel, "Run")
	if p == nil || tasks == nil || dirty == nil || runFn == nil {
		return
	}
	info := p.TypesInfo
	nDel := 0
	for _, b := range allFuncBodies(p) {
		if b.Lit != nil {
			continue
		}
		g := buildCFG(info, b.Body)
		d := &Dataflow{G: g, Must: true, Init: Facts{}, Transfer: func(n ast.Node, in Facts) Facts { return lockTransfer(info, n, in) }}
		d.Run()
		var visit func(body *ast.BlockStmt, df *Dataflow)
		visit = func(body *ast.BlockStmt, df *Dataflow) {
			df.Walk(func(_ *cfg.Block, n ast.Node, before Facts) {
				cur := before
				inspectPost(n, func(x ast.Node) {
					if fl, ok := x.(*ast.FuncLit); ok {
						_, isGo := n.(*ast.GoStmt)
						init := cur
						if isGo {
							init = Facts{}
						}
						d2 := &Dataflow{G: buildCFG(info, fl.Body), Must: true, Init: init, Transfer: func(n ast.Node, in Facts) Facts { return lockTransfer(info, n, in) }}
						d2.Run()
						visit(fl.Body, d2)
						return
					}
					c, ok := x.(*ast.CallExpr)
					if !ok {
						return
					}
					cur = lockTransfer(info, &ast.ExprStmt{X: c}, cur)
					m, ok := methodOnField(info, c, tasks)
					if !ok {
						return
					}
					base := render(ast.Unparen(ast.Unparen(c.Fun).(*ast.SelectorExpr).X).(*ast.SelectorExpr).X)
					switch m {
					case "Delete", "LoadAndDelete", "CompareAndDelete", "Clear", "Swap", "CompareAndSwap":
						nDel++
						key := "evict|" + b.Label + "|" + m
						if cur["W:"+base+".dirty"] {
							w.ok(key, c.Pos(), "entries leave Executor.tasks only while "+base+".dirty is held exclusively (no Run is in progress)")
						} else {
							w.violation(key, c.Pos(), "Executor.tasks."+m+" without the exclusive dirty lock: a task can disappear while a Run depends on it (lock set "+cur.String()+")")
						}
					case "Store":
						w.violation("evict|"+b.Label+"|Store", c.Pos(), "Executor.tasks.Store overwrites a memoized task; only LoadOrStore may add entries")
					}
				})
			})
		}
		visit(b.Body, d)
	}
	w.floor("deletions from Executor.tasks", nDel, 1)
	rh5Cleanup(w)
	// Run: first statement RLock, second defer RUnlock
	body := runFn.Decl.Body
	okShape := false
	if len(body.List) >= 2 {
		if es, ok := body.List[0].(*ast.ExprStmt); ok {
			if c, ok := es.X.(*ast.CallExpr); ok && mutexMethod(callee(info, c)) == "RLock" && selField(info, recvExpr(c)) == dirty {
				if ds, ok := body.List[1].(*ast.DeferStmt); ok && mutexMethod(callee(info, ds.Call)) == "RUnlock" && selField(info, recvExpr(ds.Call)) == dirty {
					okShape = true
				}
			}
		}
	}
	// and no RUnlock elsewhere in Run
	nUnlock := 0
	ast.Inspect(body, func(x ast.Node) bool {
		if c, ok := x.(*ast.CallExpr); ok && mutexMethod(callee(info, c)) == "RUnlock" {
			nUnlock++
		}
		return true
	})
	if okShape && nUnlock == 1 {
		w.ok("run-holds-dirty", body.Pos(), "Run takes e.dirty.RLock() first and releases it only by the deferred RUnlock: no eviction overlaps a Run")
	} else {
		w.violation("run-holds-dirty", body.Pos(), "Run does not hold e.dirty (shared) from entry to exit")
	}
}

// ---- RH6: runID provenance ---------------------------------------------------------------

func rh6Incremental(w *World) {
	w.rule("RH6")
	p := w.pkg(incRel)
	resRunID := w.field(incRel, "result", "runID")
	taskRunID := w.field(incRel, "Task", "runID")
	counter := w.field(incRel, "Executor", "counter")
	if p == nil || resRunID == nil || taskRunID == nil || counter == nil {
		return
	}
	info := p.TypesInfo
	nRes, nTask := 0, 0
	for _, b := range allFuncBodies(p) {
		if b.Lit != nil {
			continue
		}
		// counter.Add results: variables assigned from e.counter.Add(1)
		gen := map[string]bool{}
		ast.Inspect(b.Body, func(x ast.Node) bool {
			if as, ok := x.(*ast.AssignStmt); ok && len(as.Rhs) == 1 && len(as.Lhs) == 1 {
				if c, ok := ast.Unparen(as.Rhs[0]).(*ast.CallExpr); ok {
					if m, ok := methodOnField(info, c, counter); ok && m == "Add" {
						gen[render(as.Lhs[0])] = true
					}
				}
			}
			return true
		})
		ast.Inspect(b.Body, func(x ast.Node) bool {
			switch s := x.(type) {
			case *ast.AssignStmt:
				for i, l := range s.Lhs {
					v := selField(info, l)
					if v != resRunID && v != taskRunID {
						continue
					}
					var rhs ast.Expr
					if i < len(s.Rhs) {
						rhs = s.Rhs[i]
					}
					if v == resRunID {
						nRes++
						if rhs != nil && selField(info, rhs) == taskRunID {
							w.ok("write|result.runID|"+b.Label, l.Pos(), "result.runID is stamped from the executing Task's runID")
						} else {
							w.violation("write|result.runID|"+b.Label, l.Pos(), "result.runID assigned from something other than Task.runID: the Changed flag no longer identifies the computing Run")
						}
					} else {
						nTask++
						w.violation("write|Task.runID|"+b.Label, l.Pos(), "Task.runID assigned after construction")
					}
				}
			case *ast.CompositeLit:
				for _, el := range s.Elts {
					kv, ok := el.(*ast.KeyValueExpr)
					if !ok {
						continue
					}
					id, ok := kv.Key.(*ast.Ident)
					if !ok {
						continue
					}
					if obj := info.Uses[id]; obj == types.Object(taskRunID) {
						nTask++
						if gen[render(kv.Value)] {
							w.ok("init|Task.runID|"+b.Label+"|fresh", kv.Pos(), "root Task gets a fresh value of Executor.counter.Add(1): unique per Run")
						} else if selField(info, kv.Value) == taskRunID {
							w.ok("init|Task.runID|"+b.Label+"|inherit", kv.Pos(), "child Task inherits the caller Task's runID")
						} else {
							w.violation("init|Task.runID|"+b.Label, kv.Pos(), "Task.runID initialised from "+render(kv.Value)+", neither a fresh counter value nor the caller's runID")
						}
					} else if obj == types.Object(resRunID) {
						nRes++
						w.violation("init|result.runID|"+b.Label, kv.Pos(), "result.runID set in a literal rather than stamped at computation")
					}
				}
			}
			return true
		})
	}
	w.floor("writes of result.runID", nRes, 1)
	w.floor("initialisations of Task.runID", nTask, 2)
	// Changed is computed by comparing result.runID with the caller's runID — in Resolve or in a
	// helper it calls; in a helper the run ID may arrive as a parameter, in which case every static
	// call site must pass a Task.runID.
	changedFld := w.field(incRel, "Result", "Changed")
	found := false
	for _, b := range allFuncBodies(p) {
		if b.Lit != nil || changedFld == nil {
			continue
		}
		ast.Inspect(b.Body, func(x ast.Node) bool {
			as, ok := x.(*ast.AssignStmt)
			if !ok || len(as.Lhs) != 1 || len(as.Rhs) != 1 || selField(info, as.Lhs[0]) != changedFld {
				return true
			}
			okRHS := false
			if be, ok := ast.Unparen(as.Rhs[0]).(*ast.BinaryExpr); ok && be.Op == token.EQL {
				sides := []ast.Expr{be.X, be.Y}
				for i := 0; i < 2; i++ {
					if selField(info, sides[i]) != resRunID {
						continue
					}
					other := ast.Unparen(sides[1-i])
					if selField(info, other) == taskRunID {
						okRHS = true
					} else if id, isId := other.(*ast.Ident); isId {
						// a parameter: check the call sites
						pi := -1
						k := 0
						for _, fl := range b.Decl.Type.Params.List {
							for _, nm := range fl.Names {
								if info.Defs[nm] == info.Uses[id] && info.Uses[id] != nil {
									pi = k
								}
								k++
							}
						}
						if pi >= 0 {
							sites, good := 0, 0
							for _, cb := range allFuncBodies(p) {
								if cb.Lit != nil {
									continue
								}
								ast.Inspect(cb.Body, func(y ast.Node) bool {
									if c, ok := y.(*ast.CallExpr); ok {
										if f := callee(info, c); f != nil && f.Origin() == b.Obj.Origin() && pi < len(c.Args) {
											sites++
											if selField(info, c.Args[pi]) == taskRunID {
												good++
											}
										}
									}
									return true
								})
							}
							okRHS = sites > 0 && good == sites
						}
					}
				}
			}
			if okRHS {
				found = true
				w.ok("changed-flag", as.Pos(), "Result.Changed = (result.runID == the calling Task's runID)")
			} else {
				w.violation("changed-flag", as.Pos(), "Result.Changed is not computed as result.runID == caller.runID")
			}
			return true
		})
	}
	if !found {
		w.undecided("changed-flag|missing", token.NoPos, "no assignment of Result.Changed found in the package")
	}
}

// ---- RB-inc: result payload published by close(done) ------------------------------------------

func rbIncremental(w *World) {
	w.rule("RB")
	p := w.pkg(incRel)
	done := w.field(incRel, "result", "done")
	run := w.fn(incRel, "(*task).run")
	wait := w.fn(incRel, "(*task).waitUntilDone")
	if p == nil || done == nil || run == nil || wait == nil {
		return
	}
	info := p.TypesInfo
	payload := map[*types.Var]string{}
	if v := w.field(incRel, "result", "runID"); v != nil {
		payload[v] = "runID"
	}
	if rt := w.typ(incRel, "Result"); rt != nil {
		st := rt.Underlying().(*types.Struct)
		for i := 0; i < st.NumFields(); i++ {
			payload[st.Field(i)] = st.Field(i).Name()
		}
	}
	resultT := w.typ(incRel, "result")
	isResultBase := func(e ast.Expr) bool {
		tv, ok := info.Types[e]
		if !ok {
			return false
		}
		t := tv.Type
		if pt, ok := t.(*types.Pointer); ok {
			t = pt.Elem()
		}
		return resultT != nil && types.Identical(t, resultT)
	}
	// writes
	nW := 0
	for _, b := range allFuncBodies(p) {
		if b.Lit != nil {
			continue
		}
		ast.Inspect(b.Body, func(x ast.Node) bool {
			as, ok := x.(*ast.AssignStmt)
			if !ok {
				return true
			}
			for _, l := range as.Lhs {
				s, ok := ast.Unparen(l).(*ast.SelectorExpr)
				if !ok {
					continue
				}
				sel := info.Selections[s]
				if sel == nil {
					continue
				}
				v, _ := sel.Obj().(*types.Var)
				name, isPayload := payload[v]
				if !isPayload || !isResultBase(s.X) {
					continue
				}
				nW++
				key := "write|" + b.Label + "|" + render(s.X) + "." + name
				switch {
				case b.Obj == run.Obj:
					w.ok(key, l.Pos(), "the leader writes the payload before its deferred close(done)")
				case b.Obj == wait.Obj && name == "Fatal":
					w.ok(key, l.Pos(), "reviewed exception: a follower that found a cycle stamps ErrCycle on the pending result; the leader is (transitively) blocked on this follower, so it cannot be writing Fatal concurrently")
				default:
					w.violation(key, l.Pos(), "result payload written outside the leader (task.run): readers woken by close(done) may observe it torn")
				}
			}
			return true
		})
	}
	w.floor("payload writes of incremental.result", nW, 4)

	// in task.run: all payload writes precede the (deferred) close; and the close is in the deferred func only
	nClose := 0
	for _, b := range allFuncBodies(p) {
		if b.Lit != nil {
			continue
		}
		ast.Inspect(b.Body, func(x ast.Node) bool {
			if c, ok := x.(*ast.CallExpr); ok && isBuiltinCall(info, c, "close") && len(c.Args) == 1 && selField(info, c.Args[0]) == done {
				nClose++
				if b.Obj == run.Obj {
					w.ok("close-site|"+b.Label, c.Pos(), "done is closed by the leader in task.run")
				} else {
					w.violation("close-site|"+b.Label, c.Pos(), "result.done closed outside task.run")
				}
			}
			return true
		})
	}
	w.floor("close(result.done) sites", nClose, 1)

	// reads: payload of a *result obtained elsewhere must be dominated by closed(r.done)==true,
	// a receive from r.done, or happen in the leader
	closedFn := w.fn(incRel, "closed")
	nR := 0
	// A helper that reads the payload of a *result parameter without establishing done itself
	// imposes a requirement on its callers (like a caller-holds lock helper): the argument must be
	// done-established at every static call site. Requirements are collected in a first pass and
	// discharged against the call sites in a second one.
	type req struct {
		f     *types.Func
		param int
	}
	type pendingRead struct {
		key  string
		pos  token.Pos
		name string
	}
	reqs := map[req][]pendingRead{}
	siteOK := map[req]int{}
	siteBad := map[req][]token.Pos{}
	paramIndex := func(b bodyRef, id *ast.Ident) int {
		i := 0
		for _, fl := range b.Decl.Type.Params.List {
			for _, nm := range fl.Names {
				if info.Defs[nm] == info.Uses[id] && info.Uses[id] != nil {
					return i
				}
				i++
			}
		}
		return -1
	}
	for pass := 1; pass <= 2; pass++ {
		for _, b := range allFuncBodies(p) {
			if b.Lit != nil || b.Obj == run.Obj {
				continue
			}
			var analyse func(body *ast.BlockStmt, init Facts, label string)
			analyse = func(body *ast.BlockStmt, init Facts, label string) {
				g := buildCFG(info, body)
				d := &Dataflow{G: g, Must: true, Init: init}
				d.Transfer = func(n ast.Node, in Facts) Facts {
					out := in
					if as, ok := n.(*ast.AssignStmt); ok {
						for _, l := range as.Lhs {
							if id, ok := l.(*ast.Ident); ok {
								out = out.without("done:" + id.Name)
							}
						}
					}
					inspectPost(n, func(x ast.Node) {
						if base, ok := isRecvFrom(info, x, done); ok {
							out = out.with("done:" + base)
						}
					})
					return out
				}
				d.Branch = func(leaf ast.Expr, truth bool, s Facts) Facts {
					if c, ok := leaf.(*ast.CallExpr); ok && closedFn != nil {
						if f := callee(info, c); f != nil && f.Origin() == closedFn.Obj && len(c.Args) == 1 && selField(info, c.Args[0]) == done && truth {
							return s.with("done:" + render(ast.Unparen(c.Args[0]).(*ast.SelectorExpr).X))
						}
					}
					return s
				}
				d.Run()
				parents := parentMap(body)
				inCallback := b.Label == "incremental.Resolve" && strings.HasSuffix(label, "$lit")
				d.Walk(func(_ *cfg.Block, n ast.Node, before Facts) {
					inspectPost(n, func(x ast.Node) {
						if fl, ok := x.(*ast.FuncLit); ok {
							analyse(fl.Body, Facts{}, label+"$lit")
							return
						}
						if c, ok := x.(*ast.CallExpr); ok && pass == 2 {
							if f := callee(info, c); f != nil {
								for i, a := range c.Args {
									r := req{f.Origin(), i}
									if _, needed := reqs[r]; !needed {
										continue
									}
									if before["done:"+render(a)] || inCallback {
										siteOK[r]++
									} else {
										siteBad[r] = append(siteBad[r], c.Pos())
									}
								}
							}
							return
						}
						s, ok := x.(*ast.SelectorExpr)
						if !ok || pass != 1 {
							return
						}
						sel := info.Selections[s]
						if sel == nil {
							return
						}
						v, _ := sel.Obj().(*types.Var)
						name, isPayload := payload[v]
						if !isPayload || !isResultBase(s.X) {
							return
						}
						if as, ok := parents[x].(*ast.AssignStmt); ok {
							for _, l := range as.Lhs {
								if l == ast.Expr(s) {
									return // write, handled above
								}
							}
						}
						nR++
						base := render(s.X)
						key := "read|" + label + "|" + base + "." + name
						if before["done:"+base] {
							w.ok(key, s.Pos(), "dominated by closed("+base+".done) == true or a receive from it")
						} else if inCallback {
							// the done callback receives results only from start(): cache hit (closed) or t.run's return
							w.ok(key, s.Pos(), "callback argument: start() passes either a result whose done is closed (cache hit) or the value returned by t.run, which returns only after the leader's deferred close or after waiting on done (checked by rule RB 'run-returns-done')")
						} else if id, isId := ast.Unparen(s.X).(*ast.Ident); isId && !strings.HasSuffix(label, "$lit") && paramIndex(b, id) >= 0 {
							r := req{b.Obj.Origin(), paramIndex(b, id)}
							reqs[r] = append(reqs[r], pendingRead{key, s.Pos(), name})
						} else {
							w.violation(key, s.Pos(), "read of result payload not ordered after the close of its done channel")
						}
					})
				})
			}
			analyse(b.Body, Facts{}, b.Label)
		}
	}
	for r, reads := range reqs {
		for _, rd := range reads {
			switch {
			case len(siteBad[r]) > 0:
				w.violation(rd.key, rd.pos, fmt.Sprintf("%s reads the payload of its *result parameter; its call site at %s passes a result that is not established done", funcName(r.f), w.pos(siteBad[r][0])))
			case siteOK[r] == 0:
				w.violation(rd.key, rd.pos, funcName(r.f)+" reads the payload of its *result parameter and has no static call site that establishes done for it")
			default:
				w.ok(rd.key, rd.pos, fmt.Sprintf("helper: every one of its %d static call site(s) passes a result that is established done (or the completion callback's argument)", siteOK[r]))
			}
		}
	}
	w.floor("payload reads of incremental.result outside the leader", nR, 3)
}

// ---- RC6 / RC3 / RC4 ------------------------------------------------------------------------

func rcIncremental(w *World) {
	w.rule("RC")
	p := w.pkg(incRel)
	resolve := w.fn(incRel, "Resolve")
	wait := w.fn(incRel, "(*task).waitUntilDone")
	start := w.fn(incRel, "(*task).start")
	checkCycle := w.fn(incRel, "(*task).checkCycle")
	deps := w.field(incRel, "task", "deps")
	callers := w.field(incRel, "task", "callers")
	done := w.field(incRel, "result", "done")
	if p == nil || resolve == nil || wait == nil || start == nil || checkCycle == nil || deps == nil || callers == nil || done == nil {
		return
	}
	info := p.TypesInfo
	// RC6: both edge directions are stored before any dep.start
	isStart := func(x ast.Node) bool { _, ok := isCallTo(info, x, start.Obj); return ok }
	for name, fld := range map[string]*types.Var{"deps": deps, "callers": callers} {
		isStore := func(x ast.Node) bool {
			c, ok := x.(*ast.CallExpr)
			if !ok {
				return false
			}
			m, ok := methodOnField(info, c, fld)
			return ok && m == "Store"
		}
		nb, bad := mustPrecede(info, resolve.Decl.Body, isStore, isStart)
		// the stores happen in a loop over all queries which completes before the start loop; the root
		// caller (callerTask == nil) skips them by design — prune that path: check instead that the
		// start loop is a separate, later loop than the one containing the store.
		_ = bad
		storeLoop, startLoop := token.NoPos, token.NoPos
		for _, st := range resolve.Decl.Body.List {
			var loopBody *ast.BlockStmt
			switch l := st.(type) {
			case *ast.RangeStmt:
				loopBody = l.Body
			case *ast.ForStmt:
				loopBody = l.Body
			}
			if loopBody == nil {
				continue
			}
			ast.Inspect(loopBody, func(x ast.Node) bool {
				if isStore(x) && !storeLoop.IsValid() {
					storeLoop = st.Pos()
				}
				if isStart(x) && !startLoop.IsValid() {
					startLoop = st.Pos()
				}
				return true
			})
		}
		key := "RC6|Resolve|" + name + "-before-start"
		switch {
		case nb == 0 || !storeLoop.IsValid() || !startLoop.IsValid():
			w.violation(key, resolve.Decl.Pos(), "cannot find the loop storing task."+name+" and the later loop calling dep.start in Resolve")
		case storeLoop < startLoop:
			w.ok(key, storeLoop, "the loop recording task."+name+" for every query completes before the loop that starts any dependency: eviction's upward closure and cycle detection see every edge of a running query")
		default:
			w.violation(key, startLoop, "a dependency can start before task."+name+" has been recorded: a cycle through it is invisible and eviction can miss a caller")
		}
	}
	// in the store loop, the only way to skip the stores is the root check `callerTask == nil`
	// (checked structurally: the stores are not nested in any other conditional)
	ast.Inspect(resolve.Decl.Body, func(x ast.Node) bool {
		c, ok := x.(*ast.CallExpr)
		if !ok {
			return true
		}
		for name, fld := range map[string]*types.Var{"deps": deps, "callers": callers} {
			if m, ok := methodOnField(info, c, fld); ok && m == "Store" {
				parents := parentMap(resolve.Decl.Body)
				cond := false
				for a := parents[x]; a != nil; a = parents[a] {
					switch a.(type) {
					case *ast.IfStmt, *ast.SwitchStmt, *ast.SelectStmt, *ast.CaseClause:
						cond = true
					}
				}
				if cond {
					w.violation("RC6|Resolve|"+name+"-unconditional", c.Pos(), "edge recording is nested in a conditional: some queries can start without their edge recorded")
				} else {
					w.ok("RC6|Resolve|"+name+"-unconditional", c.Pos(), "edge recording is not nested in any conditional (only the preceding root test `callerTask == nil` skips it)")
				}
			}
		}
		return true
	})

	// RC3: checkCycle precedes the blocking select in waitUntilDone, and its error returns before sleeping
	isCheck := func(x ast.Node) bool { _, ok := isCallTo(info, x, checkCycle.Obj); return ok }
	isSleep := func(x ast.Node) bool { _, ok := isRecvFrom(info, x, done); return ok }
	nb, bad := mustPrecede(info, wait.Decl.Body, isCheck, isSleep)
	if nb >= 1 && len(bad) == 0 {
		w.ok("RC3|waitUntilDone|cycle-check-before-sleep", wait.Decl.Pos(), "a follower runs checkCycle before it sleeps on output.done, on every path")
	} else {
		w.violation("RC3|waitUntilDone|cycle-check-before-sleep", wait.Decl.Pos(), "a follower can sleep on output.done without having checked for a cycle: a cyclic query graph deadlocks")
	}
	// the error path returns
	okAbort := false
	ast.Inspect(wait.Decl.Body, func(x ast.Node) bool {
		ifs, ok := x.(*ast.IfStmt)
		if !ok || ifs.Init == nil {
			return true
		}
		as, ok := ifs.Init.(*ast.AssignStmt)
		if !ok || len(as.Rhs) != 1 || !isCheck(ast.Unparen(as.Rhs[0])) {
			return true
		}
		if len(ifs.Body.List) > 0 {
			if _, ok := ifs.Body.List[len(ifs.Body.List)-1].(*ast.ReturnStmt); ok {
				okAbort = true
			}
		}
		return true
	})
	if okAbort {
		w.ok("RC3|waitUntilDone|cycle-error-returns", wait.Decl.Pos(), "a detected cycle returns the result with ErrCycle instead of sleeping")
	} else {
		w.violation("RC3|waitUntilDone|cycle-error-returns", wait.Decl.Pos(), "a detected cycle does not return before the sleep")
	}
	// all callers of waitUntilDone are in task.run, and task.run never sleeps otherwise (RF)
}

// RC4: Run canonicalises the report before returning it.
func rc4Incremental(w *World) {
	w.rule("RC")
	p := w.pkg(incRel)
	runFn := w.fn(incRel, "Run")
	if p == nil || runFn == nil {
		return
	}
	info := p.TypesInfo
	isCanonDirect := func(x ast.Node) bool {
		c, ok := x.(*ast.CallExpr)
		return ok && isFunc(callee(info, c), modPath+"/experimental/report", "Report", "Canonicalize")
	}
	// helpers of the package that canonicalize the report they build on every path to a return
	// (e.g. a collectReport method extracted from Run) count as canonicalization points
	canonFuncs := map[*types.Func]bool{}
	for _, b := range allFuncBodies(p) {
		if b.Lit != nil || b.Obj == runFn.Obj {
			continue
		}
		has := false
		ast.Inspect(b.Body, func(x ast.Node) bool {
			if isCanonDirect(x) {
				has = true
			}
			return true
		})
		if !has {
			continue
		}
		nr, badr := mustPrecede(info, b.Body, isCanonDirect, func(x ast.Node) bool { _, ok := x.(*ast.ReturnStmt); return ok })
		if nr >= 1 && len(badr) == 0 {
			canonFuncs[b.Obj] = true
		}
	}
	isCanon := func(x ast.Node) bool {
		if isCanonDirect(x) {
			return true
		}
		c, ok := x.(*ast.CallExpr)
		if !ok {
			return false
		}
		f := callee(info, c)
		return f != nil && canonFuncs[f.Origin()]
	}
	isRet := func(x ast.Node) bool {
		r, ok := x.(*ast.ReturnStmt)
		return ok && len(r.Results) == 3 && !isNilIdent(info, r.Results[1])
	}
	nb, bad := mustPrecede(info, runFn.Decl.Body, isCanon, isRet)
	if nb >= 1 && len(bad) == 0 {
		w.ok("RC4|Run|canonicalize-before-return", runFn.Decl.Pos(), "every return of a non-nil report is preceded by report.Canonicalize(): diagnostics gathered in map/schedule order are sorted and de-duplicated before they are observable")
	} else {
		w.violation("RC4|Run|canonicalize-before-return", runFn.Decl.Pos(), "Run can return a report that was not canonicalized: its order depends on sync.Map iteration and scheduling")
	}
	// nothing is appended to the report after Canonicalize
	g := buildCFG(info, runFn.Decl.Body)
	d := &Dataflow{G: g, Must: false, Init: Facts{}}
	d.Transfer = func(n ast.Node, in Facts) Facts {
		out := in
		inspectPost(n, func(x ast.Node) {
			if isCanon(x) {
				out = out.with("canon")
			}
		})
		return out
	}
	d.Run()
	late := 0
	d.Walk(func(_ *cfg.Block, n ast.Node, before Facts) {
		if as, ok := n.(*ast.AssignStmt); ok && before["canon"] {
			for _, l := range as.Lhs {
				if s, ok := ast.Unparen(l).(*ast.SelectorExpr); ok && s.Sel.Name == "Diagnostics" {
					late++
					w.violation("RC4|Run|append-after-canonicalize", l.Pos(), "diagnostics are appended after Canonicalize")
				}
			}
		}
	})
	if late == 0 {
		w.ok("RC4|Run|append-after-canonicalize", runFn.Decl.Pos(), "no diagnostics are added after Canonicalize")
	}
}

// ---- RA timer --------------------------------------------------------------------------------

func raIncremental(w *World) {
	w.rule("RA")
	p := w.pkg(incRel)
	if p == nil {
		return
	}
	guards := []*guard{w.mkGuard(incRel, "timer", "m", "mu", false)}
	la := w.runGuardedBy(p, guards)
	w.floor("guarded accesses of timer.m", len(la.accesses), 2)
	raNoBlockingUnderLock(w, la, "incremental")
	// task and Executor shared fields must be sync/atomic types or immutable
	for _, tf := range []struct {
		typ    string
		exempt map[string]string
	}{
		{"task", map[string]string{"query": "set in the literal passed to LoadOrStore, never assigned", "report": "written only by the leader through Task.Report while executing; read by Run after Resolve returned (ordered by done/join)"}},
		{"Executor", map[string]string{"reportOptions": "set by options in New before the executor is shared", "sema": "set in New / WithParallelism before sharing", "evictGCDeadline": "set by an option in New"}},
	} {
		n := w.typ(incRel, tf.typ)
		if n == nil {
			continue
		}
		st := n.Underlying().(*types.Struct)
		for i := 0; i < st.NumFields(); i++ {
			f := st.Field(i)
			ts := f.Type().String()
			key := "shared-field|" + tf.typ + "." + f.Name()
			switch {
			case strings.HasPrefix(ts, "sync.") || strings.HasPrefix(ts, "sync/atomic.") || strings.HasPrefix(ts, "atomic."):
				w.okTrivial(key, f.Pos(), "synchronisation type "+ts)
			case tf.exempt[f.Name()] != "":
				w.okTrivial(key, f.Pos(), "reviewed: "+tf.exempt[f.Name()])
			default:
				w.undecided(key, f.Pos(), "field "+tf.typ+"."+f.Name()+" ("+ts+") is shared between goroutines but is neither a sync/atomic type nor in the reviewed table")
			}
		}
	}
	raImmutableAfterConstruction(w, incRel, "task", []string{"query"})
}

var _ = fmt.Sprintf

// rh5Cleanup: EvictWithCleanup runs the caller's cleanup function while e.dirty is held exclusively
// (atomically with the eviction), and the eviction walk never looks at task results: which tasks are
// evicted depends only on the dependency graph, not on whether a task currently has a result.
func rh5Cleanup(w *World) {
	p := w.pkg(incRel)
	ev := w.fn(incRel, "(*Executor).EvictWithCleanup")
	resultFld := w.field(incRel, "task", "result")
	if p == nil || ev == nil || resultFld == nil {
		return
	}
	info := p.TypesInfo
	g := buildCFG(info, ev.Decl.Body)
	d := &Dataflow{G: g, Must: true, Init: Facts{}, Transfer: func(n ast.Node, in Facts) Facts { return lockTransfer(info, n, in) }}
	d.Run()
	found := false
	// a deferred closure that calls cleanup runs at function exit, before the deferred Unlock that
	// was registered earlier (LIFO): it is under the lock if the lock is held where it is
	// registered and the function never unlocks explicitly
	callsCleanup := func(n ast.Node) *ast.CallExpr {
		var hit *ast.CallExpr
		ast.Inspect(n, func(y ast.Node) bool {
			if c, ok := y.(*ast.CallExpr); ok && hit == nil {
				if id, ok := ast.Unparen(c.Fun).(*ast.Ident); ok && id.Name == "cleanup" {
					hit = c
				}
			}
			return hit == nil
		})
		return hit
	}
	explicitUnlock := false
	ast.Inspect(ev.Decl.Body, func(y ast.Node) bool {
		if _, isDefer := y.(*ast.DeferStmt); isDefer {
			return false
		}
		if c, ok := y.(*ast.CallExpr); ok {
			if sel, ok := ast.Unparen(c.Fun).(*ast.SelectorExpr); ok && sel.Sel.Name == "Unlock" && strings.HasSuffix(render(sel.X), "dirty") {
				explicitUnlock = true
			}
		}
		return true
	})
	d.Walk(func(_ *cfg.Block, n ast.Node, before Facts) {
		if ds, ok := n.(*ast.DeferStmt); ok {
			if fl, ok := ds.Call.Fun.(*ast.FuncLit); ok {
				if c := callsCleanup(fl.Body); c != nil {
					found = true
					if before["W:e.dirty"] && !explicitUnlock {
						w.ok("cleanup-under-lock", c.Pos(), "the cleanup callback runs in a closure deferred while e.dirty is held exclusively and released only by an earlier-registered deferred Unlock: no Run can observe the state between eviction and cleanup")
					} else {
						w.violation("cleanup-under-lock", c.Pos(), "the deferred cleanup is registered with lock set "+before.String()+" (or the function unlocks explicitly before returning): a concurrent Run can memoize stale inputs between the eviction and the cleanup")
					}
				}
			}
			return
		}
		inspectPost(n, func(x ast.Node) {
			c, ok := x.(*ast.CallExpr)
			if !ok {
				return
			}
			if id, ok := ast.Unparen(c.Fun).(*ast.Ident); ok && id.Name == "cleanup" {
				found = true
				if before["W:e.dirty"] {
					w.ok("cleanup-under-lock", c.Pos(), "the cleanup callback runs while e.dirty is held exclusively: no Run can observe the state between eviction and cleanup")
				} else {
					w.violation("cleanup-under-lock", c.Pos(), "the cleanup callback runs without the exclusive dirty lock (lock set "+before.String()+"): a concurrent Run can memoize stale inputs between the eviction and the cleanup")
				}
			}
		})
	})
	if !found {
		w.undecided("cleanup-under-lock|missing", ev.Decl.Pos(), "no call of the cleanup parameter found in EvictWithCleanup")
	}
	// cleanup-always-runs: the cleanup callback is how the caller publishes the new input; it must
	// run on every path on which it is not known to be nil — also when none of the given keys is
	// memoized (two edits back to back, an edit before the first Run). Must-dataflow: fact "settled"
	// after the call and on the edges where `cleanup == nil` is implied.
	{
		cd := &Dataflow{G: g, Must: true, Init: Facts{}}
		cd.Transfer = func(n ast.Node, in Facts) Facts {
			out := in
			if _, isGo := n.(*ast.GoStmt); isGo {
				return out
			}
			if ds, ok := n.(*ast.DeferStmt); ok {
				// a deferred closure that calls cleanup (under its own nil test) settles every
				// later exit
				if fl, ok := ds.Call.Fun.(*ast.FuncLit); ok && callsCleanup(fl.Body) != nil {
					return out.with("settled")
				}
				return out
			}
			inspectPost(n, func(x ast.Node) {
				if c, ok := x.(*ast.CallExpr); ok {
					if id, ok := ast.Unparen(c.Fun).(*ast.Ident); ok && id.Name == "cleanup" {
						out = out.with("settled")
					}
				}
			})
			return out
		}
		cd.Branch = func(leaf ast.Expr, truth bool, s Facts) Facts {
			if be, ok := ast.Unparen(leaf).(*ast.BinaryExpr); ok && isNilIdent(info, be.Y) {
				if id, ok := ast.Unparen(be.X).(*ast.Ident); ok && id.Name == "cleanup" {
					if (be.Op == token.EQL) == truth {
						return s.with("settled")
					}
				}
			}
			return s
		}
		cd.Run()
		var skipped []string
		nExit := 0
		for _, e := range cd.Exits(info, ev.Decl.Body.End()) {
			if e.Kind == "panic" {
				continue
			}
			nExit++
			if !e.State["settled"] {
				skipped = append(skipped, w.pos(e.Pos))
			}
		}
		if len(skipped) == 0 {
			w.ok("cleanup-always-runs", ev.Decl.Pos(), fmt.Sprintf("on each of the %d exits of EvictWithCleanup the cleanup callback has run or is known to be nil", nExit))
		} else {
			sort.Strings(skipped)
			w.violation("cleanup-always-runs", ev.Decl.Pos(), "EvictWithCleanup can return (at "+strings.Join(skipped, ", ")+") without having called a non-nil cleanup: when none of the given keys is memoized (two edits without a Run in between, an edit before the first Run) the new input is never published, and the next Run memoizes a value computed from the old one")
		}
	}
	// lock-first: what is evicted is decided under the exclusive lock. Every look at the task map
	// (getTask, e.tasks.*) and at the dependency graph (task.callers / task.deps) in
	// EvictWithCleanup must happen while e.dirty is held exclusively; a lookup or walk made before
	// Lock() races with a Run that is still in flight: the Run memoizes the key (or records a new
	// dependency edge) after the lookup, finishes, and only then does the eviction proceed — on a
	// snapshot that no longer contains what must be evicted, so a stale value stays cached.
	tasksFld := w.field(incRel, "Executor", "tasks")
	callersFld := w.field(incRel, "task", "callers")
	depsFld := w.field(incRel, "task", "deps")
	getTask := w.fn(incRel, "(*Executor).getTask")
	nAcc := 0
	d.Walk(func(_ *cfg.Block, n ast.Node, before Facts) {
		if _, isGo := n.(*ast.GoStmt); isGo {
			return
		}
		inspectPost(n, func(x ast.Node) {
			what := ""
			switch e := x.(type) {
			case *ast.CallExpr:
				if f := callee(info, e); f != nil && getTask != nil && f == getTask.Obj {
					what = "getTask"
				}
			case *ast.SelectorExpr:
				switch selField(info, e) {
				case tasksFld:
					what = "e.tasks"
				case callersFld:
					what = "task.callers"
				case depsFld:
					what = "task.deps"
				}
			}
			if what == "" {
				return
			}
			nAcc++
			key := "lock-first|EvictWithCleanup|" + what
			if before["W:e.dirty"] {
				w.ok(key, x.Pos(), what+" is consulted while e.dirty is held exclusively")
			} else {
				w.violation(key, x.Pos(), what+" is consulted before e.dirty.Lock() (lock set "+before.String()+"): a Run still in flight can memoize the key or add a dependency edge after this look and before the lock is granted, so the eviction works on a stale snapshot and a value computed from the old input stays cached after the cleanup published the new one")
			}
		})
	})
	w.floor("task-map / dependency-graph accesses in EvictWithCleanup", nAcc, 4)
	// result-agnostic eviction: no access to task.result in EvictWithCleanup or its module callees (getTask excepted: it only loads the task)
	seen := map[*types.Func]bool{}
	bad := 0
	var visit func(fd *ast.FuncDecl, label string)
	visit = func(fd *ast.FuncDecl, label string) {
		ast.Inspect(fd.Body, func(x ast.Node) bool {
			if _, ok := x.(*ast.GoStmt); ok {
				return false // the debug-only logger goroutine is not part of the eviction decision
			}
			if e, ok := x.(ast.Expr); ok && selField(info, e) == resultFld {
				bad++
				w.violation("evict-result-agnostic|"+label, x.Pos(), "the eviction path reads task.result: whether a key is evicted must depend only on the dependency graph — a task whose leader panicked or was cancelled has no result but still has dependents that memoized its failure")
			}
			if c, ok := x.(*ast.CallExpr); ok {
				if f := callee(info, c); f != nil && f.Pkg() == p.Types && !seen[f] {
					seen[f] = true
					if cfd := w.decls[f]; cfd != nil && cfd.Body != nil {
						visit(cfd, funcName(f))
					}
				}
			}
			return true
		})
	}
	visit(ev.Decl, ev.Name)
	if bad == 0 {
		w.ok("evict-result-agnostic", ev.Decl.Pos(), "EvictWithCleanup and its callees never read task.result: the evicted set is the upward closure of the given keys in the dependency graph")
	}
}

// RH5c (C33, C35): dependency edges are removed only by eviction. Resolve records caller<->callee
// edges (task.deps / task.callers); EvictWithCleanup follows callers upwards to find everything
// that must be recomputed and is the only place that may delete an edge, under the exclusive lock.
// A Delete anywhere else (e.g. "un-recording" the edge that closed a cycle) makes the graph forget
// a dependency that still shaped a memoized value: evicting the dependency no longer reaches the
// dependent, which keeps its stale result.
func rh5cEdgesRemovedOnlyByEviction(w *World) {
	w.rule("RH5")
	p := w.pkg(incRel)
	callersFld := w.field(incRel, "task", "callers")
	depsFld := w.field(incRel, "task", "deps")
	if p == nil || callersFld == nil || depsFld == nil {
		return
	}
	info := p.TypesInfo
	n := 0
	for _, b := range allFuncBodies(p) {
		if b.Lit != nil {
			continue
		}
		ast.Inspect(b.Body, func(x ast.Node) bool {
			c, ok := x.(*ast.CallExpr)
			if !ok {
				return true
			}
			s, ok := ast.Unparen(c.Fun).(*ast.SelectorExpr)
			if !ok {
				return true
			}
			switch s.Sel.Name {
			case "Delete", "LoadAndDelete", "Clear", "CompareAndDelete":
			default:
				return true
			}
			f := selField(info, s.X)
			if f != callersFld && f != depsFld {
				return true
			}
			n++
			key := "edge-delete|" + b.Label + "|" + types.ExprString(s.X) + "." + s.Sel.Name
			if strings.HasSuffix(b.Label, "(*Executor).EvictWithCleanup") {
				w.ok(key, c.Pos(), "dependency edge removed as part of eviction")
			} else {
				w.violation(key, c.Pos(), "a dependency edge ("+f.Name()+") is deleted outside EvictWithCleanup: the dependent keeps a memoized value that was shaped by this dependency, but evicting the dependency no longer reaches it, so the long-lived executor returns results a fresh one would not")
			}
			return true
		})
	}
	w.floor("deletions of dependency edges", n, 1)
}
