package main

import (
	"fmt"
	"go/ast"
	"go/constant"
	"go/token"
	"go/types"
	"math/big"
	"strings"
)

// RP4: integer conversion discipline of the stable lexer (C14).
//
// protoc's tokenizer converts digits it has itself recognised; it has no notion of a sign inside
// an escape, of `_` digit separators or of a base prefix chosen by the converter. Go's
// strconv.ParseInt/ParseUint are more lenient: ParseInt accepts a leading '+'/'-', base 0 accepts
// "0x"/"0o"/"0b" prefixes and '_' separators, and a bit size smaller than the digit group makes
// valid values fail with a range error. Every strconv.ParseInt/ParseUint call in parser/lexer.go
// must therefore satisfy three clauses, each a necessary condition of "decodes like protoc":
//
//	base-explicit  the base is a constant 8, 10 or 16 (or a variable only ever assigned those);
//	sign-free      the callee is ParseUint, or every rune of the argument is established to be a
//	               digit of the base by a guard that structurally dominates the point where the
//	               argument string is built (if/else polarity, tag-less case clause, early-exit
//	               guard), with the rune not reassigned in between; guards are *evaluated* over
//	               all rune values 0..0x2FF, not pattern-matched;
//	bits-adequate  the largest value the digit group can denote (base^digits-1, or the bound K of
//	               an immediately following `i > K` rejection) is representable in the requested
//	               bit size (signed for ParseInt).
func rp4IntConversions(w *World) {
	w.rule("RP4")
	p := w.pkg("parser")
	if p == nil {
		return
	}
	info := p.TypesInfo
	n := 0
	for _, b := range allFuncBodies(p) {
		if b.Lit != nil || !strings.HasSuffix(w.Fset.Position(b.Decl.Pos()).Filename, "parser/lexer.go") {
			continue
		}
		parents := parentMap(b.Decl)
		// assignments per object
		assigns := map[types.Object][]ast.Expr{}
		assignPos := map[types.Object][]ast.Node{}
		ast.Inspect(b.Body, func(y ast.Node) bool {
			as, ok := y.(*ast.AssignStmt)
			if !ok {
				return true
			}
			for i, l := range as.Lhs {
				id, ok := l.(*ast.Ident)
				if !ok {
					continue
				}
				obj := info.Defs[id]
				if obj == nil {
					obj = info.Uses[id]
				}
				if obj == nil {
					continue
				}
				var rhs ast.Expr
				if len(as.Rhs) == len(as.Lhs) {
					rhs = as.Rhs[i]
				} else if len(as.Rhs) == 1 {
					rhs = as.Rhs[0] // multi-value call
				}
				assigns[obj] = append(assigns[obj], rhs)
				assignPos[obj] = append(assignPos[obj], as)
			}
			return true
		})
		ast.Inspect(b.Body, func(y ast.Node) bool {
			c, ok := y.(*ast.CallExpr)
			if !ok || len(c.Args) != 3 {
				return true
			}
			f := callee(info, c)
			if f == nil || f.Pkg() == nil || f.Pkg().Path() != "strconv" || (f.Name() != "ParseInt" && f.Name() != "ParseUint") {
				return true
			}
			n++
			site := b.Label + "|" + f.Name() + "(" + types.ExprString(c.Args[0]) + ")"
			// ---- base-explicit
			bases := constInts(info, c.Args[1], assigns)
			baseOK := len(bases) > 0
			for _, bv := range bases {
				if bv != 8 && bv != 10 && bv != 16 {
					baseOK = false
				}
			}
			if baseOK {
				w.ok("base-explicit|"+site, c.Pos(), fmt.Sprintf("base is one of %v", bases))
			} else {
				w.violation("base-explicit|"+site, c.Pos(), fmt.Sprintf("base argument %s is not a fixed 8/10/16 (values %v): base 0 lets strconv accept 0x/0o/0b prefixes and '_' digit separators that protoc rejects", render(c.Args[1]), bases))
			}
			// ---- decompose the argument into rune groups
			groups, unbounded := argRuneGroups(info, c.Args[0], assigns, assignPos)
			// ---- sign-free
			if f.Name() == "ParseUint" {
				w.ok("sign-free|"+site, c.Pos(), "ParseUint rejects a leading sign")
			} else if unbounded || len(groups) == 0 || len(bases) != 1 {
				w.violation("sign-free|"+site, c.Pos(), "strconv.ParseInt accepts a leading '+' or '-', and the argument's characters cannot be shown to be digits: a signed escape/literal would be accepted although protoc rejects it")
			} else {
				bad := ""
				for _, g := range groups {
					for _, r := range g.runes {
						if why := runeValidated(info, parents, g.at, r, bases[0]); why != "" {
							bad = fmt.Sprintf("%s (in %s): %s", render(r), render(g.expr), why)
						}
					}
				}
				if bad == "" {
					w.ok("sign-free|"+site, c.Pos(), fmt.Sprintf("every character of the argument is guarded to be a base-%d digit where the string is built (%d construction(s))", bases[0], len(groups)))
				} else {
					w.violation("sign-free|"+site, c.Pos(), "strconv.ParseInt accepts a leading '+' or '-' and the argument may contain a non-digit: "+bad+"; a signed escape such as \\x+1 or \\u-041 would be accepted although protoc rejects it")
				}
			}
			// ---- bits-adequate
			bits := constInts(info, c.Args[2], assigns)
			if len(bits) != 1 || len(bases) == 0 {
				w.undecided("bits-adequate|"+site, c.Pos(), "bit size or base is not a single constant")
				return true
			}
			repr := new(big.Int).Lsh(big.NewInt(1), uint(bits[0]))
			if f.Name() == "ParseInt" {
				repr = new(big.Int).Lsh(big.NewInt(1), uint(bits[0]-1))
			}
			repr.Sub(repr, big.NewInt(1))
			var need *big.Int
			needWhy := ""
			if unbounded {
				// an unbounded digit run (number literal): the widest type is required (overflow is handled by the caller)
				need = new(big.Int).Sub(new(big.Int).Lsh(big.NewInt(1), 64), big.NewInt(1))
				needWhy = "an unbounded digit run needs the full 64-bit unsigned range (overflow falls back to float)"
			} else {
				maxDigits := 0
				for _, g := range groups {
					if g.digits > maxDigits {
						maxDigits = g.digits
					}
				}
				maxBase := int64(0)
				for _, bv := range bases {
					if bv > maxBase {
						maxBase = bv
					}
				}
				need = new(big.Int).Exp(big.NewInt(maxBase), big.NewInt(int64(maxDigits)), nil)
				need.Sub(need, big.NewInt(1))
				needWhy = fmt.Sprintf("%d base-%d digits denote values up to %s", maxDigits, maxBase, need.String())
				if k, ok := followingUpperBound(info, parents, c); ok && big.NewInt(k).Cmp(need) < 0 {
					need = big.NewInt(k)
					needWhy += fmt.Sprintf(", values above %d are rejected right after", k)
				}
			}
			if repr.Cmp(need) >= 0 {
				w.ok("bits-adequate|"+site, c.Pos(), fmt.Sprintf("%s; bit size %d (%s) represents up to %s", needWhy, bits[0], f.Name(), repr.String()))
			} else {
				w.violation("bits-adequate|"+site, c.Pos(), fmt.Sprintf("%s, but bit size %d (%s) represents only up to %s: valid input fails with a range error", needWhy, bits[0], f.Name(), repr.String()))
			}
			return true
		})
	}
	w.floor("strconv.ParseInt/ParseUint call sites in parser/lexer.go", n, 6)
}

// constInts: the constant integer values an expression can take (a constant, or a local variable
// whose every assignment is a constant).
func constInts(info *types.Info, e ast.Expr, assigns map[types.Object][]ast.Expr) []int64 {
	e = ast.Unparen(e)
	if tv, ok := info.Types[e]; ok && tv.Value != nil {
		if v, ok := constant.Int64Val(constant.ToInt(tv.Value)); ok {
			return []int64{v}
		}
	}
	if id, ok := e.(*ast.Ident); ok {
		var out []int64
		for _, r := range assigns[info.Uses[id]] {
			if r == nil {
				return nil
			}
			tv, ok := info.Types[r]
			if !ok || tv.Value == nil {
				return nil
			}
			v, ok := constant.Int64Val(constant.ToInt(tv.Value))
			if !ok {
				return nil
			}
			out = append(out, v)
		}
		return out
	}
	return nil
}

type runeGroup struct {
	expr   ast.Expr   // the string(...) construction
	at     ast.Node   // statement where it is built
	runes  []ast.Expr // rune-valued expressions it is made of (idents)
	digits int
}

// argRuneGroups decomposes a string argument into the rune groups it can be built from.
// unbounded = the argument is (a slice of) a token of arbitrary length.
func argRuneGroups(info *types.Info, arg ast.Expr, assigns map[types.Object][]ast.Expr, assignPos map[types.Object][]ast.Node) (groups []runeGroup, unbounded bool) {
	var fromString func(e ast.Expr, at ast.Node, depth int)
	fromString = func(e ast.Expr, at ast.Node, depth int) {
		e = ast.Unparen(e)
		switch x := e.(type) {
		case *ast.CallExpr:
			// string(r) | string([]rune{a,b}) | string(u)
			if tv, ok := info.Types[x.Fun]; ok && tv.IsType() && len(x.Args) == 1 {
				a := ast.Unparen(x.Args[0])
				switch y := a.(type) {
				case *ast.CompositeLit:
					g := runeGroup{expr: e, at: at, digits: len(y.Elts)}
					g.runes = append(g.runes, y.Elts...)
					groups = append(groups, g)
					return
				case *ast.Ident:
					t := info.TypeOf(y)
					if bt, ok := t.Underlying().(*types.Basic); ok && bt.Info()&types.IsInteger != 0 {
						groups = append(groups, runeGroup{expr: e, at: at, runes: []ast.Expr{y}, digits: 1})
						return
					}
					if _, ok := t.Underlying().(*types.Slice); ok {
						// a rune buffer: u := make([]rune, N); elements assigned u[i] = r
						n := 0
						for _, r := range assigns[info.Uses[y]] {
							if c, ok := ast.Unparen(r).(*ast.CallExpr); ok && isBuiltinCall(info, c, "make") && len(c.Args) >= 2 {
								if tv, ok := info.Types[c.Args[1]]; ok && tv.Value != nil {
									v, _ := constant.Int64Val(tv.Value)
									if int(v) > n {
										n = int(v)
									}
								}
							}
						}
						// the elements are whatever is stored by index; they are recorded as the buffer itself
						groups = append(groups, runeGroup{expr: e, at: at, runes: []ast.Expr{y}, digits: n})
						return
					}
				}
			}
			unbounded = true
		case *ast.Ident:
			if depth > 3 {
				unbounded = true
				return
			}
			obj := info.Uses[x]
			rs := assigns[obj]
			if len(rs) == 0 {
				unbounded = true
				return
			}
			for i, r := range rs {
				if r == nil {
					unbounded = true
					continue
				}
				fromString(r, assignPos[obj][i], depth+1)
			}
		default:
			unbounded = true
		}
	}
	fromString(arg, nil, 0)
	return
}

// runeValidated returns "" if rune expression r is structurally guaranteed to be a digit of the
// given base at node `at`, else the reason.
func runeValidated(info *types.Info, parents map[ast.Node]ast.Node, at ast.Node, r ast.Expr, base int64) string {
	id, ok := ast.Unparen(r).(*ast.Ident)
	if !ok {
		return "not a plain variable"
	}
	if _, isSlice := info.TypeOf(id).Underlying().(*types.Slice); isSlice {
		return "a rune buffer filled without a digit test"
	}
	if at == nil {
		return "construction site unknown"
	}
	name := id.Name
	isDigit := func(v int64) bool {
		switch base {
		case 8:
			return v >= '0' && v <= '7'
		case 10:
			return v >= '0' && v <= '9'
		case 16:
			return (v >= '0' && v <= '9') || (v >= 'a' && v <= 'f') || (v >= 'A' && v <= 'F')
		}
		return false
	}
	// implies(cond, truth): every value for which cond may evaluate to `truth` is a digit
	implies := func(cond ast.Expr, truth bool) bool {
		mentions := false
		ast.Inspect(cond, func(y ast.Node) bool {
			if i2, ok := y.(*ast.Ident); ok && i2.Name == name && info.Uses[i2] == info.Uses[id] {
				mentions = true
			}
			return true
		})
		if !mentions {
			return false
		}
		for v := int64(-1); v < 0x300; v++ {
			t := evalWith(info, cond, name, v)
			possible := t == triUnknown || (t == triTrue) == truth
			if possible && !isDigit(v) {
				return false
			}
		}
		return true
	}
	assignedWithin := func(region ast.Node, before token.Pos) bool {
		found := false
		ast.Inspect(region, func(y ast.Node) bool {
			if as, ok := y.(*ast.AssignStmt); ok && as.Pos() < before {
				for _, l := range as.Lhs {
					if i2, ok := l.(*ast.Ident); ok && i2.Name == name && (info.Uses[i2] == info.Uses[id] || info.Defs[i2] == info.Uses[id]) {
						found = true
					}
				}
			}
			return true
		})
		return found
	}
	terminates := func(bl *ast.BlockStmt) bool {
		if len(bl.List) == 0 {
			return false
		}
		switch s := bl.List[len(bl.List)-1].(type) {
		case *ast.ReturnStmt:
			return true
		case *ast.BranchStmt:
			return s.Tok == token.CONTINUE || s.Tok == token.BREAK || s.Tok == token.GOTO
		}
		return false
	}
	var child ast.Node = at
	for cur := parents[at]; cur != nil; child, cur = cur, parents[cur] {
		switch x := cur.(type) {
		case *ast.IfStmt:
			if child == ast.Node(x.Body) && implies(x.Cond, true) && !assignedWithin(x.Body, at.Pos()) {
				return ""
			}
			if x.Else != nil && child == ast.Node(x.Else) && implies(x.Cond, false) && !assignedWithin(x.Else, at.Pos()) {
				return ""
			}
		case *ast.CaseClause:
			sw, _ := parents[parents[cur]].(*ast.SwitchStmt)
			if sw != nil && sw.Tag == nil && len(x.List) > 0 {
				all := true
				for _, e := range x.List {
					if !implies(e, true) {
						all = false
					}
				}
				reassigned := false
				for _, st := range x.Body {
					if assignedWithin(st, at.Pos()) {
						reassigned = true
					}
				}
				if all && !reassigned {
					return ""
				}
			}
		case *ast.FuncLit, *ast.FuncDecl:
			return "no dominating digit test of " + name
		}
		// early-exit guards among the preceding siblings
		if list, idx := containingList(parents, child); idx > 0 {
			for j := idx - 1; j >= 0; j-- {
				if ifs, ok := list[j].(*ast.IfStmt); ok && ifs.Else == nil && ifs.Init == nil && terminates(ifs.Body) && implies(ifs.Cond, false) {
					re := false
					for k := j + 1; k <= idx; k++ {
						if assignedWithin(list[k], at.Pos()) {
							re = true
						}
					}
					if !re {
						return ""
					}
				}
			}
		}
	}
	return "no dominating digit test of " + name
}

// followingUpperBound: an `if i > K { … reject … }` among the statements following the conversion
// (same statement list), where i is the conversion's first result.
func followingUpperBound(info *types.Info, parents map[ast.Node]ast.Node, call *ast.CallExpr) (int64, bool) {
	as, ok := parents[call].(*ast.AssignStmt)
	if !ok || len(as.Lhs) == 0 {
		return 0, false
	}
	res := render(as.Lhs[0])
	list, idx := containingList(parents, as)
	for j := idx + 1; j >= 0 && j < len(list) && j <= idx+3; j++ {
		ifs, ok := list[j].(*ast.IfStmt)
		if !ok {
			continue
		}
		var k int64
		found := false
		ast.Inspect(ifs.Cond, func(y ast.Node) bool {
			if be, ok := y.(*ast.BinaryExpr); ok && be.Op == token.GTR && render(be.X) == res {
				if tv, ok := info.Types[be.Y]; ok && tv.Value != nil {
					if v, ok := constant.Int64Val(constant.ToInt(tv.Value)); ok {
						k, found = v, true
					}
				}
			}
			return true
		})
		if found {
			return k, true
		}
	}
	return 0, false
}
