package main

import (
	"fmt"
	"go/ast"
	"go/constant"
	"go/token"
	"go/types"
	"math/big"
	"sort"
	"strings"

	"golang.org/x/tools/go/cfg"
)

// ---- RH8 + RC7: lenient interpretation (C21) --------------------------------------------------

func rh8Lenience(w *World) {
	w.rule("RH8")
	p := w.pkg("options")
	rep := w.field("options", "interpreter", "reporter")
	if p == nil || rep == nil {
		return
	}
	info := p.TypesInfo
	wrappers := map[string]bool{"handleErrorf": true, "handleErrorWithPos": true, "handleError": true}
	nErr, nWarn := 0, 0
	for _, b := range allFuncBodies(p) {
		if b.Lit != nil {
			continue
		}
		ast.Inspect(b.Body, func(x ast.Node) bool {
			c, ok := x.(*ast.CallExpr)
			if !ok {
				return true
			}
			s, ok := ast.Unparen(c.Fun).(*ast.SelectorExpr)
			if !ok || selField(info, s.X) != rep {
				return true
			}
			name := s.Sel.Name
			switch {
			case strings.HasPrefix(name, "HandleError"):
				nErr++
				if wrappers[b.Obj.Name()] {
					w.ok("report-site|"+b.Label, c.Pos(), "errors reach the handler only through the lenience-aware wrapper "+b.Obj.Name())
				} else {
					w.violation("report-site|"+b.Label, c.Pos(), "interp.reporter."+name+" called directly: in lenient mode this error fails the interpretation instead of leaving the option uninterpreted")
				}
			case strings.HasPrefix(name, "HandleWarning"):
				nWarn++
				w.okTrivial("warn-site|"+b.Label, c.Pos(), "warnings never fail an interpretation")
			default:
				w.undecided("report-site|"+b.Label+"|"+name, c.Pos(), "unexpected use of interp.reporter."+name)
			}
			return true
		})
	}
	w.floor("direct error reports in the options interpreter", nErr, 3)
	// each wrapper tests lenienceEnabled first and then swallows the error
	len1 := w.field("options", "interpreter", "lenienceEnabled")
	len2 := w.field("options", "interpreter", "lenientErrReported")
	wrapperHelpers := map[string]bool{}
	for name := range wrappers {
		fr := w.fn("options", "(*interpreter)."+name)
		if fr == nil || len1 == nil || len2 == nil {
			continue
		}
		okShape := false
		if len(fr.Decl.Body.List) >= 2 {
			if ifs, ok := fr.Decl.Body.List[0].(*ast.IfStmt); ok && selField(info, ifs.Cond) == len1 && len(ifs.Body.List) == 2 {
				as, ok1 := ifs.Body.List[0].(*ast.AssignStmt)
				rt, ok2 := ifs.Body.List[1].(*ast.ReturnStmt)
				if ok1 && ok2 && len(as.Lhs) == 1 && selField(info, as.Lhs[0]) == len2 && render(as.Rhs[0]) == "true" && len(rt.Results) == 1 && isNilIdent(info, rt.Results[0]) {
					okShape = true
				}
			}
		}
		if !okShape && len(fr.Decl.Body.List) >= 2 {
			// the test-and-record may live in a helper: `if interp.suppress…() { return nil }` where the
			// helper returns true exactly when lenience is enabled, after recording the flag
			if ifs, ok := fr.Decl.Body.List[0].(*ast.IfStmt); ok && len(ifs.Body.List) == 1 {
				rt, isRet := ifs.Body.List[0].(*ast.ReturnStmt)
				if c, isCall := ast.Unparen(ifs.Cond).(*ast.CallExpr); isCall && isRet && len(rt.Results) == 1 && isNilIdent(info, rt.Results[0]) {
					if hf := callee(info, c); hf != nil {
						if hd := w.decls[hf.Origin()]; hd != nil && hd.Body != nil {
							g := buildCFG(info, hd.Body)
							d := &Dataflow{G: g, Must: true, Init: Facts{}}
							d.Transfer = func(n ast.Node, in Facts) Facts {
								if as, ok := n.(*ast.AssignStmt); ok && len(as.Lhs) == 1 && selField(info, as.Lhs[0]) == len2 && render(as.Rhs[0]) == "true" {
									return in.with("recorded")
								}
								return in
							}
							d.Branch = func(leaf ast.Expr, truth bool, st Facts) Facts {
								if selField(info, leaf) == len1 {
									if truth {
										return st.with("enabled")
									}
									return st.with("disabled")
								}
								return st
							}
							d.Run()
							good, nRet := true, 0
							for _, e := range d.Exits(info, hd.Body.End()) {
								r, ok := e.Last.(*ast.ReturnStmt)
								if !ok || len(r.Results) != 1 {
									good = false
									continue
								}
								nRet++
								switch render(r.Results[0]) {
								case "true":
									if !e.State["enabled"] || !e.State["recorded"] {
										good = false
									}
								case "false":
									if !e.State["disabled"] {
										good = false
									}
								default:
									good = false
								}
							}
							if good && nRet >= 2 {
								okShape = true
								wrapperHelpers[hf.Origin().Name()] = true
							}
						}
					}
				}
			}
		}
		if okShape {
			w.ok("wrapper|"+name, fr.Decl.Pos(), "when lenience is enabled the wrapper records lenientErrReported = true and returns nil before touching the handler")
		} else {
			w.violation("wrapper|"+name, fr.Decl.Pos(), "wrapper does not start with `if interp.lenienceEnabled { interp.lenientErrReported = true; return nil }`")
		}
	}
	// the flags are written only by the wrappers and enableLenience
	for _, b := range allFuncBodies(p) {
		if b.Lit != nil {
			continue
		}
		ast.Inspect(b.Body, func(x ast.Node) bool {
			if as, ok := x.(*ast.AssignStmt); ok {
				for _, l := range as.Lhs {
					if v := selField(info, l); v != nil && (v == len1 || v == len2) {
						if wrappers[b.Obj.Name()] || wrapperHelpers[b.Obj.Name()] || b.Obj.Name() == "enableLenience" {
							w.okTrivial("flag-writer|"+b.Label+"|"+v.Name(), l.Pos(), "lenience flags are managed by the wrappers and enableLenience")
						} else {
							w.violation("flag-writer|"+b.Label+"|"+v.Name(), l.Pos(), "interpreter."+v.Name()+" written outside the wrappers / enableLenience")
						}
					}
				}
			}
			return true
		})
	}
}

func rc7LenientCommit(w *World) {
	w.rule("RC7")
	p := w.pkg("options")
	io := w.fn("options", "(*interpreter).interpretOptions")
	if p == nil || io == nil {
		return
	}
	info := p.TypesInfo
	isProto := func(c *ast.CallExpr, name string) bool {
		f := callee(info, c)
		return f != nil && f.Pkg() != nil && f.Pkg().Path() == "google.golang.org/protobuf/proto" && f.Name() == name
	}
	// (a) Reset-before-Merge for every Merge whose destination is not a fresh local clone
	nMerge := 0
	for _, b := range allFuncBodies(p) {
		if b.Lit != nil || !strings.HasSuffix(w.Fset.Position(b.Decl.Pos()).Filename, "options.go") {
			continue
		}
		// fresh locals: assigned from proto.Clone(...) / New()
		fresh := map[string]bool{}
		ast.Inspect(b.Body, func(x ast.Node) bool {
			if as, ok := x.(*ast.AssignStmt); ok && len(as.Lhs) == 1 && len(as.Rhs) == 1 {
				isFresh := false
				ast.Inspect(as.Rhs[0], func(y ast.Node) bool {
					if c, ok := y.(*ast.CallExpr); ok {
						if isProto(c, "Clone") {
							isFresh = true
						}
						if s, ok := ast.Unparen(c.Fun).(*ast.SelectorExpr); ok && strings.HasPrefix(s.Sel.Name, "New") {
							isFresh = true
						}
					}
					return true
				})
				if isFresh {
					fresh[render(as.Lhs[0])] = true
				}
			}
			return true
		})
		var merges []*ast.CallExpr
		ast.Inspect(b.Body, func(x ast.Node) bool {
			if c, ok := x.(*ast.CallExpr); ok && isProto(c, "Merge") && len(c.Args) == 2 {
				merges = append(merges, c)
			}
			return true
		})
		for _, mc := range merges {
			nMerge++
			dst := render(mc.Args[0])
			key := "reset-before-merge|" + b.Label + "|" + dst
			base := dst
			if i := strings.IndexAny(base, ".(["); i > 0 {
				base = base[:i]
			}
			if fresh[dst] || fresh[base] {
				w.ok(key, mc.Pos(), "destination "+dst+" is a fresh clone made in this function")
				continue
			}
			isReset := func(x ast.Node) bool {
				c, ok := x.(*ast.CallExpr)
				return ok && isProto(c, "Reset") && len(c.Args) == 1 && render(c.Args[0]) == dst
			}
			isThis := func(x ast.Node) bool { return x == ast.Node(mc) }
			nb, bad := mustPrecede(info, b.Body, isReset, isThis)
			if nb == 1 && len(bad) == 0 {
				w.ok(key, mc.Pos(), "proto.Merge into the caller's message "+dst+" is preceded on every path by proto.Reset("+dst+"): the result replaces, not accumulates")
			} else {
				w.violation(key, mc.Pos(), "proto.Merge("+dst+", …) is not preceded by proto.Reset("+dst+") on every path: repeated and unknown fields already present in "+dst+" are duplicated, so lenient/unlinked results differ from strict ones")
			}
		}
	}
	w.floor("proto.Merge sites in options.go", nMerge, 2)

	// (b) in interpretOptions nothing fallible runs after the caller's opts was first modified
	optsName := ""
	for _, fl := range io.Decl.Type.Params.List {
		for _, nm := range fl.Names {
			if nm.Name == "opts" {
				optsName = nm.Name
			}
		}
	}
	if optsName == "" {
		w.undecided("commit-last|param", io.Decl.Pos(), "interpretOptions has no parameter named opts")
		return
	}
	cloneInto := w.fn("options", "cloneInto")
	isMut := func(c *ast.CallExpr) bool {
		if (isProto(c, "Reset") || isProto(c, "Merge")) && len(c.Args) >= 1 && render(c.Args[0]) == optsName {
			return true
		}
		if cloneInto != nil {
			if f := callee(info, c); f == cloneInto.Obj && len(c.Args) >= 1 && render(c.Args[0]) == optsName {
				return true
			}
		}
		return false
	}
	g := buildCFG(info, io.Decl.Body)
	d := &Dataflow{G: g, Must: false, Init: Facts{}}
	d.Transfer = func(n ast.Node, in Facts) Facts {
		out := in
		inspectPost(n, func(x ast.Node) {
			if c, ok := x.(*ast.CallExpr); ok && isMut(c) {
				out = out.with("mutated")
			}
		})
		return out
	}
	d.Run()
	nMut, late := 0, 0
	ioParents := parentMap(io.Decl.Body)
	lenientFld := w.field("options", "interpreter", "lenient")
	// error path of a strict commit: `if err := cloneInto(opts, …); err != nil { … }` outside `if interp.lenient`
	onStrictCommitErrorPath := func(c *ast.CallExpr) bool {
		inCommitIf, inLenient := false, false
		for a := ioParents[c]; a != nil; a = ioParents[a] {
			ifs, ok := a.(*ast.IfStmt)
			if !ok {
				continue
			}
			if selField(info, ifs.Cond) == lenientFld && lenientFld != nil {
				inLenient = true
			}
			if as, ok := ifs.Init.(*ast.AssignStmt); ok && len(as.Rhs) == 1 {
				if mc, ok := ast.Unparen(as.Rhs[0]).(*ast.CallExpr); ok && isMut(mc) && c.Pos() > ifs.Body.Pos() {
					inCommitIf = true
				}
			}
		}
		return inCommitIf && !inLenient
	}
	d.Walk(func(_ *cfg.Block, n ast.Node, before Facts) {
		cur := before
		inspectPost(n, func(x ast.Node) {
			c, ok := x.(*ast.CallExpr)
			if !ok {
				return
			}
			if isMut(c) {
				nMut++
				cur = cur.with("mutated")
				return
			}
			if cur["mutated"] {
				if onStrictCommitErrorPath(c) {
					return // strict mode: a failed commit fails the whole interpretation; only the error is built here
				}
				late++
				w.violation("commit-last|call-after-commit:"+render(c.Fun), c.Pos(), "a call executes after the caller's options message was modified: if it fails (or, in lenient mode, reports), the message is left half-updated")
			}
		})
	})
	w.floor("modifications of the caller's opts in interpretOptions", nMut, 3)
	if late == 0 {
		w.ok("commit-last", io.Decl.Pos(), "in interpreter.interpretOptions every modification of the caller's options message (Reset/Merge/cloneInto(opts,…)) is the last step before returning: all fallible work happens on the scratch message first")
	}
}

// ---- RNC: checked narrowing conversions in option value coercion (C20) ---------------------------

var intRange = map[string][2]string{
	"int32":  {"-2147483648", "2147483647"},
	"uint32": {"0", "4294967295"},
	"int64":  {"-9223372036854775808", "9223372036854775807"},
	"uint64": {"0", "18446744073709551615"},
}

func bigOf(s string) *big.Int { b, _ := new(big.Int).SetString(s, 10); return b }

func rncNarrowing(w *World) {
	rncNarrowingIn(w, "options", []string{"(*interpreter).scalarFieldValue", "(*interpreter).scalarFieldValueFromProto", "(*interpreter).enumFieldValue", "(*interpreter).enumFieldValueFromProto"}, 10)
}

// rncFDP: the experimental descriptor generator (C27) must not narrow 64-bit values either.
func rncFDP(w *World) {
	p := w.pkg("experimental/fdp")
	if p == nil {
		return
	}
	var names []string
	for _, b := range allFuncBodies(p) {
		if b.Lit == nil {
			n := b.Obj.Name()
			if sig := b.Obj.Type().(*types.Signature); sig.Recv() != nil {
				t := sig.Recv().Type()
				ptr := ""
				if pt, ok := t.(*types.Pointer); ok {
					t, ptr = pt.Elem(), "*"
				}
				if nt, ok := t.(*types.Named); ok {
					n = "(" + ptr + nt.Obj().Name() + ")." + n
				}
			}
			names = append(names, n)
		}
	}
	rncNarrowingIn(w, "experimental/fdp", names, 0)
}

func rncNarrowingIn(w *World, rel string, scope []string, floor int) {
	w.rule("RNC")
	p := w.pkg(rel)
	if p == nil {
		return
	}
	info := p.TypesInfo
	nConv := 0
	for _, name := range scope {
		fr := w.fnOpt(rel, name)
		if fr == nil {
			continue
		}
		g := buildCFG(info, fr.Decl.Body)
		d := &Dataflow{G: g, Must: true, Init: Facts{}}
		d.Transfer = func(n ast.Node, in Facts) Facts {
			out := in
			if as, ok := n.(*ast.AssignStmt); ok {
				for _, l := range as.Lhs {
					if id, ok := l.(*ast.Ident); ok {
						for k := range out {
							if strings.HasPrefix(k, "le:"+id.Name+":") || strings.HasPrefix(k, "ge:"+id.Name+":") {
								out = out.without(k)
							}
						}
					}
				}
			}
			return out
		}
		d.Branch = func(leaf ast.Expr, truth bool, s Facts) Facts {
			be, ok := leaf.(*ast.BinaryExpr)
			if !ok {
				return s
			}
			x := render(be.X)
			tv, ok := info.Types[be.Y]
			if !ok || tv.Value == nil || tv.Value.Kind() != constant.Int && tv.Value.Kind() != constant.Float {
				return s
			}
			k := constant.ToInt(tv.Value)
			if k.Kind() != constant.Int {
				return s
			}
			ks := k.ExactString()
			op := be.Op
			if !truth {
				switch op {
				case token.GTR:
					op = token.LEQ
				case token.GEQ:
					op = token.LSS
				case token.LSS:
					op = token.GEQ
				case token.LEQ:
					op = token.GTR
				default:
					return s
				}
			}
			one := big.NewInt(1)
			kb := bigOf(ks)
			if kb == nil {
				return s
			}
			switch op {
			case token.LEQ:
				return s.with("le:" + x + ":" + kb.String())
			case token.LSS:
				return s.with("le:" + x + ":" + new(big.Int).Sub(kb, one).String())
			case token.GEQ:
				return s.with("ge:" + x + ":" + kb.String())
			case token.GTR:
				return s.with("ge:" + x + ":" + new(big.Int).Add(kb, one).String())
			}
			return s
		}
		d.Run()
		d.Walk(func(_ *cfg.Block, n ast.Node, before Facts) {
			inspectPost(n, func(x ast.Node) {
				c, ok := x.(*ast.CallExpr)
				if !ok || len(c.Args) != 1 {
					return
				}
				ftv, ok := info.Types[c.Fun]
				if !ok || !ftv.IsType() {
					return
				}
				dst := ftv.Type.String()
				dr, ok := intRange[dst]
				if !ok {
					return
				}
				atv, ok := info.Types[c.Args[0]]
				if !ok {
					return
				}
				src := atv.Type.String()
				sr, ok := intRange[src]
				if !ok || src == dst {
					return
				}
				nConv++
				arg := render(c.Args[0])
				needHi := bigOf(sr[1]).Cmp(bigOf(dr[1])) > 0
				needLo := bigOf(sr[0]).Cmp(bigOf(dr[0])) < 0
				hasHi, hasLo := !needHi, !needLo
				for f := range before {
					if strings.HasPrefix(f, "le:"+arg+":") && needHi {
						if v := bigOf(strings.TrimPrefix(f, "le:"+arg+":")); v != nil && v.Cmp(bigOf(dr[1])) <= 0 {
							hasHi = true
						}
					}
					if strings.HasPrefix(f, "ge:"+arg+":") && needLo {
						if v := bigOf(strings.TrimPrefix(f, "ge:"+arg+":")); v != nil && v.Cmp(bigOf(dr[0])) >= 0 {
							hasLo = true
						}
					}
				}
				key := fmt.Sprintf("narrowing|%s|%s(%s %s)", fr.Name, dst, arg, src)
				if hasHi && hasLo {
					w.ok(key, c.Pos(), fmt.Sprintf("conversion %s → %s is dominated by range guards that make it value-preserving (%s)", src, dst, before.String()))
				} else {
					var miss []string
					if !hasHi {
						miss = append(miss, arg+" <= "+dr[1])
					}
					if !hasLo {
						miss = append(miss, arg+" >= "+dr[0])
					}
					w.violation(key, c.Pos(), fmt.Sprintf("conversion %s(%s) from %s can change the value: no dominating guard establishes %s; an out-of-range option literal would wrap around and be stored instead of being rejected", dst, arg, src, strings.Join(miss, " and ")))
				}
			})
		})
	}
	w.floor("integer narrowing/sign conversions in "+rel, nConv, floor)
	if nConv == 0 {
		w.ok("narrowing|none|"+rel, token.NoPos, "no integer narrowing or sign-changing conversion between 32/64-bit integer types in the analysed functions of "+rel)
	}
}

// ---- RCF: case folding is a reviewed decision (C20, C04, C14) -----------------------------------

var caseFoldReviewed = map[string]string{
	"linker.(*fldDescriptor).looksLikeGroup|strings.ToLower":     "a group-like field is named by the lower-cased message name (protobuf-go's isGroupLike does the same)",
	"linker.canonicalEnumValueName|cases.Converter.Convert":      "enum values are compared by canonical (prefix-stripped, PascalCase) names when checking JSON conflicts, as protoc does",
	"options.targetTypeString|strings.ToLower":                   "diagnostic text only",
	"options.editionString|strings.ToLower":                      "diagnostic text only",
	"options.(*interpreter).messageLiteralValue|strings.ToLower": "message-literal group fields may be referenced by the lower-cased group message name",
	"parser.(*result).asGroupDescriptors|strings.ToLower":        "a group's field name is its lower-cased message name",
	"ast.NewSpecialFloatLiteralNode|strings.ToLower":             "inf/nan keywords",
	"internal.JSONName|cases.Converter.Convert":                  "json_name derivation (lowerCamel)",
	"internal.InitCap|cases.Converter.Convert":                   "map entry message name derivation",
	"internal.TrimPrefix|unicode.ToLower":                        "enum-name prefix stripping for canonical enum value names ignores case and underscores, as protoc does",
}

func rcfCaseFolding(w *World) {
	w.rule("RCF")
	scoped := map[string]bool{modPath + "/linker": true, modPath + "/options": true, modPath + "/parser": true, modPath + "/internal": true, modPath + "/ast": true, modPath + "/sourceinfo": true, modPath: true}
	n := 0
	seenKeys := map[string]bool{}
	for _, pk := range w.Roots {
		if !scoped[pk.PkgPath] {
			continue
		}
		for _, b := range allFuncBodies(pk) {
			if b.Lit != nil {
				continue
			}
			if strings.HasSuffix(w.Fset.Position(b.Decl.Pos()).Filename, ".y.go") {
				continue // generated parser actions (keyword matching of 'inf'/'nan' etc.)
			}
			ast.Inspect(b.Body, func(x ast.Node) bool {
				c, ok := x.(*ast.CallExpr)
				if !ok {
					return true
				}
				f := callee(pk.TypesInfo, c)
				if f == nil || f.Pkg() == nil {
					return true
				}
				name := ""
				switch {
				case f.Pkg().Path() == "strings" && (f.Name() == "ToLower" || f.Name() == "ToUpper" || f.Name() == "EqualFold" || f.Name() == "Title" || f.Name() == "ToTitle"):
					name = "strings." + f.Name()
				case f.Pkg().Path() == "bytes" && (f.Name() == "ToLower" || f.Name() == "ToUpper" || f.Name() == "EqualFold"):
					name = "bytes." + f.Name()
				case f.Pkg().Path() == "unicode" && (f.Name() == "ToLower" || f.Name() == "ToUpper" || f.Name() == "SimpleFold"):
					name = "unicode." + f.Name()
				case strings.HasSuffix(f.Pkg().Path(), "/cases") && f.Name() == "Convert":
					name = "cases.Converter.Convert"
				}
				if name == "" {
					return true
				}
				n++
				id := b.Label + "|" + name
				if seenKeys[id] {
					return true
				}
				seenKeys[id] = true
				if why, ok := caseFoldReviewed[id]; ok {
					w.ok("case-fold|"+id, c.Pos(), "reviewed: "+why)
				} else {
					w.undecided("case-fold|"+id, c.Pos(), "Protobuf names, keywords and literals are case-sensitive; this case-insensitive operation is not in the reviewed table — decide whether protoc folds case here and add the entry with the reason")
				}
				return true
			})
		}
	}
	w.floor("case-folding call sites in the stable compiler", n, 8)
	// stale table entries are reported as information only
	var stale []string
	for k := range caseFoldReviewed {
		if !seenKeys[k] {
			stale = append(stale, k)
		}
	}
	sort.Strings(stale)
	for _, k := range stale {
		w.info("case-fold|stale:"+k, token.NoPos, "reviewed entry no longer matches any call site")
	}
}

// RNC2 (C20): an integer literal reaches a float field with a single rounding. protoc converts an
// integer option literal to a `float` field directly (one rounding to the nearest float32).
// Converting through float64 first rounds twice: an integer above 2^53 that lies just below the
// midpoint of two adjacent float32 values is first rounded up to the midpoint and then, by
// ties-to-even, to the wrong neighbour. In package options every float32(x) conversion whose
// operand can hold a value produced by float64(<integer>) is a violation (reaching assignments are
// traced within the function).
func rnc2SingleRounding(w *World) {
	w.rule("RNC2")
	p := w.pkg("options")
	if p == nil {
		return
	}
	info := p.TypesInfo
	isInt := func(t types.Type) bool {
		bt, ok := t.Underlying().(*types.Basic)
		return ok && bt.Info()&types.IsInteger != 0
	}
	isConvTo := func(c *ast.CallExpr, kind types.BasicKind) bool {
		if len(c.Args) != 1 {
			return false
		}
		tv, ok := info.Types[c.Fun]
		if !ok || !tv.IsType() {
			return false
		}
		bt, ok := tv.Type.Underlying().(*types.Basic)
		return ok && bt.Kind() == kind
	}
	n := 0
	for _, b := range allFuncBodies(p) {
		if b.Lit != nil {
			continue
		}
		// assignments per object
		assigns := map[types.Object][]ast.Expr{}
		ast.Inspect(b.Body, func(x ast.Node) bool {
			as, ok := x.(*ast.AssignStmt)
			if !ok || len(as.Lhs) != len(as.Rhs) {
				return true
			}
			for i, l := range as.Lhs {
				if id, ok := l.(*ast.Ident); ok {
					o := info.Defs[id]
					if o == nil {
						o = info.Uses[id]
					}
					if o != nil {
						assigns[o] = append(assigns[o], as.Rhs[i])
					}
				}
			}
			return true
		})
		ast.Inspect(b.Body, func(x ast.Node) bool {
			c, ok := x.(*ast.CallExpr)
			if !ok || !isConvTo(c, types.Float32) {
				return true
			}
			n++
			key := "single-rounding|" + b.Label + "|" + types.ExprString(c)
			arg := ast.Unparen(c.Args[0])
			if t := info.TypeOf(arg); t != nil && isInt(t) {
				w.ok(key, c.Pos(), "integer converted to float32 directly (one rounding)")
				return true
			}
			viaF64 := ""
			var seen = map[types.Object]bool{}
			var trace func(e ast.Expr, depth int)
			trace = func(e ast.Expr, depth int) {
				e = ast.Unparen(e)
				switch y := e.(type) {
				case *ast.CallExpr:
					if isConvTo(y, types.Float64) {
						if t := info.TypeOf(y.Args[0]); t != nil && isInt(t) {
							viaF64 = types.ExprString(y)
						}
					}
				case *ast.Ident:
					o := info.Uses[y]
					if o == nil || seen[o] || depth > 4 {
						return
					}
					seen[o] = true
					for _, r := range assigns[o] {
						trace(r, depth+1)
					}
				}
			}
			trace(arg, 0)
			if viaF64 == "" {
				w.ok(key, c.Pos(), "the operand does not come from an integer widened to float64")
			} else {
				w.violation(key, c.Pos(), "the operand of "+types.ExprString(c)+" can hold "+viaF64+": an integer literal on a float field is rounded twice (to float64, then to float32), which differs from protoc's single rounding for integers above 2^53 just below a float32 midpoint")
			}
			return true
		})
	}
	w.floor("float32 conversions in package options", n, 3)
}
